"""Driver-side stimulus enumeration for HTTP/1.x connections.

Each generator yields complete scripts (dicts).  The `fam` field names the family a
script belongs to (used for coverage accounting: distinct families x shapes)."""
from __future__ import annotations

import random
from typing import Any, Dict, Iterator, List, Optional

from . import build

TOK_POOL = [
    ["/", "/"],
    ["a", "a"],
    ["b%20c", "b c"],
    ["%2F", "/"],
    ["%3F", "?"],
    ["%41", "A"],
    ["%C3%A9", "é"],
    ["x.y", "x.y"],
    ["~-_", "~-_"],
]
QUERY_POOL = [["a=1", "a=1"], ["&b=%20", "&b=%20"], ["?", "?"], ["=", "="], ["%3F", "%3F"]]

HEADER_SETS = [
    [["host", "hypercorn"]],
    [["Host", "hypercorn"], ["X-Mixed-Case", "Value"], ["x-repeat", "1"], ["X-Repeat", "2"]],
    [["host", "hypercorn"], ["x-empty", ""], ["accept", "*/*"], ["x-repeat", "a"], ["x-repeat", "a"]],
    [["host", "example.org:8080"], ["cookie", "a=b; c=d"], ["x-long", "v" * 300]],
]


def target_variants() -> List[List[List[str]]]:
    out = [
        [["/", "/"]],
        [["/", "/"], ["a", "a"], ["/", "/"], ["b%20c", "b c"]],
        [["/", "/"], ["a", "a"], ["?", "?"], ["a=1", "a=1"]],
        [["/", "/"], ["%2F", "/"], ["%41", "A"], ["?", "?"], ["a=1", "a=1"], ["?", "?"], ["=", "="]],
        [["/", "/"], ["%C3%A9", "é"], ["x.y", "x.y"], ["?", "?"], ["%3F", "%3F"]],
        [["/", "/"], ["%3F", "?"], ["~-_", "~-_"]],
        [["/", "/"], ["a", "a"], ["?", "?"]],
    ]
    return out


def body_variants(qsize: int = 10) -> List[Optional[Dict[str, Any]]]:
    return [
        None,
        {"framing": "cl", "len": 0},
        {"framing": "cl", "len": 1},
        {"framing": "cl", "len": 10},
        {"framing": "chunked", "len": 7, "chunks": [3, 4]},
        {"framing": "chunked", "len": 9, "chunks": [1, 8], "ext": ";x=y"},
        {"framing": "chunked", "len": 0, "chunks": []},
        {"framing": "cl", "len": 70000},
        {"framing": "chunked", "len": (qsize + 3) * 5, "chunks": [5] * (qsize + 3)},
        {"framing": "chunked", "len": 70000 + 17, "chunks": [70000, 17]},
    ]


def _split_steps(total: int, cuts: List[int]) -> List[Dict[str, Any]]:
    steps = []
    for c in sorted(set(c for c in cuts if 0 < c < total)):
        steps.append({"s": "send", "upto": c})
    steps.append({"s": "send", "upto": total})
    return steps


def stream_len(sc: Dict[str, Any]) -> int:
    return len(build.build_stream(sc["stream"])) if False else sum(
        len(p["raw"]) if "raw" in p else p["pat"][2] for p in sc["stream"]
    )


def base_script(requests: List[Dict[str, Any]], apps: Dict[str, Any], cfg: Optional[Dict[str, Any]] = None,
                fam: str = "") -> Dict[str, Any]:
    sc = build.h1_session(requests)
    sc.update({"carrier": "h1", "cfg": cfg or {}, "apps": apps, "steps": [], "fam": fam})
    return sc


# ------------------------------------------------------------------------------------------
def gen_c01(tier: str, rng: random.Random) -> Iterator[Dict[str, Any]]:
    """Request delivery: targets x headers x bodies x versions x segmentation x app timing."""
    targets = target_variants()
    bodies = body_variants()
    combos = []
    for ti, toks in enumerate(targets):
        for bi, body in enumerate(bodies):
            combos.append((ti, bi))
    if tier == "quick":
        # every target once, every body once, plus a seeded sample of the product
        picked = [(ti, ti % len(bodies)) for ti in range(len(targets))]
        picked += [(bi % len(targets), bi) for bi in range(len(bodies))]
        picked += rng.sample(combos, 8)
    else:
        picked = combos
    n = 0
    for ti, bi in picked:
        toks, body = targets[ti], bodies[bi]
        n += 1
        hdrs = HEADER_SETS[n % len(HEADER_SETS)]
        method = ["GET", "POST", "PUT", "DELETE", "OPTIONS", "PATCH"][n % 6]
        if body is not None and method == "GET":
            method = "POST"
        for version in (["1.1", "1.0"] if (n % 4 == 0 and (body is None or body["framing"] == "cl")) else ["1.1"]):
            req = {"rid": 1, "method": method, "toks": toks, "headers": hdrs, "version": version}
            if body is not None:
                req["body"] = dict(body)
            for timing in ("read-then-respond", "asleep-while-body-arrives"):
                if timing == "read-then-respond":
                    prog = build.simple_resp_program(chunks=[3])
                else:
                    prog = [["gate"]] + build.simple_resp_program(chunks=[3])
                sc = base_script([req], {"*": prog}, fam="c01/%d/%d/%s/%s" % (ti, bi, version, timing))
                total = stream_len(sc)
                head_end = sc["reqs"][0]["head_end"]
                if total <= 400:
                    cuts_list = [[c] for c in range(1, total)] if tier == "thorough" else [
                        [c] for c in sorted(set(rng.sample(range(1, total), min(12, total - 1)) + [head_end, head_end - 1, head_end + 1]))
                    ]
                    cuts_list.append([])
                    if tier == "thorough" or n % 5 == 0:
                        cuts_list.append(list(range(1, total)))  # one byte per read
                else:
                    k = 6
                    cuts_list = [sorted(rng.sample(range(1, total), k)) for _ in range(2 if tier == "quick" else 6)]
                    cuts_list.append([])
                    cuts_list.append([head_end, head_end + 65536])
                for cuts in cuts_list:
                    s2 = dict(sc)
                    steps = _split_steps(total, cuts)
                    if timing != "read-then-respond":
                        steps.append({"s": "go", "app": "1", "n": 1})
                    steps.append({"s": "dt", "d": 0.1})
                    s2["steps"] = steps
                    yield s2
    # read_timeout bounds the wait for client bytes - not the time an application takes to make room in its
    # queue: a body of more messages than the queue holds, all sent at once, and an application that starts
    # reading only after several read_timeouts have passed
    for framing in ("cl", "chunked"):
        for qsize in (1, 3):
            body = {"framing": framing, "len": 40, "chunks": [5] * 8}
            req = {"rid": 1, "method": "POST", "target": "/slow-reader", "body": body}
            sc = base_script([req], {"*": [["gate"]] + build.simple_resp_program(chunks=[3])},
                             cfg={"read_timeout": 1, "max_app_queue_size": qsize}, fam="c01/read-timeout/%s/q%d" % (framing, qsize))
            total = stream_len(sc)
            for cuts in ([], [sc["reqs"][0]["head_end"] + 7]):
                s2 = dict(sc)
                s2["steps"] = _split_steps(total, cuts) + [{"s": "dt", "d": 3.0}, {"s": "go", "app": "1", "n": 1}, {"s": "dt", "d": 0.2}]
                yield s2
    # raw header pass-through
    req = {"rid": 1, "method": "GET", "toks": targets[1], "headers": HEADER_SETS[1]}
    sc = base_script([req], {"*": build.simple_resp_program(chunks=[1])}, cfg={"h11_pass_raw_headers": True},
                     fam="c01/rawhdr")
    sc["steps"] = [{"s": "send"}]
    yield sc
    # ... combined with server_names (the served host is looked up in the same header list, however the client
    # spelled the header's name) and with a body
    for hi, hdrs in enumerate(([["Host", "hypercorn"], ["X-A", "1"]], [["HOST", "hypercorn"]], [["host", "hypercorn"]])):
        for raw in (True, False):
            req = {"rid": 1, "method": "POST", "toks": targets[2], "headers": hdrs, "body": {"framing": "cl", "len": 7}}
            sc = base_script([req], {"*": build.simple_resp_program(chunks=[1])},
                             cfg={"h11_pass_raw_headers": raw, "server_names": ["hypercorn", "other.example"]},
                             fam="c01/rawhdr-server-names/%d/%s" % (hi, raw))
            sc["steps"] = [{"s": "send"}, {"s": "dt", "d": 0.05}]
            yield sc
    # truncated body: client goes away mid-body -> no more_body=false
    for framing in ("cl", "chunked"):
        body = {"framing": framing, "len": 20, "sent": 8, "chunks": [8, 12]}
        req = {"rid": 1, "method": "POST", "target": "/t", "body": body}
        sc = base_script([req], {"*": build.simple_resp_program(chunks=[1])}, fam="c01/truncated/" + framing)
        sc["steps"] = [{"s": "send"}, {"s": "eof"}]
        yield sc


RESP_HEADER_SETS = [
    [],
    [["content-type", "text/plain"], ["x-a", "1"], ["x-a", "2"]],
    [["set-cookie", "a=b"], ["set-cookie", "c=d"], ["x-empty", ""]],
]
# the neighbours of every body-less status are there on purpose (203/205, 303/305): "exactly for 204 and 304"
STATUSES = [200, 201, 204, 304, 404, 500, 301, 418, 203, 205, 206, 303, 305, 400, 599]
CHUNKINGS = [[], [0], [1], [5], [0, 5, 0], [3, 4], [16384], [70000], [1, 70000, 1]]


def resp_program(status: int, headers: List[List[str]], chunks: List[int], with_cl: bool,
                 gated: bool = False, final_empty: bool = False) -> List[Any]:
    hdrs = [list(h) for h in headers]
    if with_cl:
        hdrs.append(["content-length", str(sum(chunks))])
    prog: List[Any] = [["recv_body"]]
    prog.append(["send", {"type": "http.response.start", "status": status, "headers": hdrs}])
    off = 0
    seq = list(chunks)
    for i, size in enumerate(seq):
        if gated:
            prog.append(["gate"])
        last = (i == len(seq) - 1) and not final_empty
        prog.append(["send", {"type": "http.response.body", "pat": [77, off, size], "more": not last}])
        off += size
    if not seq or final_empty:
        prog.append(["send", {"type": "http.response.body", "more": False}])
    prog.append(["recv_disc"])
    return prog


def gen_c02(tier: str, rng: random.Random) -> Iterator[Dict[str, Any]]:
    combos = []
    for st in STATUSES:
        for hi in range(len(RESP_HEADER_SETS)):
            for ci in range(len(CHUNKINGS)):
                for with_cl in (False, True):
                    for method in ("GET", "HEAD"):
                        for version in ("1.1", "1.0"):
                            combos.append((st, hi, ci, with_cl, method, version))
    if tier == "quick":
        picked = rng.sample(combos, 90)
        # make sure each status / chunking / suppress case appears
        for st in STATUSES:
            picked.append((st, 1, 4, False, "GET", "1.1"))
            picked.append((st, 0, 5, True, "GET", "1.1"))
        for ci in range(len(CHUNKINGS)):
            picked.append((200, 2, ci, False, "GET", "1.1"))
            picked.append((200, 0, ci, True, "HEAD", "1.1"))
            picked.append((200, 0, ci, False, "GET", "1.0"))
    else:
        picked = combos
    for st, hi, ci, with_cl, method, version in picked:
        chunks = CHUNKINGS[ci]
        if st in (204, 304) and with_cl and sum(chunks) > 0:
            # declared length with a bodiless status: h11 refuses a non-zero content-length on 204
            with_cl = False
        req = {"rid": 1, "method": method, "target": "/r", "version": version}
        for pace in ("free", "paused-then-resumed"):
            if pace != "free" and (tier == "quick" and rng.random() < 0.7):
                continue
            prog = resp_program(st, RESP_HEADER_SETS[hi], chunks, with_cl, final_empty=(ci % 2 == 0))
            sc = base_script([req], {"*": prog}, fam="c02/%d/%d/%d/%s/%s/%s/%s" % (st, hi, ci, with_cl, method, version, pace))
            if pace == "free":
                sc["steps"] = [{"s": "send"}, {"s": "dt", "d": 0.1}]
            else:
                sc["steps"] = [{"s": "pause"}, {"s": "send"}, {"s": "dt", "d": 0.1}, {"s": "resume"}, {"s": "dt", "d": 0.1}]
            yield sc
    # keep-alive: two requests with different responses on one connection
    reqs = [{"rid": 1, "method": "GET", "target": "/one"}, {"rid": 2, "method": "HEAD", "target": "/two"},
            {"rid": 3, "method": "GET", "target": "/three"}]
    apps = {"1": resp_program(200, RESP_HEADER_SETS[1], [3, 4], False),
            "2": resp_program(200, [], [9], True),
            "3": resp_program(404, RESP_HEADER_SETS[2], [70000], True)}
    sc = base_script(reqs, apps, fam="c02/keepalive3")
    sc["steps"] = [{"s": "send"}, {"s": "dt", "d": 0.1}]
    yield sc
    # server header switches
    for cfg in ({"include_server_header": False}, {"include_date_header": False},
                {"alt_svc_headers": ['h3=":443"; ma=3600', 'h3-29=":443"']}):
        sc = base_script([{"rid": 1, "method": "GET", "target": "/"}],
                         {"*": resp_program(200, RESP_HEADER_SETS[1], [5], False)}, cfg=cfg, fam="c02/cfg/%s" % sorted(cfg)[0])
        sc["steps"] = [{"s": "send"}]
        yield sc


# ------------------------------------------------------------------------------------------
def pipeline_requests(n: int, variant: int) -> List[Dict[str, Any]]:
    reqs = []
    for i in range(1, n + 1):
        rq: Dict[str, Any] = {"rid": i, "method": "GET", "target": "/p%d" % i}
        sel = (variant + i) % 5
        if sel == 1:
            rq.update(method="POST", body={"framing": "cl", "len": 12})
        elif sel == 2:
            rq.update(method="POST", body={"framing": "chunked", "len": 9, "chunks": [4, 5]})
        elif sel == 3:
            rq.update(method="HEAD")
        reqs.append(rq)
    return reqs


def gen_c06(tier: str, rng: random.Random) -> Iterator[Dict[str, Any]]:
    """Pipelines x connection headers x versions x kamax x app behaviour x segmentation."""
    behaviours = ["read-then-respond", "respond-before-reading", "respond-while-reading", "leave-body-unread"]
    variants = range(5) if tier == "thorough" else range(3)
    for n in (1, 2, 3):
        for variant in variants:
            for kamax in ([1, 2, 3, 1000] if tier == "thorough" else [n, 1000, max(1, n - 1)]):
                for closer in ("none", "close-on-1", "http10-on-1", "close-on-last"):
                    reqs = pipeline_requests(n, variant)
                    if closer == "close-on-1":
                        reqs[0]["headers"] = [["host", "hypercorn"], ["connection", "close"]]
                        reqs[0]["wantclose"] = True
                    elif closer == "http10-on-1":
                        reqs[0]["version"] = "1.0"
                        if reqs[0].get("body", {}).get("framing") == "chunked":
                            reqs[0]["body"] = {"framing": "cl", "len": 9}
                    elif closer == "close-on-last":
                        reqs[-1]["headers"] = [["host", "hypercorn"], ["Connection", "keep-alive, Close"]]
                        reqs[-1]["wantclose"] = True
                    for beh in behaviours:
                        if tier == "quick" and rng.random() < 0.55:
                            continue
                        apps: Dict[str, Any] = {}
                        for rq in reqs:
                            rid = str(rq["rid"])
                            resp = [["send", {"type": "http.response.start", "status": 200, "headers": [["content-length", "4"]]}],
                                    ["send", {"type": "http.response.body", "pat": [60 + rq["rid"], 0, 4], "more": False}]]
                            if beh == "read-then-respond" or "body" not in rq:
                                apps[rid] = [["recv_body"]] + resp + [["recv_disc"]]
                            elif beh == "respond-before-reading":
                                apps[rid] = resp + [["recv_disc"]]
                            elif beh == "respond-while-reading":
                                apps[rid] = [["recv"]] + resp + [["recv_disc"]]
                            else:
                                apps[rid] = [["gate"]] + resp + [["recv_disc"]]
                        sc = base_script(reqs, apps, cfg={"keep_alive_max_requests": kamax},
                                         fam="c06/%d/%d/%d/%s/%s" % (n, variant, kamax, closer, beh))
                        total = stream_len(sc)
                        segs: List[List[int]] = [[]]
                        bounds = [r["head_end"] for r in sc["reqs"]] + [r["end"] for r in sc["reqs"] if r["end"] < (1 << 29)]
                        segs.append(sorted(set(bounds)))
                        segs.append(sorted(set(b + 1 for b in bounds) | set(b - 1 for b in bounds)))
                        if tier == "thorough":
                            segs += [[c] for c in range(1, total, 3)]
                            segs.append(list(range(1, total)))
                        else:
                            segs += [[c] for c in rng.sample(range(1, total), 3)]
                            if rng.random() < 0.15:
                                segs.append(list(range(1, total)))
                        for cuts in segs:
                            s2 = dict(sc)
                            steps = _split_steps(total, cuts)
                            if beh == "leave-body-unread":
                                for rq in reqs:
                                    steps.append({"s": "go", "app": str(rq["rid"]), "n": 1})
                            steps.append({"s": "dt", "d": 0.1})
                            s2["steps"] = steps
                            yield s2
    # requests carrying an Upgrade the server does not act on (h2c with a body, websocket on a non-GET, an
    # unknown token) are ordinary requests; the connection stays reusable and the next request - arriving
    # after the response, during it, or in the same segment - is served
    for ui, (method, upg, body) in enumerate((("POST", [["upgrade", "h2c"], ["http2-settings", "AAMAAABkAAQAAP__"], ["connection", "Upgrade, HTTP2-Settings"]], True),
                                                ("POST", [["upgrade", "websocket"], ["connection", "Upgrade"], ["sec-websocket-version", "13"], ["sec-websocket-key", "dGhlIHNhbXBsZSBub25jZQ=="]], True),
                                                ("GET", [["upgrade", "foo/2"], ["connection", "Upgrade"]], False),
                                                ("PUT", [["upgrade", "h2c, foo"], ["connection", "Upgrade"]], True))):
        for timing in ("after-response", "during-response", "same-segment"):
            rq1: Dict[str, Any] = {"rid": 1, "method": method, "target": "/u%d" % ui, "headers": [["host", "hypercorn"]] + upg}
            if body:
                # announced by content-length or by transfer-encoding alone
                rq1["body"] = {"framing": "cl", "len": 5} if ui % 2 else {"framing": "chunked", "len": 5, "chunks": [2, 3]}
            reqs = [rq1, {"rid": 2, "method": "GET", "target": "/next"}]
            resp = build.simple_resp_program(chunks=[3])
            apps = {"1": ([["gate"]] if timing == "during-response" else []) + resp, "2": build.simple_resp_program(chunks=[2])}
            sc = base_script(reqs, apps, fam="c06/ignored-upgrade/%d/%s" % (ui, timing))
            first_end = sc["reqs"][0]["end"]
            total = stream_len(sc)
            if timing == "after-response":
                sc["steps"] = [{"s": "send", "upto": first_end}, {"s": "dt", "d": 0.05}, {"s": "send", "upto": total}, {"s": "dt", "d": 0.1}]
            elif timing == "during-response":
                sc["steps"] = [{"s": "send", "upto": first_end}, {"s": "dt", "d": 0.05}, {"s": "send", "upto": total},
                               {"s": "go", "app": "1", "n": 1}, {"s": "dt", "d": 0.1}]
            else:
                sc["steps"] = [{"s": "send", "upto": total}, {"s": "dt", "d": 0.1}]
            yield sc
    # a pipelined request that takes longer than the keep-alive timeout: it was buffered when the response before
    # it completed (the connection was never idle), the server closes only after answering it
    for nreq in (2, 3):
        for ka in (2.0,):
            reqs = [{"rid": i, "method": "GET", "target": "/p%d" % i} for i in range(1, nreq + 1)]
            apps = {str(i): build.simple_resp_program(chunks=[2]) for i in range(1, nreq + 1)}
            apps["2"] = [["recv_body"], ["gate"]] + build.simple_resp_program(chunks=[3], read_first=False)
            sc = base_script(reqs, apps, cfg={"keep_alive_timeout": ka}, fam="c06/slow-pipelined/%d" % nreq)
            sc["steps"] = [{"s": "send"}, {"s": "dt", "d": 0.05}, {"s": "dt", "d": ka * 1.5}, {"s": "go", "app": "2", "n": 1},
                           {"s": "dt", "d": 0.05}]
            yield sc
    # a message that goes wrong after its head: a chunk-size line that is not a number, or the client's EOF in
    # the middle of the body - alone and as the second request of a pipeline, with the application waiting
    # for the body (no response started yet): close is announced on a response, then the connection closes
    for how in ("bad-chunk", "eof-mid-chunked", "eof-mid-length"):
        for position in ("first", "second"):
            if how == "bad-chunk":
                body = {"framing": "chunked", "len": 9, "chunks": [4], "sent": 4, "bad_chunk": True}
            elif how == "eof-mid-chunked":
                body = {"framing": "chunked", "len": 9, "chunks": [4, 5], "sent": 4}
            else:
                body = {"framing": "cl", "len": 10, "sent": 3}
            reqs = ([{"rid": 1, "method": "GET", "target": "/ok"}] if position == "second" else []) + \
                   [{"rid": 2, "method": "POST", "target": "/broken", "body": body}]
            apps = {"1": build.simple_resp_program(chunks=[2]), "2": [["recv_body"]] + build.simple_resp_program(chunks=[2], read_first=False)}
            sc = base_script(reqs, apps, fam="c06/message-goes-wrong/%s/%s" % (how, position))
            sc["steps"] = [{"s": "send"}, {"s": "dt", "d": 0.05}] + ([] if how == "bad-chunk" else [{"s": "eof"}]) + [{"s": "dt", "d": 0.1}]
            yield sc
    # malformed second request: first is served, second gets 400 + close
    reqs = [{"rid": 1, "method": "GET", "target": "/ok"},
            {"rid": 2, "raw_head": "GET / HTTP/1.1\r\nbad header line\r\n\r\n", "bad": True, "method": "GET"}]
    sc = base_script(reqs, {"*": build.simple_resp_program(chunks=[2])}, fam="c06/malformed-second")
    sc["steps"] = [{"s": "send"}, {"s": "dt", "d": 0.1}]
    yield sc


# ------------------------------------------------------------------------------------------
# Fault / crash-point / timing placement (C03, C05, C07)

def gated_app(ops: List[Any], end: str = "disc") -> List[Any]:
    """Every op preceded by a gate so that the harness decides when the app advances."""
    prog: List[Any] = []
    for op in ops:
        prog.append(["gate"])
        prog.append(op)
    if end == "disc":
        prog.append(["recv_disc"])
    elif end == "return":
        prog.append(["return"])
    elif end == "raise":
        prog.append(["raise"])
    elif end == "raise_group":
        prog.append(["raise_group"])
    elif end == "cancel":
        prog.append(["cancel"])
    return prog


def std_ops(rid: int, chunks: List[int], with_cl: bool = False, read: bool = True) -> List[Any]:
    ops: List[Any] = []
    if read:
        ops.append(["recv_body"])
    hdrs = [["content-length", str(sum(chunks))]] if with_cl else []
    ops.append(["send", {"type": "http.response.start", "status": 200, "headers": hdrs}])
    off = 0
    for i, size in enumerate(chunks):
        ops.append(["send", {"type": "http.response.body", "pat": [80 + rid, off, size], "more": i < len(chunks) - 1}])
        off += size
    return ops


FAULTS = ["eof", "reset", "fail", "shutdown", "expire", "pause-resume"]


def fault_step(fault: str, ka: float) -> List[Dict[str, Any]]:
    if fault == "expire":
        return [{"s": "dt", "d": ka}]
    if fault == "pause-resume":
        return [{"s": "pause"}]
    return [{"s": fault}]


def gen_faults(tier: str, rng: random.Random, focus: str = "c03") -> Iterator[Dict[str, Any]]:
    """One or two requests, application gated at every op; a fault (client EOF / reset, write
    failure, shutdown, keep-alive expiry, client stops reading) is injected at every position
    of the base schedule; the application additionally ends early (return / raise) at every
    crash point."""
    ka = 5.0
    scenarios = []
    # (requests, chunks, with_cl)
    scenarios.append(([{"rid": 1, "method": "POST", "target": "/f", "body": {"framing": "cl", "len": 8}}], [3, 4], False))
    scenarios.append(([{"rid": 1, "method": "GET", "target": "/g"}], [5], True))
    scenarios.append(([{"rid": 1, "method": "POST", "target": "/p1", "body": {"framing": "chunked", "len": 6, "chunks": [2, 4]}},
                       {"rid": 2, "method": "GET", "target": "/p2"}], [2, 2], True))
    # the last message carries no data: the only thing written for it is the end of the response
    scenarios.append(([{"rid": 1, "method": "GET", "target": "/e"}], [3, 0], False))
    if tier == "thorough":
        scenarios.append(([{"rid": 1, "method": "GET", "target": "/h", "version": "1.0"}], [4, 4], False))
        scenarios.append(([{"rid": 1, "method": "HEAD", "target": "/h"}], [4], True))
    for si, (reqs, chunks, with_cl) in enumerate(scenarios):
        nops = len(std_ops(1, chunks, with_cl, True))
        ends: List[Any] = [("disc", nops)]
        for cut in range(0, nops + 1):
            ends.append(("return", cut))
            ends.append(("raise", cut))
            ends.append(("cancel", cut))
            if focus == "c05":
                ends.append(("raise_group", cut))
            if focus == "c03" and 0 < cut < nops:
                # the application stops part-way through its response and waits to be told that the client went
                ends.append(("disc", cut))
        for end, cut in ends:
            if tier == "quick" and end != "disc" and focus == "c07" and cut not in (0, nops):
                continue
            apps = {}
            for rq in reqs:
                ops = std_ops(rq["rid"], chunks, with_cl, read="body" in rq or True)
                if rq["rid"] == 1:
                    apps["1"] = gated_app(ops[:cut], end)
                else:
                    apps[str(rq["rid"])] = gated_app(ops, "disc")
            sc0 = base_script(reqs, apps, fam="%s/faults/%d/%s@%d" % (focus, si, end, cut))
            total = stream_len(sc0)
            head_end = sc0["reqs"][0]["head_end"]
            base: List[Dict[str, Any]] = []
            if head_end > 10:
                base.append({"s": "send", "upto": 7})
            base.append({"s": "send", "upto": head_end})
            if total > head_end:
                if total - head_end > 3:
                    base.append({"s": "send", "upto": head_end + 3})
                base.append({"s": "send", "upto": total})
            for _ in range(cut + 1):
                base.append({"s": "go", "app": "1", "n": 1})
            for rq in reqs[1:]:
                for _ in range(nops + 1):
                    base.append({"s": "go", "app": str(rq["rid"]), "n": 1})
            positions = list(range(len(base) + 1))
            faults = FAULTS + ["none"]
            for fault in faults:
                if fault == "none":
                    pos_list = [len(base)]
                elif tier == "quick":
                    k = 3 if end == "disc" else 1
                    pos_list = sorted(set(rng.sample(positions, min(k, len(positions)))))
                else:
                    pos_list = positions
                for pos in pos_list:
                    steps = list(base[:pos])
                    if fault != "none":
                        steps += fault_step(fault, ka)
                    steps += base[pos:]
                    if fault == "pause-resume":
                        steps.append({"s": "dt", "d": 0.01})
                        steps.append({"s": "resume"})
                    steps.append({"s": "dt", "d": 0.1})
                    sc = dict(sc0)
                    sc["steps"] = steps
                    sc["fam"] = "%s/faults/%d/%s@%d/%s" % (focus, si, end, cut, fault)
                    yield sc


def gen_queue_full_close(tier: str, rng: random.Random) -> Iterator[Dict[str, Any]]:
    """The application's bounded queue is exactly full (or one short / one over) when the
    connection is closed under it; the application then wakes up, drains, answers and keeps
    listening (probe) so that a second disconnect or anything after it would be seen."""
    for q in (1, 2, 10):
        for nmsg in sorted(set([q - 1, q, q + 1])):
            if nmsg < 1:
                continue
            nchunks = nmsg - 1  # + the end-of-body message
            for closer in ("eof", "reset", "fail", "shutdown", "none", "expire"):
                for respond in (True, False):
                    body = {"framing": "chunked", "len": 2 * nchunks, "chunks": [2] * nchunks} if nchunks else None
                    rq: Dict[str, Any] = {"rid": 1, "method": "POST" if body else "GET", "target": "/qf"}
                    if body:
                        rq["body"] = body
                    prog: List[Any] = [["gate"], ["recv_body"]]
                    if respond:
                        prog += [["send", {"type": "http.response.start", "status": 200, "headers": [["content-length", "2"]]}],
                                 ["send", {"type": "http.response.body", "pat": [88, 0, 2], "more": False}]]
                    prog += [["recv_disc"], ["probe"]]
                    sc = base_script([rq], {"1": prog}, cfg={"max_app_queue_size": q},
                                     fam="c03/queue-full/%d/%d/%s/%s" % (q, nmsg, closer, respond))
                    total = stream_len(sc)
                    steps: List[Dict[str, Any]] = []
                    # one chunk per read so that every chunk is its own queue entry
                    for seg in sc["reqs"][0]["segs"]:
                        steps.append({"s": "send", "upto": seg[1] + 2})
                    steps.append({"s": "send", "upto": total})
                    if closer == "expire":
                        steps.append({"s": "dt", "d": 5.0})
                    elif closer != "none":
                        steps.append({"s": closer})
                    steps.append({"s": "go", "app": "1", "n": 1})
                    steps.append({"s": "dt", "d": 0.1})
                    sc["steps"] = steps
                    yield sc


def gen_c03(tier: str, rng: random.Random) -> Iterator[Dict[str, Any]]:
    yield from gen_faults(tier, rng, "c03")
    yield from gen_queue_full_close(tier, rng)


def gen_c05(tier: str, rng: random.Random) -> Iterator[Dict[str, Any]]:
    yield from gen_faults(tier, rng, "c05")


def gen_c07(tier: str, rng: random.Random) -> Iterator[Dict[str, Any]]:
    """Histories with the clock advanced to deadline-1ms and to the deadline at every point."""
    for ka in ([5.0, 0.5, 60.0] if tier == "thorough" else [5.0, 0.5]):
        cfg = {"keep_alive_timeout": ka}
        eps = 0.001
        # fresh connection, nothing sent
        for to in (ka - eps, ka, ka + 1):
            sc = base_script([], {}, cfg=cfg, fam="c07/fresh/%s" % ka)
            sc["steps"] = [{"s": "tick", "to": to}]
            yield sc
        # partial head, then silence
        req = [{"rid": 1, "method": "GET", "target": "/k"}]
        for cut in (1, 5, 20):
            for at in (0.0, ka / 2):
                sc = base_script(req, {"*": build.simple_resp_program(chunks=[2])}, cfg=cfg, fam="c07/partial-head/%s" % ka)
                sc["steps"] = [{"s": "tick", "to": at}, {"s": "send", "upto": cut}, {"s": "tick", "to": ka - eps},
                               {"s": "tick", "to": ka}, {"s": "tick", "to": at + ka - eps}, {"s": "tick", "to": at + ka}]
                yield sc
        # request in progress far longer than the timeout (app slow), then response, then idle expiry
        for busy in (ka * 3,):
            prog = [["recv_body"], ["gate"]] + build.simple_resp_program(chunks=[2], read_first=False)
            sc = base_script(req, {"*": prog}, cfg=cfg, fam="c07/busy-then-idle/%s" % ka)
            sc["steps"] = [{"s": "send"}, {"s": "tick", "to": ka - eps}, {"s": "tick", "to": ka}, {"s": "tick", "to": busy},
                           {"s": "go", "app": "1", "n": 1}, {"s": "tick", "to": busy + ka - eps}, {"s": "tick", "to": busy + ka}]
            yield sc
        # keep-alive: second request arrives just before expiry, then expiry after it
        reqs2 = [{"rid": 1, "method": "GET", "target": "/k1"}, {"rid": 2, "method": "GET", "target": "/k2"}]
        sc = base_script(reqs2, {"*": build.simple_resp_program(chunks=[2])}, cfg=cfg, fam="c07/keepalive-second/%s" % ka)
        first_end = sc["reqs"][0]["end"]
        sc["steps"] = [{"s": "send", "upto": first_end}, {"s": "tick", "to": ka - eps}, {"s": "send"},
                       {"s": "tick", "to": ka}, {"s": "tick", "to": 2 * ka - 2 * eps}, {"s": "tick", "to": 2 * ka}]
        yield sc
        # pause at every point of a two-request history
        base = [{"s": "send", "upto": 5}, {"s": "send", "upto": first_end}, {"s": "send", "upto": first_end + 5}, {"s": "send"}]
        for pos in range(len(base) + 1):
            for d in (ka - eps, ka):
                sc2 = base_script(reqs2, {"*": build.simple_resp_program(chunks=[2])}, cfg=cfg, fam="c07/pause-at/%s/%d" % (ka, pos))
                sc2["steps"] = base[:pos] + [{"s": "dt", "d": d}] + base[pos:] + [{"s": "dt", "d": 0.01}]
                yield sc2
        # the beginning of the next request head (1 byte, 5 bytes, all but the last byte) arrives while the first
        # request is still in progress; the response then completes and the client stays silent
        for extra in (1, 5, -1):
            prog1 = [["recv_body"], ["gate"]] + build.simple_resp_program(chunks=[2], read_first=False)
            sc3 = base_script(reqs2, {"1": prog1, "2": build.simple_resp_program(chunks=[2])}, cfg=cfg,
                              fam="c07/partial-next-head-during-response/%s/%d" % (ka, extra))
            upto = first_end + extra if extra > 0 else sc3["reqs"][1]["head_end"] - 1
            sc3["steps"] = [{"s": "send", "upto": first_end}, {"s": "dt", "d": 0.01}, {"s": "send", "upto": upto}, {"s": "dt", "d": ka * 2},
                            {"s": "go", "app": "1", "n": 1}, {"s": "dt", "d": ka - eps}, {"s": "dt", "d": eps}, {"s": "dt", "d": ka}]
            yield sc3
        # error response generated by the server for an unknown host: connection then idle
        badhost = [{"rid": 1, "method": "GET", "target": "/nohost", "headers": [["host", "other.example"]], "kind": "badhost"}]
        sc = base_script(badhost, {"*": build.simple_resp_program(chunks=[2])}, cfg=dict(cfg, server_names=["hypercorn"]),
                         fam="c07/error-response/%s" % ka)
        sc["steps"] = [{"s": "send"}, {"s": "tick", "to": ka - eps}, {"s": "tick", "to": ka}, {"s": "tick", "to": 3 * ka}]
        yield sc
        # shutdown while idle / while busy
        sc = base_script(req, {"*": [["recv_body"], ["gate"]] + build.simple_resp_program(chunks=[2], read_first=False)}, cfg=cfg,
                         fam="c07/shutdown-busy/%s" % ka)
        sc["steps"] = [{"s": "send"}, {"s": "shutdown"}, {"s": "dt", "d": ka * 2}, {"s": "go", "app": "1", "n": 1}, {"s": "dt", "d": 0.01}]
        yield sc
        sc = base_script(req, {"*": build.simple_resp_program(chunks=[2])}, cfg=cfg, fam="c07/shutdown-idle/%s" % ka)
        sc["steps"] = [{"s": "send"}, {"s": "dt", "d": 0.01}, {"s": "shutdown"}, {"s": "dt", "d": 0.01}]
        yield sc
    yield from gen_faults(tier, rng, "c07")
    # pipelined request parked behind an unfinished one, peer loss at every point
    reqs2 = [{"rid": 1, "method": "GET", "target": "/q1"}, {"rid": 2, "method": "GET", "target": "/q2"}]
    for fault in ("eof", "reset", "fail"):
        for end in ("disc", "return", "raise"):
            ops = std_ops(1, [3, 3], False)
            for cut in ((0, 1, 2, len(ops)) if end != "disc" else (len(ops),)):
                apps = {"1": gated_app(ops[:cut], end), "2": build.simple_resp_program(chunks=[1])}
                base = [{"s": "send"}] + [{"s": "go", "app": "1", "n": 1} for _ in range(cut + 1)]
                for pos in range(1, len(base) + 1):
                    sc = base_script(reqs2, apps, fam="c07/parked-pipeline/%s/%s@%d" % (fault, end, cut))
                    sc["steps"] = base[:pos] + [{"s": fault}] + base[pos:] + [{"s": "dt", "d": 0.1}]
                    yield sc
