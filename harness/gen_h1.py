"""Driver-side stimulus enumeration for HTTP/1.x connections.

Each generator yields complete scripts (dicts).  The `fam` field names the family a
script belongs to (used for coverage accounting: distinct families x shapes)."""
from __future__ import annotations

import random
from typing import Any, Dict, Iterator, List, Optional

from . import build

TOK_POOL = [
    ["/", "/"],
    ["a", "a"],
    ["b%20c", "b c"],
    ["%2F", "/"],
    ["%3F", "?"],
    ["%41", "A"],
    ["%C3%A9", "é"],
    ["x.y", "x.y"],
    ["~-_", "~-_"],
]
QUERY_POOL = [["a=1", "a=1"], ["&b=%20", "&b=%20"], ["?", "?"], ["=", "="], ["%3F", "%3F"]]

HEADER_SETS = [
    [["host", "hypercorn"]],
    [["Host", "hypercorn"], ["X-Mixed-Case", "Value"], ["x-repeat", "1"], ["X-Repeat", "2"]],
    [["host", "hypercorn"], ["x-empty", ""], ["accept", "*/*"], ["x-repeat", "a"], ["x-repeat", "a"]],
    [["host", "example.org:8080"], ["cookie", "a=b; c=d"], ["x-long", "v" * 300]],
]


def target_variants() -> List[List[List[str]]]:
    out = [
        [["/", "/"]],
        [["/", "/"], ["a", "a"], ["/", "/"], ["b%20c", "b c"]],
        [["/", "/"], ["a", "a"], ["?", "?"], ["a=1", "a=1"]],
        [["/", "/"], ["%2F", "/"], ["%41", "A"], ["?", "?"], ["a=1", "a=1"], ["?", "?"], ["=", "="]],
        [["/", "/"], ["%C3%A9", "é"], ["x.y", "x.y"], ["?", "?"], ["%3F", "%3F"]],
        [["/", "/"], ["%3F", "?"], ["~-_", "~-_"]],
        [["/", "/"], ["a", "a"], ["?", "?"]],
    ]
    return out


def body_variants(qsize: int = 10) -> List[Optional[Dict[str, Any]]]:
    return [
        None,
        {"framing": "cl", "len": 0},
        {"framing": "cl", "len": 1},
        {"framing": "cl", "len": 10},
        {"framing": "chunked", "len": 7, "chunks": [3, 4]},
        {"framing": "chunked", "len": 9, "chunks": [1, 8], "ext": ";x=y"},
        {"framing": "chunked", "len": 0, "chunks": []},
        {"framing": "cl", "len": 70000},
        {"framing": "chunked", "len": (qsize + 3) * 5, "chunks": [5] * (qsize + 3)},
        {"framing": "chunked", "len": 70000 + 17, "chunks": [70000, 17]},
    ]


def _split_steps(total: int, cuts: List[int]) -> List[Dict[str, Any]]:
    steps = []
    for c in sorted(set(c for c in cuts if 0 < c < total)):
        steps.append({"s": "send", "upto": c})
    steps.append({"s": "send", "upto": total})
    return steps


def stream_len(sc: Dict[str, Any]) -> int:
    return len(build.build_stream(sc["stream"])) if False else sum(
        len(p["raw"]) if "raw" in p else p["pat"][2] for p in sc["stream"]
    )


def base_script(requests: List[Dict[str, Any]], apps: Dict[str, Any], cfg: Optional[Dict[str, Any]] = None,
                fam: str = "") -> Dict[str, Any]:
    sc = build.h1_session(requests)
    sc.update({"carrier": "h1", "cfg": cfg or {}, "apps": apps, "steps": [], "fam": fam})
    return sc


# ------------------------------------------------------------------------------------------
def gen_c01(tier: str, rng: random.Random) -> Iterator[Dict[str, Any]]:
    """Request delivery: targets x headers x bodies x versions x segmentation x app timing."""
    targets = target_variants()
    bodies = body_variants()
    combos = []
    for ti, toks in enumerate(targets):
        for bi, body in enumerate(bodies):
            combos.append((ti, bi))
    if tier == "quick":
        # every target once, every body once, plus a seeded sample of the product
        picked = [(ti, ti % len(bodies)) for ti in range(len(targets))]
        picked += [(bi % len(targets), bi) for bi in range(len(bodies))]
        picked += rng.sample(combos, 8)
    else:
        picked = combos
    n = 0
    for ti, bi in picked:
        toks, body = targets[ti], bodies[bi]
        n += 1
        hdrs = HEADER_SETS[n % len(HEADER_SETS)]
        method = ["GET", "POST", "PUT", "DELETE", "OPTIONS", "PATCH"][n % 6]
        if body is not None and method == "GET":
            method = "POST"
        for version in (["1.1", "1.0"] if (n % 4 == 0 and (body is None or body["framing"] == "cl")) else ["1.1"]):
            req = {"rid": 1, "method": method, "toks": toks, "headers": hdrs, "version": version}
            if body is not None:
                req["body"] = dict(body)
            for timing in ("read-then-respond", "asleep-while-body-arrives"):
                if timing == "read-then-respond":
                    prog = build.simple_resp_program(chunks=[3])
                else:
                    prog = [["gate"]] + build.simple_resp_program(chunks=[3])
                sc = base_script([req], {"*": prog}, fam="c01/%d/%d/%s/%s" % (ti, bi, version, timing))
                total = stream_len(sc)
                head_end = sc["reqs"][0]["head_end"]
                if total <= 400:
                    cuts_list = [[c] for c in range(1, total)] if tier == "thorough" else [
                        [c] for c in sorted(set(rng.sample(range(1, total), min(12, total - 1)) + [head_end, head_end - 1, head_end + 1]))
                    ]
                    cuts_list.append([])
                    if tier == "thorough" or n % 5 == 0:
                        cuts_list.append(list(range(1, total)))  # one byte per read
                else:
                    k = 6
                    cuts_list = [sorted(rng.sample(range(1, total), k)) for _ in range(2 if tier == "quick" else 6)]
                    cuts_list.append([])
                    cuts_list.append([head_end, head_end + 65536])
                for cuts in cuts_list:
                    s2 = dict(sc)
                    steps = _split_steps(total, cuts)
                    if timing != "read-then-respond":
                        steps.append({"s": "go", "app": "1", "n": 1})
                    steps.append({"s": "dt", "d": 0.1})
                    s2["steps"] = steps
                    yield s2
    # raw header pass-through
    req = {"rid": 1, "method": "GET", "toks": targets[1], "headers": HEADER_SETS[1]}
    sc = base_script([req], {"*": build.simple_resp_program(chunks=[1])}, cfg={"h11_pass_raw_headers": True},
                     fam="c01/rawhdr")
    sc["steps"] = [{"s": "send"}]
    yield sc
    # truncated body: client goes away mid-body -> no more_body=false
    for framing in ("cl", "chunked"):
        body = {"framing": framing, "len": 20, "sent": 8, "chunks": [8, 12]}
        req = {"rid": 1, "method": "POST", "target": "/t", "body": body}
        sc = base_script([req], {"*": build.simple_resp_program(chunks=[1])}, fam="c01/truncated/" + framing)
        sc["steps"] = [{"s": "send"}, {"s": "eof"}]
        yield sc


RESP_HEADER_SETS = [
    [],
    [["content-type", "text/plain"], ["x-a", "1"], ["x-a", "2"]],
    [["set-cookie", "a=b"], ["set-cookie", "c=d"], ["x-empty", ""]],
]
STATUSES = [200, 201, 204, 304, 404, 500, 301, 418]
CHUNKINGS = [[], [0], [1], [5], [0, 5, 0], [3, 4], [16384], [70000], [1, 70000, 1]]


def resp_program(status: int, headers: List[List[str]], chunks: List[int], with_cl: bool,
                 gated: bool = False, final_empty: bool = False) -> List[Any]:
    hdrs = [list(h) for h in headers]
    if with_cl:
        hdrs.append(["content-length", str(sum(chunks))])
    prog: List[Any] = [["recv_body"]]
    prog.append(["send", {"type": "http.response.start", "status": status, "headers": hdrs}])
    off = 0
    seq = list(chunks)
    for i, size in enumerate(seq):
        if gated:
            prog.append(["gate"])
        last = (i == len(seq) - 1) and not final_empty
        prog.append(["send", {"type": "http.response.body", "pat": [77, off, size], "more": not last}])
        off += size
    if not seq or final_empty:
        prog.append(["send", {"type": "http.response.body", "more": False}])
    prog.append(["recv_disc"])
    return prog


def gen_c02(tier: str, rng: random.Random) -> Iterator[Dict[str, Any]]:
    combos = []
    for st in STATUSES:
        for hi in range(len(RESP_HEADER_SETS)):
            for ci in range(len(CHUNKINGS)):
                for with_cl in (False, True):
                    for method in ("GET", "HEAD"):
                        for version in ("1.1", "1.0"):
                            combos.append((st, hi, ci, with_cl, method, version))
    if tier == "quick":
        picked = rng.sample(combos, 90)
        # make sure each status / chunking / suppress case appears
        for st in STATUSES:
            picked.append((st, 1, 4, False, "GET", "1.1"))
            picked.append((st, 0, 5, True, "GET", "1.1"))
        for ci in range(len(CHUNKINGS)):
            picked.append((200, 2, ci, False, "GET", "1.1"))
            picked.append((200, 0, ci, True, "HEAD", "1.1"))
            picked.append((200, 0, ci, False, "GET", "1.0"))
    else:
        picked = combos
    for st, hi, ci, with_cl, method, version in picked:
        chunks = CHUNKINGS[ci]
        if st in (204, 304) and with_cl and sum(chunks) > 0:
            # declared length with a bodiless status: h11 refuses a non-zero content-length on 204
            with_cl = False
        req = {"rid": 1, "method": method, "target": "/r", "version": version}
        for pace in ("free", "paused-then-resumed"):
            if pace != "free" and (tier == "quick" and rng.random() < 0.7):
                continue
            prog = resp_program(st, RESP_HEADER_SETS[hi], chunks, with_cl, final_empty=(ci % 2 == 0))
            sc = base_script([req], {"*": prog}, fam="c02/%d/%d/%d/%s/%s/%s/%s" % (st, hi, ci, with_cl, method, version, pace))
            if pace == "free":
                sc["steps"] = [{"s": "send"}, {"s": "dt", "d": 0.1}]
            else:
                sc["steps"] = [{"s": "pause"}, {"s": "send"}, {"s": "dt", "d": 0.1}, {"s": "resume"}, {"s": "dt", "d": 0.1}]
            yield sc
    # keep-alive: two requests with different responses on one connection
    reqs = [{"rid": 1, "method": "GET", "target": "/one"}, {"rid": 2, "method": "HEAD", "target": "/two"},
            {"rid": 3, "method": "GET", "target": "/three"}]
    apps = {"1": resp_program(200, RESP_HEADER_SETS[1], [3, 4], False),
            "2": resp_program(200, [], [9], True),
            "3": resp_program(404, RESP_HEADER_SETS[2], [70000], True)}
    sc = base_script(reqs, apps, fam="c02/keepalive3")
    sc["steps"] = [{"s": "send"}, {"s": "dt", "d": 0.1}]
    yield sc
    # server header switches
    for cfg in ({"include_server_header": False}, {"include_date_header": False},
                {"alt_svc_headers": ['h3=":443"; ma=3600', 'h3-29=":443"']}):
        sc = base_script([{"rid": 1, "method": "GET", "target": "/"}],
                         {"*": resp_program(200, RESP_HEADER_SETS[1], [5], False)}, cfg=cfg, fam="c02/cfg/%s" % sorted(cfg)[0])
        sc["steps"] = [{"s": "send"}]
        yield sc


# ------------------------------------------------------------------------------------------
def pipeline_requests(n: int, variant: int) -> List[Dict[str, Any]]:
    reqs = []
    for i in range(1, n + 1):
        rq: Dict[str, Any] = {"rid": i, "method": "GET", "target": "/p%d" % i}
        sel = (variant + i) % 5
        if sel == 1:
            rq.update(method="POST", body={"framing": "cl", "len": 12})
        elif sel == 2:
            rq.update(method="POST", body={"framing": "chunked", "len": 9, "chunks": [4, 5]})
        elif sel == 3:
            rq.update(method="HEAD")
        reqs.append(rq)
    return reqs


def gen_c06(tier: str, rng: random.Random) -> Iterator[Dict[str, Any]]:
    """Pipelines x connection headers x versions x kamax x app behaviour x segmentation."""
    behaviours = ["read-then-respond", "respond-before-reading", "respond-while-reading", "leave-body-unread"]
    variants = range(5) if tier == "thorough" else range(3)
    for n in (1, 2, 3):
        for variant in variants:
            for kamax in ([1, 2, 3, 1000] if tier == "thorough" else [n, 1000, max(1, n - 1)]):
                for closer in ("none", "close-on-1", "http10-on-1", "close-on-last"):
                    reqs = pipeline_requests(n, variant)
                    if closer == "close-on-1":
                        reqs[0]["headers"] = [["host", "hypercorn"], ["connection", "close"]]
                        reqs[0]["wantclose"] = True
                    elif closer == "http10-on-1":
                        reqs[0]["version"] = "1.0"
                        if reqs[0].get("body", {}).get("framing") == "chunked":
                            reqs[0]["body"] = {"framing": "cl", "len": 9}
                    elif closer == "close-on-last":
                        reqs[-1]["headers"] = [["host", "hypercorn"], ["Connection", "keep-alive, Close"]]
                        reqs[-1]["wantclose"] = True
                    for beh in behaviours:
                        if tier == "quick" and rng.random() < 0.55:
                            continue
                        apps: Dict[str, Any] = {}
                        for rq in reqs:
                            rid = str(rq["rid"])
                            resp = [["send", {"type": "http.response.start", "status": 200, "headers": [["content-length", "4"]]}],
                                    ["send", {"type": "http.response.body", "pat": [60 + rq["rid"], 0, 4], "more": False}]]
                            if beh == "read-then-respond" or "body" not in rq:
                                apps[rid] = [["recv_body"]] + resp + [["recv_disc"]]
                            elif beh == "respond-before-reading":
                                apps[rid] = resp + [["recv_disc"]]
                            elif beh == "respond-while-reading":
                                apps[rid] = [["recv"]] + resp + [["recv_disc"]]
                            else:
                                apps[rid] = [["gate"]] + resp + [["recv_disc"]]
                        sc = base_script(reqs, apps, cfg={"keep_alive_max_requests": kamax},
                                         fam="c06/%d/%d/%d/%s/%s" % (n, variant, kamax, closer, beh))
                        total = stream_len(sc)
                        segs: List[List[int]] = [[]]
                        bounds = [r["head_end"] for r in sc["reqs"]] + [r["end"] for r in sc["reqs"] if r["end"] < (1 << 29)]
                        segs.append(sorted(set(bounds)))
                        segs.append(sorted(set(b + 1 for b in bounds) | set(b - 1 for b in bounds)))
                        if tier == "thorough":
                            segs += [[c] for c in range(1, total, 3)]
                            segs.append(list(range(1, total)))
                        else:
                            segs += [[c] for c in rng.sample(range(1, total), 3)]
                            if rng.random() < 0.15:
                                segs.append(list(range(1, total)))
                        for cuts in segs:
                            s2 = dict(sc)
                            steps = _split_steps(total, cuts)
                            if beh == "leave-body-unread":
                                for rq in reqs:
                                    steps.append({"s": "go", "app": str(rq["rid"]), "n": 1})
                            steps.append({"s": "dt", "d": 0.1})
                            s2["steps"] = steps
                            yield s2
    # malformed second request: first is served, second gets 400 + close
    reqs = [{"rid": 1, "method": "GET", "target": "/ok"},
            {"rid": 2, "raw_head": "GET / HTTP/1.1\r\nbad header line\r\n\r\n", "bad": True, "method": "GET"}]
    sc = base_script(reqs, {"*": build.simple_resp_program(chunks=[2])}, fam="c06/malformed-second")
    sc["steps"] = [{"s": "send"}, {"s": "dt", "d": 0.1}]
    yield sc
