"""C15 (connection level): shutdown triggered at every phase of HTTP/1, HTTP/2 and WebSocket
connections; requests in progress finish afterwards in every order."""
from __future__ import annotations

import itertools
import random
from typing import Any, Dict, Iterator, List

from . import build
from .gen_h1 import base_script, gated_app, std_ops, stream_len
from .gen_h2 import h2_script


def gen_c15c(tier: str, rng: random.Random) -> Iterator[Dict[str, Any]]:
    held = [["recv_body"], ["gate"]] + build.simple_resp_program(chunks=[3, 4], read_first=False)
    # HTTP/2: n streams in progress at the trigger, released afterwards in every order; a new stream after it
    for n in (1, 2, 3):
        for order in itertools.permutations(range(1, n + 1)):
            for late in (False, True):
                for big in (False, True):
                    if tier == "quick" and n == 3 and rng.random() < 0.6:
                        continue
                    prog = [["recv_body"], ["gate"]] + build.simple_resp_program(chunks=[30000, 40000] if big else [3, 4], read_first=False)
                    steps = [build.h2_headers(i, 2 * i - 1, "GET", toks=[["/s%d" % i, "/s%d" % i]]) for i in range(1, n + 1)]
                    steps.append({"s": "dt", "d": 0.01})
                    steps.append({"s": "shutdown"})
                    steps.append({"s": "dt", "d": 0.01})
                    if late:
                        steps.append(build.h2_headers(9, 2 * n + 1, "GET", toks=[["/late", "/late"]]))
                        steps.append({"s": "dt", "d": 0.01})
                    for i in order:
                        steps.append({"s": "go", "app": str(i), "n": 1})
                        steps.append({"s": "dt", "d": 0.01})
                    yield h2_script(steps, {"*": prog}, "c15c/h2/%d/%s/late=%s/big=%s" % (n, "".join(map(str, order)), late, big),
                                    maxchunk=40000)
    # HTTP/2 reached by an h2c upgrade: the upgrade request itself (stream 1) is the request in progress - also
    # with a further stream opened before / after the trigger, and with the keep-alive timeout run out meanwhile
    for big in (False, True):
        for second in ("none", "before", "after"):
            prog = [["recv_body"], ["gate"]] + build.simple_resp_program(chunks=[30000, 40000] if big else [3, 4], read_first=False)
            rq = {"rid": 1, "method": "GET", "target": "/up", "version": "1.1", "kind": "http", "upgrade": "h2c",
                  "headers": [["Host", "hypercorn"], ["Connection", "Upgrade, HTTP2-Settings"], ["Upgrade", "h2c"],
                              ["HTTP2-Settings", "AAMAAABkAAQAAP__"]]}
            sc = base_script([rq], {"*": prog}, fam="c15c/h2c-upgrade/%s/big=%s" % (second, big))
            sc["creqs"][0]["ver"] = "2"
            sc["opening"] = "h2c"
            sc["maxchunk"] = 40000
            steps = [{"s": "send", "upto": stream_len(sc)}, {"s": "dt", "d": 0.05}]
            if second == "before":
                steps += [build.h2_headers(2, 3, "GET", toks=[["/s2", "/s2"]], scheme="http"), {"s": "dt", "d": 0.01}]
            steps += [{"s": "shutdown"}, {"s": "dt", "d": 0.01}]
            if second == "after":
                steps += [build.h2_headers(2, 3, "GET", toks=[["/late", "/late"]], scheme="http"), {"s": "dt", "d": 0.01}]
            steps += [{"s": "go", "app": "1", "n": 1}, {"s": "dt", "d": 0.01}]
            if second == "before":
                steps += [{"s": "go", "app": "2", "n": 1}, {"s": "dt", "d": 0.01}]
            sc["steps"] = steps
            yield sc
    # HTTP/2 idle connection (no stream, and after streams finished) at the trigger
    for history in ("fresh", "after-stream"):
        steps = []
        if history == "after-stream":
            steps += [build.h2_headers(1, 1, "GET", toks=[["/x", "/x"]]), {"s": "dt", "d": 0.01}]
        steps += [{"s": "shutdown"}, {"s": "dt", "d": 0.01}]
        yield h2_script(steps, {"*": build.simple_resp_program(chunks=[2])}, "c15c/h2/idle/%s" % history)
    # HTTP/1: request in progress at the trigger (at every application step), then a further request
    ops = std_ops(1, [3, 4])
    for cut in range(len(ops) + 1):
        for follow in ("pipelined-before", "sent-after", "none"):
            reqs = [{"rid": 1, "method": "POST", "target": "/h1", "body": {"framing": "cl", "len": 6}}]
            if follow != "none":
                reqs.append({"rid": 2, "method": "GET", "target": "/next"})
            apps = {"1": gated_app(ops, "disc"), "2": build.simple_resp_program(chunks=[1])}
            sc = base_script(reqs, apps, fam="c15c/h1/cut%d/%s" % (cut, follow))
            first_end = sc["reqs"][0]["end"]
            total = stream_len(sc)
            steps = [{"s": "send", "upto": total if follow == "pipelined-before" else first_end}]
            steps += [{"s": "go", "app": "1", "n": 1} for _ in range(cut)]
            steps.append({"s": "shutdown"})
            steps += [{"s": "go", "app": "1", "n": 1} for _ in range(len(ops) + 1 - cut)]
            steps.append({"s": "dt", "d": 0.01})
            if follow == "sent-after":
                steps.append({"s": "send", "upto": total})
                steps.append({"s": "dt", "d": 0.01})
            sc["steps"] = steps
            yield sc
    # HTTP/1 idle keep-alive connection, fresh connection, partial head at the trigger
    for history in ("fresh", "after-response", "partial-head"):
        reqs = [{"rid": 1, "method": "GET", "target": "/k"}, {"rid": 2, "method": "GET", "target": "/k2"}]
        sc = base_script(reqs, {"*": build.simple_resp_program(chunks=[2])}, fam="c15c/h1/idle/%s" % history)
        first_end = sc["reqs"][0]["end"]
        steps: List[Dict[str, Any]] = []
        if history == "after-response":
            steps += [{"s": "send", "upto": first_end}, {"s": "dt", "d": 0.01}]
        elif history == "partial-head":
            steps += [{"s": "send", "upto": 9}, {"s": "dt", "d": 0.01}]
        steps += [{"s": "shutdown"}, {"s": "dt", "d": 0.01}]
        sc["steps"] = steps
        yield sc
