"""Stimulus enumeration for WebSocket sessions (HTTP/1.1 upgrade and HTTP/2 extended CONNECT)."""
from __future__ import annotations

import random
from typing import Any, Dict, Iterator, List, Optional

from . import build
from .gen_h1 import base_script, stream_len
from .gen_h2 import h2_script


def echo_app(nrecv: int, sends: List[Dict[str, Any]], accept: Optional[Dict[str, Any]] = None, close: bool = True) -> List[Any]:
    prog: List[Any] = [["recv"], ["send", dict({"type": "websocket.accept"}, **(accept or {}))]]
    for i in range(nrecv):
        prog.append(["recv"])
        if i < len(sends):
            prog.append(["send", sends[i]])
    for extra in sends[nrecv:]:
        prog.append(["send", extra])
    if close:
        prog.append(["send", {"type": "websocket.close", "code": 1000}])
    prog.append(["recv_disc"])
    return prog


def ws_session(carrier: str, rid: int, ws_steps: List[Dict[str, Any]], prog: List[Any], fam: str,
               cfg: Optional[Dict[str, Any]] = None, deflate: bool = False, subprotos=None, hs_kw=None,
               pre: Optional[List[Dict[str, Any]]] = None, cuts=None) -> Dict[str, Any]:
    hs_kw = hs_kw or {}
    if carrier == "h1":
        rq = build.ws_h1_request(rid, deflate=deflate, subprotos=subprotos, **hs_kw)
        sc = base_script([rq], {"*": prog}, cfg=cfg, fam=fam)
        total = stream_len(sc)
        steps: List[Dict[str, Any]] = []
        if cuts:
            for c in cuts:
                steps.append({"s": "send", "upto": c})
        steps.append({"s": "send", "upto": total})
        steps += ws_steps
        sc["steps"] = steps
        return sc
    steps = [build.ws_h2_connect(rid, 1, deflate=deflate, subprotos=subprotos, **hs_kw), {"s": "dt", "d": 0.01}]
    steps += [dict(s, stream=1) if s["s"] == "ws" else s for s in ws_steps]
    return h2_script(steps, {"*": prog}, fam, cfg=cfg)


def gen_c10(tier: str, rng: random.Random) -> Iterator[Dict[str, Any]]:
    limit = 20
    cfg = {"websocket_max_message_size": limit}
    # message sequences: (kind, len, frags)
    seqs = [
        [("text", 6, [6])],
        [("bytes", 5, [2, 3]), ("text", 0, [0])],
        [("text", 9, [1, 1, 7]), ("bytes", 0, [0]), ("bytes", 1, [1])],
        [("text", limit, [7, 13]), ("bytes", limit, [limit])],
        [("text", limit - 1, [limit - 1]), ("bytes", limit - 1, [5])],
        [("bytes", 3, [3]), ("bytes", limit + 1, [limit + 1]), ("bytes", 2, [2])],
        [("text", limit + 1, [10, 11]), ("text", 2, [2])],
        [("bytes", 4, [4]), ("text", limit + 5, [limit, 5]), ("bytes", 2, [2])],
        [("text", 12, [5, 4])],  # splits inside multi-byte code points
    ]
    for carrier in ("h1", "h2"):
        for si, seq in enumerate(seqs):
            for deflate in (False, True):
                for pings in (False, True):
                    if tier == "quick" and rng.random() < 0.35:
                        continue
                    ws_steps: List[Dict[str, Any]] = []
                    for k, (kind, ln, frags) in enumerate(seq):
                        st = {"s": "ws", "op": kind, "pid": 10 + k, "len": ln, "frags": frags, "compress": deflate}
                        if pings and not deflate:
                            st["ping_between"] = True
                        ws_steps.append(st)
                        if pings:
                            ws_steps.append({"s": "ws", "op": "ping", "payload": "p%d" % k})
                    ws_steps.append({"s": "dt", "d": 0.05})
                    sends = [{"type": "websocket.send", "pat": [30 + k, 0, 3 + k], "text": k % 2 == 0} for k in range(len(seq))]
                    prog = echo_app(len(seq), sends)
                    seg_variants: List[Any] = [None]
                    if tier == "thorough" or rng.random() < 0.3:
                        seg_variants.append("bytewise")
                    seg_variants.append([3])
                    for seg in seg_variants:
                        steps2 = [dict(s, cuts=seg) if (s["s"] == "ws" and seg) else s for s in ws_steps]
                        yield ws_session(carrier, 1, steps2, prog, "ws/c10/%s/%d/%s/%s/%s" % (carrier, si, deflate, pings, seg),
                                         cfg=cfg, deflate=deflate)
    # what the application sends: empty, one unit and long payloads of both kinds, in several orders,
    # with further messages behind them (an empty payload is a message like any other)
    send_seqs = [
        [(False, 0)], [(True, 0)],
        [(False, 0), (True, 0), (False, 1), (True, 1)],
        [(True, 0), (False, 0), (False, 5), (True, 3)],
        [(False, 2), (False, 0), (True, 2), (True, 0), (False, 3)],
        [(False, 70000), (False, 0), (True, 2)],
    ]
    for carrier in ("h1", "h2"):
        for qi, sq in enumerate(send_seqs):
            for deflate in (False, True):
                sends, off = [], {}
                for text, ln in sq:
                    pid = 50 if text else 51
                    sends.append({"type": "websocket.send", "pat": [pid, off.get(pid, 0), ln], "text": text})
                    off[pid] = off.get(pid, 0) + ln
                ws_steps = [{"s": "ws", "op": "text", "pid": 9, "len": 2, "frags": [2]}, {"s": "dt", "d": 0.05}]
                yield ws_session(carrier, 1, ws_steps, echo_app(1, sends), "ws/c10/%s/app-sends/%d/%s" % (carrier, qi, deflate),
                                 cfg={"websocket_max_message_size": 70000}, deflate=deflate)
    # an echo session served after other WebSocket connections of the same worker process, with and without
    # permessage-deflate on either (what one connection negotiated is no business of the next)
    def echo(deflate: bool, pid: int) -> Dict[str, Any]:
        ws_steps = [{"s": "ws", "op": "text", "pid": pid, "len": 8, "frags": [8], "compress": deflate},
                    {"s": "ws", "op": "bytes", "pid": pid + 1, "len": 5, "frags": [5], "compress": deflate}, {"s": "dt", "d": 0.05}]
        sends = [{"type": "websocket.send", "pat": [52, 0, 9], "text": True}, {"type": "websocket.send", "pat": [53, 0, 6]}]
        return ws_session("h1", 1, ws_steps, echo_app(2, sends), "ws/c10/h1/after-other-connections/%s" % deflate,
                          cfg={"websocket_max_message_size": 70000}, deflate=deflate)
    for first in (True, False):
        for second in (True, False):
            sc = echo(second, 12)
            sc["fam"] = "ws/c10/h1/after-other-connections/%s-then-%s" % (first, second)
            sc["earlier_connections"] = [echo(first, 12)]
            yield sc
    # large messages around a realistic limit, server->client large sends
    cfg2 = {"websocket_max_message_size": 70000}
    for carrier in ("h1", "h2"):
        for ln in (69999, 70000, 70001):
            ws_steps = [{"s": "ws", "op": "bytes", "pid": 7, "len": ln, "frags": [30000, 30000]},
                        {"s": "ws", "op": "text", "pid": 8, "len": 3, "frags": [3]}, {"s": "dt", "d": 0.05}]
            sends = [{"type": "websocket.send", "pat": [40, 0, 100000]}, {"type": "websocket.send", "pat": [41, 0, 5], "text": True}]
            yield ws_session(carrier, 1, ws_steps, echo_app(2, sends), "ws/c10/%s/big/%d" % (carrier, ln), cfg=cfg2)


DECISIONS = ["accept", "accept-sub", "accept-bad-sub", "accept-headers", "close", "denial", "denial-chunks", "denial-204", "denial-304-chunks",
             "denial-no-bytes", "return", "raise"]


def decision_prog(decision: str) -> List[Any]:
    prog: List[Any] = [["recv"]]
    if decision == "accept":
        prog += [["send", {"type": "websocket.accept"}]]
    elif decision == "accept-sub":
        prog += [["send", {"type": "websocket.accept", "subprotocol": "chat"}]]
    elif decision == "accept-bad-sub":
        prog += [["send", {"type": "websocket.accept", "subprotocol": "nope", "cls": "bad-subprotocol"}]]
    elif decision == "accept-headers":
        prog += [["send", {"type": "websocket.accept", "headers": [["x-extra", "1"], ["x-more", "two"]]}]]
    elif decision == "close":
        prog += [["send", {"type": "websocket.close"}]]
    elif decision == "denial":
        prog += [["send", {"type": "websocket.http.response.start", "status": 401, "headers": [["x-why", "no"]]}],
                 ["send", {"type": "websocket.http.response.body", "pat": [60, 0, 7], "more": False}]]
    elif decision == "denial-chunks":
        prog += [["send", {"type": "websocket.http.response.start", "status": 404, "headers": [["content-length", "9"]]}],
                 ["send", {"type": "websocket.http.response.body", "pat": [61, 0, 4], "more": True}],
                 ["send", {"type": "websocket.http.response.body", "pat": [61, 4, 5], "more": False}]]
    elif decision == "denial-204":
        # (a status whose body is suppressed: the response is complete with its head)
        prog += [["send", {"type": "websocket.http.response.start", "status": 204, "headers": [["x-why", "nothing"]]}],
                 ["send", {"type": "websocket.http.response.body", "pat": [62, 0, 0], "more": False}]]
    elif decision == "denial-304-chunks":
        prog += [["send", {"type": "websocket.http.response.start", "status": 304, "headers": []}],
                 ["send", {"type": "websocket.http.response.body", "pat": [63, 0, 3], "more": True}],
                 ["send", {"type": "websocket.http.response.body", "pat": [63, 3, 0], "more": False}]]
    elif decision == "denial-no-bytes":
        prog += [["send", {"type": "websocket.http.response.start", "status": 403, "headers": []}],
                 ["send", {"type": "websocket.http.response.body", "pat": [64, 0, 0], "more": True}],
                 ["send", {"type": "websocket.http.response.body", "pat": [64, 0, 0], "more": False}]]
    elif decision == "return":
        return prog + [["return"]]
    elif decision == "raise":
        return prog + [["raise"]]
    return prog


def gen_c11(tier: str, rng: random.Random) -> Iterator[Dict[str, Any]]:
    # handshake header combinations (HTTP/1)
    variants = []
    for key in ("dGhlIHNhbXBsZSBub25jZQ==", None):
        for wsver in ("13", "12", None, "13, 8"):
            for version in ("1.1", "1.0"):
                for upgrade in ("websocket", "WebSocket", "WEBSOCKET"):
                    for connection in ("Upgrade", "keep-alive, Upgrade", "upgrade", "UPGRADE , x", "keep-alive ,\tupgrade"):
                        variants.append(dict(key=key, wsver=wsver, version=version, upgrade=upgrade, connection=connection))
    if tier == "quick":
        keep = [v for v in variants if v["upgrade"] == "websocket" and v["connection"] == "Upgrade"]
        variants = keep + rng.sample(variants, 25)
    n = 0
    for hs in variants:
        n += 1
        for decision in (DECISIONS if (hs["key"] and hs["wsver"] == "13" and hs["version"] == "1.1" and n % 4 == 1) else ["accept"]):
            prog = decision_prog(decision) + [["recv_disc"]]
            sc = ws_session("h1", 1, [{"s": "dt", "d": 0.05}], prog, "ws/c11/h1/%s/%s/%s/%s/%s/%s" % (
                hs["key"] is not None, hs["wsver"], hs["version"], hs["upgrade"], hs["connection"], decision),
                subprotos=["chat", "superchat"], hs_kw=hs)
            yield sc
    # outside the domain: served as plain HTTP (POST with upgrade headers, no Connection: upgrade)
    for kw in (dict(method="POST"), dict(connection="keep-alive"), dict(upgrade="h2c-not"), dict(connection=None)):
        rq = build.ws_h1_request(1, **kw)
        sc = base_script([rq], {"*": build.simple_resp_program(chunks=[2])}, fam="ws/c11/h1/outside-domain/%s" % sorted(kw)[0])
        sc["steps"] = [{"s": "send"}, {"s": "dt", "d": 0.05}]
        yield sc
    # HTTP/2 extended CONNECT
    for wsver in ("13", "8", None):
        for decision in (DECISIONS if wsver == "13" else ["accept"]):
            prog = decision_prog(decision) + [["recv_disc"]]
            yield ws_session("h2", 1, [{"s": "dt", "d": 0.05}], prog, "ws/c11/h2/%s/%s" % (wsver, decision),
                             subprotos=["chat"], hs_kw=dict(wsver=wsver))
    # what the client offered x what the application picks: no offer at all, one, several
    for carrier in ("h1", "h2"):
        for oi, offer in enumerate((None, ["chat"], ["superchat", "chat"], ["Chat"])):
            for decision in ("accept", "accept-sub", "accept-bad-sub"):
                prog = decision_prog(decision) + [["recv_disc"]]
                yield ws_session(carrier, 1, [{"s": "dt", "d": 0.05}], prog,
                                 "ws/c11/%s/offer-%d/%s" % (carrier, oi, decision), subprotos=offer)
    # crossing closes: a message and the client's close frame arrive in one read, and the application answers the
    # message by closing - its close crosses the echo of the client's (a client-initiated close all the same)
    for carrier in ("h1", "h2"):
        for appcode in (1000, 4001):
            prog = [["recv"], ["send", {"type": "websocket.accept"}], ["recv"],
                    ["send", {"type": "websocket.close", "code": appcode}], ["recv_disc"]]
            ws_steps = [{"s": "ws", "op": "text_close", "pid": 8, "len": 3, "code": 4000}, {"s": "dt", "d": 0.05}]
            yield ws_session(carrier, 1, ws_steps, prog, "ws/c11/%s/close/crossing/%d" % (carrier, appcode))
    # ... and with the client not reading (every write of the server suspends): the client's close frame is
    # processed, its echo is held up in the write, the application closes meanwhile; then the client reads again
    for appcode in (1000, 4001):
        prog = [["recv"], ["send", {"type": "websocket.accept"}], ["gate"],
                ["send", {"type": "websocket.close", "code": appcode}], ["recv_disc"]]
        ws_steps = [{"s": "dt", "d": 0.01}, {"s": "pause"}, {"s": "ws", "op": "close", "code": 4000}, {"s": "dt", "d": 0.01},
                    {"s": "go", "app": "1", "n": 1}, {"s": "dt", "d": 0.01}, {"s": "resume"}, {"s": "dt", "d": 0.05}]
        sc = ws_session("h1", 1, ws_steps, prog, "ws/c11/h1/close/crossing-while-client-not-reading/%d" % appcode)
        sc["transport_high"] = 1
        yield sc
    # closing orders and disconnect codes
    for carrier in ("h1", "h2"):
        for order in ("client-1000", "client-1001-reason", "client-nocode", "app-first", "app-code-4000", "simultaneous",
                      "eof", "reset", "client-close-then-eof", "app-4001-client-echoes", "app-1008-client-echoes",
                      "app-default-client-replies-empty", "app-default-client-replies-1001"):
            prog: List[Any] = [["recv"], ["send", {"type": "websocket.accept"}]]
            ws_steps: List[Dict[str, Any]] = []
            if order.startswith("client-"):
                code = {"client-1000": 1000, "client-1001-reason": 1001, "client-nocode": None, "client-close-then-eof": 3000}[order]
                ws_steps.append({"s": "ws", "op": "close", "code": code, "reason": "bye" if order.endswith("reason") else ""})
                if order == "client-close-then-eof":
                    ws_steps.append({"s": "eof"})
                prog += [["recv_disc"]]
            elif order == "app-first":
                prog += [["send", {"type": "websocket.close"}], ["recv_disc"]]
                ws_steps.append({"s": "dt", "d": 0.01})
                ws_steps.append({"s": "ws", "op": "close", "code": 1000})
            elif order.startswith("app-") and "client-" in order:
                code = {"app-4001": 4001, "app-1008": 1008}.get(order[:8])
                msg = {"type": "websocket.close"}
                if code:
                    msg["code"] = code
                prog += [["send", msg], ["recv_disc"]]
                ws_steps.append({"s": "dt", "d": 0.01})
                reply = code if order.endswith("echoes") else (None if order.endswith("empty") else 1001)
                ws_steps.append({"s": "ws", "op": "close", "code": reply})
            elif order == "app-code-4000":
                prog += [["send", {"type": "websocket.close", "code": 4000, "reason": "app"}], ["recv_disc"]]
            elif order == "simultaneous":
                prog += [["gate"], ["send", {"type": "websocket.close"}], ["recv_disc"]]
                ws_steps.append({"s": "ws", "op": "close", "code": 1001})
                ws_steps.append({"s": "go", "app": "1", "n": 1})
            elif order == "eof":
                prog += [["recv_disc"]]
                ws_steps.append({"s": "eof"})
            elif order == "reset":
                prog += [["recv_disc"]]
                ws_steps.append({"s": "reset"})
            ws_steps.append({"s": "dt", "d": 0.05})
            yield ws_session(carrier, 1, ws_steps, prog, "ws/c11/%s/close/%s" % (carrier, order))
