"""C19 - configuration sources agree; binds parse to the intended sockets.

Case enumeration and execution on the real code (hypercorn.config.Config, its loaders,
_create_sockets/create_sockets, response_headers, hypercorn.__main__.main).  The oracle is
spec/Config.tla + spec/props/C19.tla, evaluated by TLC over the traces returned here:

    cases(tier, rng) -> [abstract JSON-able case, ...]
    run_case(case)   -> [{"e":"case","kind":K,"inp":{...}}, {"e":"result","kind":K,"out":{...}}, ...]

    /venv/bin/python -c "import sys,random; sys.path.insert(0,'/verif'); \
        from harness import tlc; from harness.adapters import c19; \
        tr=[c19.run_case(c) for c in c19.cases('quick', random.Random(0))]; \
        print(tlc.validate_traces('C19', tr))"

or run  /venv/bin/python -m harness.adapters.c19 [quick|thorough] [seed]  from /verif for a summary.

The settings table (KeyTable) and the option -> setting table (FlagTable) are READ FROM
spec/Config.tla (transcribed there from docs/how_to_guides/configuring.rst and --help), so the
oracle's tables exist once.  Nothing in this file knows what hypercorn/__main__.py assigns.

Kinds of case
  load      one loader (attr, mapping, kwargs, object, module, modattr, pyfile, toml) is given an
            assignment list; result = canonical repr of EVERY setting in KeyTable order
  agree     the same assignment through every loader that can express it (including the command
            line); one result per loader
  cli       main([...]) with run() replaced by a capturing stub: optional configuration file
            (toml / pyfile / module via -c), options alone or in pairs; first result = the same
            start without any option, (pairs: then each option alone,) last = with the options
  rootpath  root_path with 0..2 trailing slashes through every loader
  bind      bind strings of every shape through bind / insecure_bind / quic_bind -> the sockets
            create_sockets() returns (family, type, address)
  headers   include_date_header x include_server_header x alt_svc_headers x protocol with
            hypercorn.config.time patched to a constant; result = header list + date_wellformed
            (independent IMF-fixdate regex + round trip)

Canonical repr (canon): None -> None, bool, int, float (integral floats print as the integer:
the property does not speak about int vs float), str -> '...', list/dict recursively, enum
members by name, classes by qualified name, any other object -> <object:TypeName> (stable, no
address), missing attribute -> <unset>.
"""
from __future__ import annotations

import ast
import calendar
import contextlib
import errno
import importlib
import io
import json
import os
import random
import re
import shutil
import socket
import ssl
import sys
import tempfile
import warnings
from typing import Any, Dict, List, Optional, Tuple

import hypercorn.__main__ as hmain
import hypercorn.config as hconfig

VERIF = os.path.dirname(os.path.dirname(os.path.dirname(os.path.abspath(__file__))))
CONFIG_TLA = os.path.join(VERIF, "spec", "Config.tla")

UNSET = "<unset>"
APP = "c19app:app"
APP_FLAG = "<application>"


# --------------------------------------------------------------------------------------------
# tables from spec/Config.tla
# --------------------------------------------------------------------------------------------
def _table(name: str, width: int) -> List[Tuple[str, ...]]:
    text = open(CONFIG_TLA).read()
    m = re.search(r"^%s == <<\n(.*?)\n>>" % re.escape(name), text, re.S | re.M)
    if m is None:
        raise RuntimeError("cannot find %s in %s" % (name, CONFIG_TLA))
    rows = []
    for line in m.group(1).splitlines():
        cells = re.findall(r'"([^"]*)"', line)
        if len(cells) != width:
            raise RuntimeError("unexpected row in %s: %r" % (name, line))
        rows.append(tuple(cells))
    return rows


KEY_ROWS = _table("KeyTable", 2)
FLAG_ROWS = _table("FlagTable", 3)
KEYS: List[str] = [r[0] for r in KEY_ROWS]
KEY_CLASS: Dict[str, str] = dict(KEY_ROWS)  # type: ignore[arg-type]
FLAGS: List[str] = [r[0] for r in FLAG_ROWS if r[0] != APP_FLAG]
FLAG_KEY: Dict[str, str] = {r[0]: r[1] for r in FLAG_ROWS}
FLAG_CLS: Dict[str, str] = {r[0]: r[2] for r in FLAG_ROWS}

ACCEPTS = {  # Accepts(kc) of Config.tla
    "str": {"str"}, "optstr": {"str", "none"}, "int": {"int"}, "optint": {"int", "none"},
    "num": {"int", "float"}, "optnum": {"int", "float", "none"}, "bool": {"bool"},
    "strlist": {"list"}, "bind": {"str", "list"}, "path": {"str"}, "dict": {"dict"},
    "class": {"class"}, "vmode": {"vmode", "none"}, "vflags": {"vflags", "none"},
}
TOML_CLASSES = {"str", "int", "float", "bool", "list", "dict"}
FILE_LOADERS = ["toml", "pyfile", "module"]
PLAIN_LOADERS = ["attr", "mapping", "kwargs", "object", "module", "modattr", "pyfile", "toml"]


# --------------------------------------------------------------------------------------------
# values
# --------------------------------------------------------------------------------------------
def canon(obj: Any) -> str:
    if obj is None:
        return "None"
    if isinstance(obj, bool):
        return "True" if obj else "False"
    if isinstance(obj, (ssl.VerifyMode, ssl.VerifyFlags)):
        return "%s.%s" % (type(obj).__name__, obj.name)
    if isinstance(obj, int):
        return str(int(obj))
    if isinstance(obj, float):
        if obj == obj and abs(obj) != float("inf") and obj == int(obj):
            return str(int(obj))
        return repr(obj)
    if isinstance(obj, str):
        return _ascii(repr(obj))
    if isinstance(obj, bytes):
        return _ascii(repr(obj))
    if isinstance(obj, (list, tuple)):
        body = ", ".join(canon(x) for x in obj)
        return "[" + body + "]" if isinstance(obj, list) else "(" + body + ")"
    if isinstance(obj, dict):
        items = sorted((canon(k), canon(v)) for k, v in obj.items())
        return "{" + ", ".join("%s: %s" % kv for kv in items) + "}"
    if isinstance(obj, type):
        return "<class %s.%s>" % (obj.__module__, obj.__qualname__)
    return "<object:%s>" % type(obj).__name__


def _ascii(text: str) -> str:
    return text.encode("ascii", "backslashreplace").decode("ascii")


def mk_val(obj: Any) -> Dict[str, str]:
    """Python value -> abstract value record [cls, repr, stem, trail] (see Config.tla)."""
    r = canon(obj)
    if obj is None:
        cls = "none"
    elif isinstance(obj, bool):
        cls = "bool"
    elif isinstance(obj, ssl.VerifyMode):
        return {"cls": "vmode", "repr": r, "stem": obj.name, "trail": ""}
    elif isinstance(obj, ssl.VerifyFlags):
        return {"cls": "vflags", "repr": r, "stem": obj.name, "trail": ""}
    elif isinstance(obj, int):
        cls = "int"
    elif isinstance(obj, float):
        cls = "float"
    elif isinstance(obj, str):
        stem = obj.rstrip("/")
        trail = obj[len(stem):]
        if r != "'" + stem + trail + "'":
            raise ValueError("string %r is not plain enough for the oracle" % obj)
        return {"cls": "str", "repr": r, "stem": stem, "trail": trail}
    elif isinstance(obj, list):
        cls = "list"
    elif isinstance(obj, dict):
        cls = "dict"
    elif isinstance(obj, type):
        return {"cls": "class", "repr": r, "stem": "%s.%s" % (obj.__module__, obj.__qualname__), "trail": ""}
    else:
        raise ValueError("no abstract value for %r" % (obj,))
    return {"cls": cls, "repr": r, "stem": r, "trail": ""}


def materialise(val: Dict[str, str]) -> Any:
    cls = val["cls"]
    if cls == "none":
        return None
    if cls == "bool":
        return val["repr"] == "True"
    if cls == "int":
        return int(val["repr"])
    if cls == "float":
        return float(val["repr"])
    if cls == "str":
        return val["stem"] + val["trail"]
    if cls in ("list", "dict"):
        return ast.literal_eval(val["repr"])
    if cls == "vmode":
        return ssl.VerifyMode[val["stem"]]
    if cls == "vflags":
        return ssl.VerifyFlags[val["stem"]]
    if cls == "class":
        mod, _, name = val["stem"].rpartition(".")
        return getattr(importlib.import_module(mod), name)
    raise ValueError(cls)


def py_expr(obj: Any) -> Tuple[str, List[str]]:
    """Python source text for obj and the imports it needs."""
    if isinstance(obj, (ssl.VerifyMode, ssl.VerifyFlags)):
        return "ssl.%s.%s" % (type(obj).__name__, obj.name), ["ssl"]
    if isinstance(obj, type):
        return "%s.%s" % (obj.__module__, obj.__qualname__), [obj.__module__]
    return repr(obj), []


def toml_lit(obj: Any) -> str:
    if isinstance(obj, bool):
        return "true" if obj else "false"
    if isinstance(obj, (int, float)):
        return repr(obj)
    if isinstance(obj, str):
        return json.dumps(obj)
    if isinstance(obj, list):
        return "[" + ", ".join(toml_lit(x) for x in obj) + "]"
    if isinstance(obj, dict):
        return "{" + ", ".join("%s = %s" % (k, toml_lit(v)) for k, v in obj.items()) + "}"
    raise ValueError("not expressible in TOML: %r" % (obj,))


def pool(key: str, salt: int = 0, rng: Optional[random.Random] = None) -> List[Any]:
    """Values of the setting's type (two or three, distinct).  salt makes the values of
    different settings/options pairwise distinct; rng (quick tier) makes them arbitrary."""
    kc = KEY_CLASS[key]
    n = (rng.randrange(1, 20000) * 50 if rng else 0) + 100 + 2 * salt
    w = ("r%x" % rng.randrange(16 ** 4)) if rng else "v"
    if kc in ("str", "optstr"):
        vals: List[Any] = ["%s%da" % (w, salt), "%s%d-b.c" % (w, salt)]
        if kc == "optstr":
            vals.append(None)
        return vals
    if kc in ("int", "optint"):
        return [n, n + 1] + ([None] if kc == "optint" else [])
    if kc in ("num", "optnum"):
        return [n, n + 0.5] + ([None] if kc == "optnum" else [])
    if kc == "bool":
        return [True, False]
    if kc == "strlist":
        return [["%s%da" % (w, salt)], ["%s%da" % (w, salt), "%s%db" % (w, salt)]]
    if kc == "bind":
        a, b = "127.0.0.1:%d" % (5000 + salt), "[::1]:%d" % (6000 + salt)
        return [a, [a], [a, b]]
    if kc == "path":
        return ["/%s%d" % (w, salt), "/%s%d/sub" % (w, salt)]
    if kc == "dict":
        return [{"version": 1}, {"version": 1, "disable_existing_loggers": False}]
    if kc == "class":
        import logging

        return [logging.Handler, logging.Filter]
    if kc == "vmode":
        return [ssl.VerifyMode.CERT_OPTIONAL, ssl.VerifyMode.CERT_REQUIRED, None]
    if kc == "vflags":
        return [ssl.VerifyFlags.VERIFY_X509_STRICT, ssl.VerifyFlags.VERIFY_CRL_CHECK_LEAF, None]
    raise ValueError(kc)


def flag_pool(flag: str, salt: int, rng: Optional[random.Random] = None) -> List[Any]:
    """Values an option can be given on the command line (what the option takes)."""
    fc = FLAG_CLS[flag]
    n = (rng.randrange(1, 20000) * 50 if rng else 0) + 100 + 2 * salt
    w = ("r%x" % rng.randrange(16 ** 4)) if rng else "v"
    if fc == "str":
        if FLAG_KEY[flag] == "root_path":
            return ["/%s%d" % (w, salt), "/%s%d/sub" % (w, salt)]
        return ["%s%da" % (w, salt), "%s%d-b.c" % (w, salt)]
    if fc == "int":
        return [n, n + 1]
    if fc == "switch":
        return [True]
    if fc == "append":
        if KEY_CLASS[FLAG_KEY[flag]] == "bind":
            return ["127.0.0.1:%d" % (5000 + salt), "[::1]:%d" % (6000 + salt)]
        return ["%s%da" % (w, salt), "%s%db" % (w, salt)]
    if fc in ("vmode", "certreqs"):
        return [ssl.VerifyMode.CERT_OPTIONAL, ssl.VerifyMode.CERT_REQUIRED]
    raise ValueError(fc)


def expressible(loader: str, key: str, obj: Any) -> bool:
    cls = mk_val(obj)["cls"]
    if loader in ("toml", "cli+toml"):
        return cls in TOML_CLASSES
    if loader == "cli":
        return cli_way(key, obj) is not None
    return True


def cli_way(key: str, obj: Any) -> Optional[List[Tuple[str, Any]]]:
    """The options (first documented spelling) that supply obj for key, or None."""
    flags = [f for f in FLAGS if FLAG_KEY[f] == key]
    if not flags:
        return None
    long = [f for f in flags if f.startswith("--")]
    flag = (long or flags)[0]
    fc = FLAG_CLS[flag]
    if fc == "str" and isinstance(obj, str):
        return [(flag, obj)]
    if fc == "int" and isinstance(obj, int) and not isinstance(obj, bool):
        return [(flag, obj)]
    if fc == "switch" and obj is True:
        return [(flag, True)]
    if fc == "append":
        if isinstance(obj, str) and KEY_CLASS[key] == "bind":
            return [(flag, obj)]
        if isinstance(obj, list) and len(obj) == 1 and isinstance(obj[0], str):
            return [(flag, obj[0])]
        return None
    if fc in ("vmode", "certreqs") and isinstance(obj, ssl.VerifyMode):
        return [(flag, obj)]
    return None


def argv_of(flags: List[Tuple[str, Any]]) -> List[str]:
    argv: List[str] = []
    for flag, obj in flags:
        fc = FLAG_CLS[flag]
        if fc == "switch":
            argv.append(flag)
        elif fc == "vmode":
            argv += [flag, obj.name]
        elif fc == "certreqs":
            argv += [flag, str(int(obj))]
        else:
            argv += [flag, str(obj)]
    return argv


# --------------------------------------------------------------------------------------------
# execution helpers
# --------------------------------------------------------------------------------------------
def observe(config: Any) -> List[str]:
    out = []
    for key in KEYS:
        try:
            out.append(canon(getattr(config, key)))
        except AttributeError:
            out.append(UNSET)
    return out


def defaults() -> List[str]:
    return observe(hconfig.Config())


_COUNTER = [0]


class _Env:
    """Private temp dir on sys.path, removed afterwards; imported case modules forgotten."""

    def __enter__(self) -> "_Env":
        self.tmp = tempfile.mkdtemp(prefix="c19-")
        sys.path.insert(0, self.tmp)
        self.modules: List[str] = []
        return self

    def __exit__(self, *exc: Any) -> None:
        with contextlib.suppress(ValueError):
            sys.path.remove(self.tmp)
        for name in self.modules:
            sys.modules.pop(name, None)
        importlib.invalidate_caches()
        shutil.rmtree(self.tmp, ignore_errors=True)

    def name(self) -> str:
        _COUNTER[0] += 1
        return "c19cfg_%d_%d" % (os.getpid(), _COUNTER[0])

    def write_py(self, assign: List[Tuple[str, Any]], holder: bool = False) -> Tuple[str, str]:
        name = self.name()
        imports: List[str] = []
        lines = []
        for key, obj in assign:
            expr, imp = py_expr(obj)
            imports += imp
            lines.append("%s%s = %s" % ("settings." if holder else "", key, expr))
        head = ["import %s" % m for m in sorted(set(imports))]
        if holder:
            head += ["class _Settings:", "    pass", "settings = _Settings()"]
        path = os.path.join(self.tmp, name + ".py")
        with open(path, "w") as f:
            f.write("\n".join(head + lines) + "\n")
        self.modules.append(name)
        importlib.invalidate_caches()
        return name, path

    def write_toml(self, assign: List[Tuple[str, Any]]) -> str:
        path = os.path.join(self.tmp, self.name() + ".toml")
        with open(path, "w") as f:
            for key, obj in assign:
                f.write("%s = %s\n" % (key, toml_lit(obj)))
        return path


def load_via(loader: str, assign: List[Tuple[str, Any]], env: _Env) -> Any:
    Config = hconfig.Config
    if loader == "attr":
        config = Config()
        for key, obj in assign:
            setattr(config, key, obj)
        return config
    if loader == "mapping":
        return Config.from_mapping(dict(assign))
    if loader == "kwargs":
        return Config.from_mapping(**dict(assign))
    if loader == "object":
        holder = type("Settings", (), {})()
        for key, obj in assign:
            setattr(holder, key, obj)
        return Config.from_object(holder)
    if loader == "module":
        name, _ = env.write_py(assign)
        return Config.from_object(name)
    if loader == "modattr":
        name, _ = env.write_py(assign, holder=True)
        return Config.from_object(name + ".settings")
    if loader == "pyfile":
        _, path = env.write_py(assign)
        return Config.from_pyfile(path)
    if loader == "toml":
        return Config.from_toml(env.write_toml(assign))
    raise ValueError(loader)


def run_main(argv: List[str]) -> Tuple[str, Any]:
    """main(argv) with run() replaced by a capturing stub (as tests/test___main__.py does)."""
    captured: List[Any] = []

    def stub(config: Any) -> int:
        captured.append(config)
        return 0

    original = hmain.run
    hmain.run = stub
    try:
        with warnings.catch_warnings(), contextlib.redirect_stderr(io.StringIO()):
            warnings.simplefilter("ignore")
            try:
                hmain.main(list(argv))
            except SystemExit as error:
                return "error:SystemExit", None
            except Exception as error:  # noqa: BLE001
                return "error:" + type(error).__name__, None
    finally:
        hmain.run = original
    if len(captured) != 1:
        return "error:run-not-called-once", None
    return "ok", captured[0]


def config_argv(file_loader: str, assign: List[Tuple[str, Any]], env: _Env) -> List[str]:
    if file_loader == "none":
        return []
    if file_loader == "toml":
        return ["--config", env.write_toml(assign)]
    if file_loader == "pyfile":
        return ["--config", "file:" + env.write_py(assign)[1]]
    if file_loader == "module":
        return ["--config", "python:" + env.write_py(assign)[0]]
    raise ValueError(file_loader)


def _guard(fn: Any) -> Tuple[str, Any]:
    with warnings.catch_warnings():
        warnings.simplefilter("ignore")
        try:
            return "ok", fn()
        except Exception as error:  # noqa: BLE001
            return "error:" + type(error).__name__, None


def _objs(assign: List[Dict[str, Any]]) -> List[Tuple[str, Any]]:
    return [(a["key"], materialise(a["val"])) for a in assign]


def _ev(e: str, kind: str, field: str, payload: Dict[str, Any]) -> Dict[str, Any]:
    return {"e": e, "kind": kind, field: payload}


# --------------------------------------------------------------------------------------------
# run_case
# --------------------------------------------------------------------------------------------
def run_case(case: Dict[str, Any]) -> List[Dict[str, Any]]:
    return {
        "load": _run_load, "agree": _run_agree, "cli": _run_cli, "rootpath": _run_rootpath,
        "bind": _run_bind, "headers": _run_headers,
    }[case["kind"]](case)


def _values_result(kind: str, tag: Dict[str, Any], outcome: str, config: Any) -> Dict[str, Any]:
    out = dict(tag)
    out["outcome"] = outcome
    out["values"] = observe(config) if outcome == "ok" else []
    return _ev("result", kind, "out", out)


def _run_load(case: Dict[str, Any]) -> List[Dict[str, Any]]:
    inp = {"loader": case["loader"], "assign": case["assign"], "defaults": defaults()}
    with _Env() as env:
        outcome, config = _guard(lambda: load_via(case["loader"], _objs(case["assign"]), env))
        return [_ev("case", "load", "inp", inp),
                _values_result("load", {"loader": case["loader"]}, outcome, config)]


def _run_one_loader(loader: str, assign: List[Tuple[str, Any]], env: _Env) -> Tuple[str, Any]:
    """Any loader including the command line; the application is one of the assignments."""
    if loader != "cli":
        return _guard(lambda: load_via(loader, assign, env))
    flags: List[Tuple[str, Any]] = []
    app = APP
    for key, obj in assign:
        if key == "application_path":
            app = obj
            continue
        way = cli_way(key, obj)
        if way is None:
            raise ValueError("the command line cannot express %s=%r" % (key, obj))
        flags += way
    return run_main(argv_of(flags) + [app])


def _run_agree(case: Dict[str, Any]) -> List[Dict[str, Any]]:
    inp = {"loaders": case["loaders"], "assign": case["assign"], "defaults": defaults()}
    trace = [_ev("case", "agree", "inp", inp)]
    with _Env() as env:
        for loader in case["loaders"]:
            outcome, config = _run_one_loader(loader, _objs(case["assign"]), env)
            trace.append(_values_result("agree", {"loader": loader}, outcome, config))
    return trace


def _run_cli(case: Dict[str, Any]) -> List[Dict[str, Any]]:
    inp = {"file": case["file"], "app": case["app"], "flags": case["flags"], "defaults": defaults()}
    trace = [_ev("case", "cli", "inp", inp)]
    app = materialise(case["app"])
    flags = [(f["flag"], materialise(f["val"])) for f in case["flags"]]
    with _Env() as env:
        cfg = config_argv(case["file"]["loader"], _objs(case["file"]["assign"]), env)
        runs: List[List[Tuple[str, Any]]] = [[]]
        if len(flags) > 1:
            runs += [[f] for f in flags]  # each option alone, so that a deviation is attributed
        if flags:
            runs.append(flags)
        for given in runs:
            if case.get("app_first"):
                argv = cfg + [app] + argv_of(given)
            else:
                argv = cfg + argv_of(given) + [app]
            outcome, config = run_main(argv)
            trace.append(_values_result("cli", {"flags": [f for f, _ in given]}, outcome, config))
    return trace


def _run_rootpath(case: Dict[str, Any]) -> List[Dict[str, Any]]:
    inp = {"loader": case["loader"], "val": case["val"]}
    obj = materialise(case["val"])
    with _Env() as env:
        outcome, config = _run_one_loader(case["loader"], [("root_path", obj)], env)
    out = {"outcome": outcome, "value": canon(config.root_path) if outcome == "ok" else ""}
    return [_ev("case", "rootpath", "inp", inp), _ev("result", "rootpath", "out", out)]


# ---- binds ---------------------------------------------------------------------------------
FAMILY = {socket.AF_INET: "inet", socket.AF_INET6: "inet6", socket.AF_UNIX: "unix"}
TYPE = {socket.SOCK_STREAM: "stream", socket.SOCK_DGRAM: "dgram"}
AF = {v: k for k, v in FAMILY.items()}


def _describe(sock: socket.socket) -> Dict[str, Any]:
    fam = FAMILY.get(sock.family, "other:%d" % int(sock.family))
    typ = TYPE.get(sock.getsockopt(socket.SOL_SOCKET, socket.SO_TYPE), "other")
    name = sock.getsockname()
    if fam == "unix":
        path = name.decode("ascii", "backslashreplace") if isinstance(name, bytes) else str(name)
        return {"family": fam, "type": typ, "host": "", "port": 0, "path": path}
    if isinstance(name, tuple) and len(name) >= 2:
        return {"family": fam, "type": typ, "host": str(name[0]), "port": int(name[1]), "path": ""}
    return {"family": fam, "type": typ, "host": _ascii(repr(name)), "port": 0, "path": ""}


def _free_port(family: int, type_: int, addr: str) -> int:
    with socket.socket(family, type_) as probe:
        probe.bind((addr, 0))
        return int(probe.getsockname()[1])


def _run_bind(case: Dict[str, Any]) -> List[Dict[str, Any]]:
    """A port picked as free (or the default port of a bare host) can be taken by another
    process in between: an 'address in use' says nothing about hypercorn, try again."""
    trace: List[Dict[str, Any]] = []
    for _ in range(4):
        busy: List[bool] = []
        trace = _bind_attempt(case, busy)
        if not busy:
            break
    return trace


def _bind_attempt(case: Dict[str, Any], busy: List[bool]) -> List[Dict[str, Any]]:
    via = case["via"]
    type_ = socket.SOCK_DGRAM if via == "quic_bind" else socket.SOCK_STREAM
    tmp = tempfile.mkdtemp(prefix="c19-")
    mine: List[socket.socket] = []
    made: List[socket.socket] = []
    binds = []
    try:
        for i, b in enumerate(case["binds"]):
            shape, addr = b["shape"], b["addr"]
            rec = {"shape": shape, "addr": addr, "port": 0, "path": "", "fam": "none", "text": ""}
            if shape in ("hostport", "v6port"):
                fam = socket.AF_INET6 if shape == "v6port" else socket.AF_INET
                if b["portsel"] == "free":
                    rec["port"] = _free_port(fam, type_, addr)
                host = b["host"]
                rec["text"] = ("[%s]:%d" if shape == "v6port" else "%s:%d") % (host, rec["port"])
            elif shape == "host":
                rec["text"] = b["host"]
            elif shape == "unix":
                # (a relative path - b["host"] - is bound with the scratch directory as working directory)
                rec["path"] = b["host"] or os.path.join(tmp, "s%d.sock" % i)
                if b["host"] and os.path.dirname(b["host"]):
                    os.makedirs(os.path.join(tmp, os.path.dirname(b["host"])), exist_ok=True)
                rec["text"] = "unix:" + rec["path"]
            elif shape == "fd":
                sock = socket.socket(AF[b["fdfam"]], type_)
                mine.append(sock)
                if b["fdfam"] == "unix":
                    sock.bind(os.path.join(tmp, "fd%d.sock" % i))
                else:
                    sock.bind((addr, 0))
                d = _describe(sock)
                rec.update({"fam": d["family"], "addr": d["host"], "port": d["port"], "path": d["path"]})
                rec["text"] = "fd://%d" % os.dup(sock.fileno())
            else:
                raise ValueError(shape)
            binds.append(rec)
        inp = {"via": via, "ssl": bool(case["ssl"]), "binds": binds}
        texts = [b["text"] for b in binds]

        relative = any(b["shape"] == "unix" and b["host"] for b in case["binds"])

        def create() -> List[socket.socket]:
            if relative:
                old = os.getcwd()
                os.chdir(tmp)
                try:
                    return create_here()
                finally:
                    os.chdir(old)
            return create_here()

        def create_here() -> List[socket.socket]:
            config = hconfig.Config()
            config.bind = []
            if case["ssl"]:
                config.certfile, config.keyfile = "c19-cert.pem", "c19-key.pem"  # never opened
            setattr(config, via, texts if len(texts) != 1 or case.get("as_list") else texts[0])
            try:
                sockets = config.create_sockets()
            except OSError as error:
                if error.errno == errno.EADDRINUSE:
                    busy.append(True)
                raise
            made.extend(sockets.secure_sockets + sockets.insecure_sockets + sockets.quic_sockets)
            if via == "quic_bind":
                return sockets.quic_sockets
            if via == "bind" and case["ssl"]:
                return sockets.secure_sockets
            return sockets.insecure_sockets

        outcome, socks = _guard(create)
        out = {"outcome": outcome, "socks": [_describe(s) for s in socks] if outcome == "ok" else []}
        return [_ev("case", "bind", "inp", inp), _ev("result", "bind", "out", out)]
    finally:
        for s in mine + made:
            with contextlib.suppress(OSError):
                s.close()
        shutil.rmtree(tmp, ignore_errors=True)


# ---- response headers ----------------------------------------------------------------------
_IMF = re.compile(
    r"^(Mon|Tue|Wed|Thu|Fri|Sat|Sun), (\d{2}) (Jan|Feb|Mar|Apr|May|Jun|Jul|Aug|Sep|Oct|Nov|Dec) "
    r"(\d{4}) (\d{2}):(\d{2}):(\d{2}) GMT$"
)
_MONTHS = ["Jan", "Feb", "Mar", "Apr", "May", "Jun", "Jul", "Aug", "Sep", "Oct", "Nov", "Dec"]
_DAYS = ["Mon", "Tue", "Wed", "Thu", "Fri", "Sat", "Sun"]


def imf_fixdate_ok(text: str, now: int) -> bool:
    """RFC 7231 section 7.1.1.1 IMF-fixdate, and it denotes `now` (round trip)."""
    m = _IMF.match(text)
    if m is None:
        return False
    day, mon, year = int(m.group(2)), _MONTHS.index(m.group(3)) + 1, int(m.group(4))
    hh, mm, ss = int(m.group(5)), int(m.group(6)), int(m.group(7))
    if not (1 <= day <= calendar.monthrange(year, mon)[1] and hh < 24 and mm < 60 and ss <= 60):
        return False
    if calendar.weekday(year, mon, day) != _DAYS.index(m.group(1)):
        return False
    return calendar.timegm((year, mon, day, hh, mm, ss)) == now


def _run_headers(case: Dict[str, Any]) -> List[Dict[str, Any]]:
    inp = {k: case[k] for k in ("date", "server", "alt", "protocol", "now")}
    now = int(case["now"])

    def call() -> List[Tuple[bytes, bytes]]:
        with _Env() as env:
            config = load_via(case.get("loader", "attr"), [
                ("include_date_header", bool(case["date"])),
                ("include_server_header", bool(case["server"])),
                ("alt_svc_headers", list(case["alt"])),
            ], env)
        return config.response_headers(case["protocol"])

    original = hconfig.time
    hconfig.time = lambda: now  # type: ignore[assignment]
    try:
        outcome, raw = _guard(call)
    finally:
        hconfig.time = original  # type: ignore[assignment]
    headers = []
    wellformed = True
    if outcome == "ok":
        for name, value in raw:
            n = (name.decode("latin-1") if isinstance(name, bytes) else str(name)).lower()
            v = value.decode("latin-1") if isinstance(value, bytes) else str(value)
            headers.append({"name": _ascii(n), "value": _ascii(v)})
            if n == "date" and not imf_fixdate_ok(v, now):
                wellformed = False
    out = {"outcome": outcome, "headers": headers, "date_wellformed": wellformed}
    return [_ev("case", "headers", "inp", inp), _ev("result", "headers", "out", out)]


# --------------------------------------------------------------------------------------------
# case enumeration
# --------------------------------------------------------------------------------------------
def _asg(key: str, obj: Any) -> Dict[str, Any]:
    return {"key": key, "val": mk_val(obj)}


def _has_v6() -> bool:
    try:
        with socket.socket(socket.AF_INET6, socket.SOCK_STREAM) as s:
            s.bind(("::1", 0))
        return True
    except OSError:
        return False


def _file_ok(loader: str, obj: Any) -> bool:
    return loader != "toml" or mk_val(obj)["cls"] in TOML_CLASSES


def _full_assign(loader: str, variant: int) -> List[Dict[str, Any]]:
    """Every setting the loader can express, each given a value that differs from the default."""
    base = dict(zip(KEYS, defaults()))
    out = []
    for i, key in enumerate(KEYS):
        vals = [v for v in pool(key, i) if canon(v) != base[key] and _file_ok(loader, v)
                and not (KEY_CLASS[key] == "bind" and isinstance(v, str))]
        if vals:
            out.append(_asg(key, vals[variant % len(vals)]))
    return out


def cli_case(file_loader: str, file_assign: List[Dict[str, Any]], flags: List[Tuple[str, Any]],
             app_first: bool = False) -> Dict[str, Any]:
    return {"kind": "cli", "file": {"loader": file_loader, "assign": file_assign},
            "app": mk_val(APP), "flags": [{"flag": f, "val": mk_val(v)} for f, v in flags],
            "app_first": app_first}


def bind_case(via: str, ssl_on: bool, binds: List[Dict[str, Any]], as_list: bool = False) -> Dict[str, Any]:
    return {"kind": "bind", "via": via, "ssl": ssl_on, "binds": binds, "as_list": as_list}


def _bind_shapes(rng: random.Random) -> List[Dict[str, Any]]:
    def b(shape: str, host: str, addr: str, portsel: str = "none", fdfam: str = "none") -> Dict[str, Any]:
        return {"shape": shape, "host": host, "addr": addr, "portsel": portsel, "fdfam": fdfam}

    lo = "127.%d.%d.%d" % (rng.randrange(1, 250), rng.randrange(1, 250), rng.randrange(2, 250))
    shapes = [
        b("hostport", "127.0.0.1", "127.0.0.1", "zero"),
        b("hostport", "127.0.0.1", "127.0.0.1", "free"),
        b("hostport", "0.0.0.0", "0.0.0.0", "free"),
        b("hostport", "localhost", "127.0.0.1", "free"),
        b("host", lo, lo),
        b("unix", "", ""),
        # relative paths, among them names that begin with the letters of the prefix itself
        b("unix", "app.sock", ""), b("unix", "inbox.sock", ""), b("unix", "unix.sock", ""), b("unix", "x", ""),
        b("unix", "run/nginx.sock", ""),
        b("fd", "", "127.0.0.1", fdfam="inet"),
        b("fd", "", "", fdfam="unix"),
    ]
    if _has_v6():
        shapes += [
            b("v6port", "::1", "::1", "zero"),
            b("v6port", "::1", "::1", "free"),
            b("v6port", "::", "::", "free"),
            b("fd", "", "::1", fdfam="inet6"),
        ]
    return shapes


VIAS = [("bind", False), ("bind", True), ("insecure_bind", True), ("quic_bind", True)]
NOWS = [784887151, 0, 951782400, 2147483647, 1512229395]  # 15 Nov 1994 08:12:31; epoch; 29 Feb 2000; 2038; test's
ALTS = [[], ['h3=":443"; ma=3600'], ['h3=":443"; ma=3600', 'h3-29=":8443"']]
PROTOCOLS = ["h11", "h2", "h3"]
STEMS = ["", "/api", "/a/b"]
TRAILS = ["", "/", "//"]


def cases(tier: str, rng: random.Random) -> List[Dict[str, Any]]:
    thorough = tier == "thorough"
    base = dict(zip(KEYS, defaults()))
    out: List[Dict[str, Any]] = []
    vr = None if thorough else rng  # quick: arbitrary values; thorough: fixed, pairwise distinct

    def key_values(key: str) -> List[Any]:
        vals = pool(key, KEYS.index(key), vr)
        return vals if thorough else [rng.choice([v for v in vals if canon(v) != base[key]] or vals)]

    # (i) every setting x values of its type x every loader ------------------------------------
    for i, key in enumerate(KEYS):
        for obj in key_values(key):
            loaders = [l for l in PLAIN_LOADERS if expressible(l, key, obj)]
            if not thorough:
                loaders = rng.sample(loaders, min(3, len(loaders)))
                if expressible("toml", key, obj) and "toml" not in loaders:
                    loaders.append("toml")
            for loader in loaders:
                out.append({"kind": "load", "loader": loader, "assign": [_asg(key, obj)]})
    for loader in PLAIN_LOADERS:
        for variant in ((0, 1) if thorough else (rng.randrange(2),)):
            out.append({"kind": "load", "loader": loader, "assign": _full_assign(loader, variant)})

    # (i') the same assignment through all loaders, compared with each other -------------------
    for i, key in enumerate(KEYS):
        if key == "application_path":
            continue
        for obj in key_values(key):
            loaders = [l for l in PLAIN_LOADERS + ["cli"] if expressible(l, key, obj)]
            out.append({"kind": "agree", "loaders": loaders,
                        "assign": [_asg("application_path", APP), _asg(key, obj)]})

    # (ii) command line: every option alone, every pair, on top of configuration files --------
    fvals = {f: flag_pool(f, i, vr) for i, f in enumerate(FLAGS)}
    out.append(cli_case("none", [], []))
    for f in FLAGS:
        for j, v in enumerate(fvals[f] if thorough else fvals[f][:1]):
            out.append(cli_case("none", [], [(f, v)], app_first=bool(j)))
    pairs = [(f, g) for a, f in enumerate(FLAGS) for g in FLAGS[a + 1:] if FLAG_KEY[f] != FLAG_KEY[g]]
    if not thorough:
        pairs = rng.sample(pairs, 150)
    for f, g in pairs:
        out.append(cli_case("none", [], [(f, fvals[f][0]), (g, fvals[g][0])]))
        if thorough:
            out.append(cli_case("none", [], [(g, fvals[g][-1]), (f, fvals[f][-1])]))
    # a configuration file alone: each setting it supplies must reach run() unchanged
    for fl in FILE_LOADERS:
        for i, key in enumerate(KEYS):
            if key == "application_path":
                continue  # the positional application owns it
            vals = [v for v in pool(key, i, vr) if _file_ok(fl, v)]
            if not thorough:
                vals = [v for v in vals if canon(v) != base[key]][:1] if fl == "toml" else []
            for obj in vals:
                out.append(cli_case(fl, [_asg(key, obj)], []))
        out.append(cli_case(fl, _full_assign(fl, 0), []))
    # an option on top of a file that sets the same setting, and on top of a file that sets all
    for i, f in enumerate(FLAGS):
        key = FLAG_KEY[f]
        for fl in (FILE_LOADERS if thorough else [FILE_LOADERS[i % 3]]):
            mine = [v for v in pool(key, 50 + i) if _file_ok(fl, v) and v is not None]
            if mine:
                out.append(cli_case(fl, [_asg(key, mine[0])], [(f, fvals[f][-1])]))
            out.append(cli_case(fl, _full_assign(fl, 1), [(f, fvals[f][0])]))

    # (v) root_path ------------------------------------------------------------------------------
    for loader in PLAIN_LOADERS + ["cli"]:
        for stem in STEMS:
            for trail in TRAILS:
                if thorough or trail == "/" or rng.random() < 0.3:
                    out.append({"kind": "rootpath", "loader": loader, "val": mk_val(stem + trail)})

    # (iii) binds --------------------------------------------------------------------------------
    shapes = _bind_shapes(rng)
    for via, ssl_on in (VIAS if thorough else [VIAS[0], VIAS[3]]):
        for b in shapes:
            out.append(bind_case(via, ssl_on, [b]))
            if thorough:
                out.append(bind_case(via, ssl_on, [b], as_list=True))
        out.append(bind_case(via, ssl_on, shapes))
        if thorough:
            out.append(bind_case(via, ssl_on, list(reversed(shapes))))

    # (iv) response headers ----------------------------------------------------------------------
    for date in (True, False):
        for server in (True, False):
            for alt in ALTS:
                for protocol in PROTOCOLS:
                    for n, now in enumerate(NOWS if thorough else [rng.choice(NOWS)]):
                        loader = PLAIN_LOADERS[n % len(PLAIN_LOADERS)] if thorough else "attr"
                        out.append({"kind": "headers", "date": date, "server": server, "alt": alt,
                                    "protocol": protocol, "now": now, "loader": loader})
    return out


# --------------------------------------------------------------------------------------------
def summary(tier: str = "quick", seed: int = 0, batch: int = 1500) -> Dict[Tuple[str, str], Dict[str, Any]]:
    """Run every case of the tier and validate the traces with TLC; returns
    {(clause, ctx): {"count": n, "sample": case}}."""
    import time

    sys.path.insert(0, VERIF)
    from harness import tlc

    t0 = time.time()
    cs = cases(tier, random.Random(seed))
    traces = [run_case(c) for c in cs]
    t1 = time.time()
    verdicts: List[Dict[str, Any]] = []
    for i in range(0, len(traces), batch):
        verdicts += tlc.validate_traces("C19", traces[i:i + batch])
    t2 = time.time()
    found: Dict[Tuple[str, str], Dict[str, Any]] = {}
    for c, v in zip(cs, verdicts):
        for sig in v["fails"]:
            entry = found.setdefault(tuple(sig), {"count": 0, "sample": c})  # type: ignore[arg-type]
            entry["count"] += 1
    kinds: Dict[str, int] = {}
    for c in cs:
        kinds[c["kind"]] = kinds.get(c["kind"], 0) + 1
    print("C19 %s: %d cases %s; executed in %.1fs, validated by TLC in %.1fs"
          % (tier, len(cs), kinds, t1 - t0, t2 - t1))
    for sig, entry in sorted(found.items()):
        print("  FAIL %-16s %-55s x%-4d e.g. %s" % (sig[0], sig[1], entry["count"], _brief(entry["sample"])))
    if not found:
        print("  no clause failed")
    return found


def _brief(case: Dict[str, Any]) -> str:
    kind = case["kind"]
    if kind == "cli":
        flags = " ".join("%s=%s" % (f["flag"], f["val"]["repr"]) for f in case["flags"]) or "(no option)"
        fa = case["file"]["assign"]
        fdesc = case["file"]["loader"] + (":" + (fa[0]["key"] + "=" + fa[0]["val"]["repr"] if len(fa) == 1
                                                 else "%d keys" % len(fa)) if fa else "")
        return "cli file=%s %s" % (fdesc, flags)
    if kind in ("load", "agree"):
        a = case["assign"]
        desc = ", ".join("%s=%s" % (x["key"], x["val"]["repr"]) for x in a) if len(a) <= 2 else "%d keys" % len(a)
        return "%s %s %s" % (kind, case.get("loader") or "/".join(case["loaders"]), desc)
    return json.dumps(case)[:160]


if __name__ == "__main__":
    summary(sys.argv[1] if len(sys.argv) > 1 else "quick", int(sys.argv[2]) if len(sys.argv) > 2 else 0)
