"""C17 - the WSGI adapter conforms to PEP 3333: case enumeration and execution on the real code.

    cases(tier, rng)  -> abstract inputs (request x WSGI application shape x runner), JSON-able
    run_case(case)    -> trace [case event, result event] recorded from the REAL WSGIWrapper /
                         AsyncioWSGIMiddleware / TrioWSGIMiddleware on a real asyncio / trio loop

The verdict is not computed here: spec/props/C17.tla (with the oracle operators of
spec/Wsgi.tla) derives the expected values from the abstract input inside TLC and compares them
with the recorded result (harness.tlc.validate_traces("C17", traces)).

Runners
    asyncio     WSGIWrapper spawned through hypercorn.asyncio.task_group.TaskGroup.spawn_app (the
                worker's own sync_spawn = loop.run_in_executor, call_soon = run_coroutine_threadsafe)
    trio        WSGIWrapper spawned through hypercorn.trio.task_group.TaskGroup.spawn_app
                (trio.to_thread.run_sync / trio.from_thread.run)
    asyncio-mw  hypercorn.middleware.AsyncioWSGIMiddleware called as an ASGI application
    trio-mw     hypercorn.middleware.TrioWSGIMiddleware called as an ASGI application

Strings in cases and results are ASCII: non-ASCII text is written with unicode_escape on both
the expected (case tokens) and the observed side; escaping is per character, so it commutes with
the concatenation the oracle performs.

Command line (from /verif):  /venv/bin/python -m harness.adapters.c17 [quick|thorough] [--seed N] [--samples]
                             /venv/bin/python -m harness.adapters.c17 selftest
(selftest: 25 one-line source mutants of an in-memory copy of app_wrappers.py - /repo is never
written - must each be flagged with the clause naming the defect, and a PEP-3333-conformant
rewrite of run_app must pass with no alarm at all.)
"""
from __future__ import annotations

import asyncio
import itertools
import json
import random
import sys
import threading
from typing import Any, Callable, Dict, List, Optional, Tuple
from urllib.parse import unquote, unquote_to_bytes

RUNNERS = ["asyncio", "trio", "asyncio-mw", "trio-mw"]
WATCHDOG_S = 30  # real-time guard against a hung adapter only; never decides a verdict by itself


def esc(s: str) -> str:
    return s.encode("unicode_escape").decode("ascii")


def unesc(s: str) -> str:
    return s.encode("ascii").decode("unicode_escape")


# --------------------------------------------------------------------------------------------
# the bounded space
# --------------------------------------------------------------------------------------------
METHODS = ["GET", "POST"]
VERSIONS = ["1.0", "1.1", "2"]
QUERIES = ["", "a=1&b=%20x"]
PATHS = [
    ["/app", "/x"],
    ["/caf%C3%A9", "/a%20b", "/z"],  # two-byte UTF-8 sequence, escaped space
    ["/%E2%82%AC", "/app", "/y%2Fz"],  # three-byte UTF-8 sequence, escaped slash
    ["/api", "/v1", "/api", "/users"],  # the prefix text occurs again further down the path
    ["/a", "/a"],
    ["/api", "/%61pi"],  # ... or does so after unquoting
]
HEADER_SETS: List[List[Tuple[str, str]]] = [
    [],
    [("host", "example.com"), ("x-foo-bar", "1")],
    [("x-a", "1"), ("accept", "text/html"), ("x-a", "2"), ("x-a", "3"), ("content-type", "text/plain")],
    [("cookie", "a=1"), ("content-type", "application/json"), ("cookie", "b=2"), ("x-latin", "caf\xe9")],
]
# (wsgi_max_body_size, lengths of the http.request messages)
BODIES_ALL: List[Tuple[int, List[int]]] = [
    (0, [0]), (0, [1]), (0, [0, 0]), (0, [0, 1]),
    (5, [0]), (5, [4]), (5, [5]), (5, [6]), (5, [3, 2]), (5, [5, 0]), (5, [5, 1]), (5, [2, 2, 2]),
    (5, [4, 0, 1]), (5, [9, 9]),
    (1024, [1023]), (1024, [1024]), (1024, [1025]), (1024, [512, 512]), (1024, [1000, 24, 1]),
    (65536, [65536]), (65536, [65536, 1]),
]
BODIES_ENV: List[Tuple[int, List[int]]] = [(5, [0]), (5, [3, 2]), (5, [6])]

STARTS = ["eager", "lazy", "never"]
RETS = ["list", "generator", "iter_with_close", "iterable_with_close"]
RAISES = ["none", "before_start", "after_start", "mid_iteration"]
CHUNKS = [[], [0], [3], [3, 0, 5], [0, 4, 0]]
RESPONSES: List[Tuple[str, List[Tuple[str, str]]]] = [
    ("200 OK", []),
    ("404 Not Found", [("X-A", "1")]),
    ("201 Created", [("Set-Cookie", "a=1"), ("Content-Type", "text/plain"), ("Set-Cookie", "b=2")]),
    ("204 No Content", [("X-Latin", "caf\xe9")]),
]


def path_token(raw: str) -> Dict[str, str]:
    # PEP 3333 "bytes as unicode": the percent-decoded bytes seen as latin-1 (computed from the
    # raw octets, independently of how the adapter gets there)
    return {"raw": raw, "wsgi": esc(unquote_to_bytes(raw).decode("latin1"))}


def header_token(name: str, value: str) -> Dict[str, str]:
    return {"name": esc(name), "upper": esc(name.upper().replace("-", "_")), "value": esc(value)}


def make_req(
    kind: str = "http",
    method: str = "GET",
    path: Optional[List[str]] = None,
    root: Tuple[str, int] = ("prefix", 0),
    query: str = "",
    version: str = "1.1",
    headers: Optional[List[Tuple[str, str]]] = None,
    content_length: bool = False,
    max_body: int = 5,
    body: Optional[List[int]] = None,
) -> Dict[str, Any]:
    body = list(body if body is not None else [0])
    hs = list(headers or [])
    if content_length:
        hs.append(("content-length", str(sum(body))))
    return {
        "kind": kind,
        "method": method,
        "segs": [path_token(s) for s in (path or PATHS[0])],
        "root": {"kind": root[0], "n": root[1]},
        "query": query,
        "version": version,
        "headers": [header_token(n, v) for n, v in hs],
        "max_body": max_body,
        "body": body,
    }


def make_app_shape(
    start: str = "eager",
    ret: str = "list",
    chunks: Optional[List[int]] = None,
    raise_at: str = "none",
    response: Tuple[str, List[Tuple[str, str]]] = RESPONSES[0],
) -> Dict[str, Any]:
    status, headers = response
    return {
        "start": start,
        "ret": ret,
        "chunks": list(chunks if chunks is not None else [3]),
        "raise_at": raise_at,
        "status": status,
        "code": int(status.split(" ", 1)[0]),
        "headers": [{"name": esc(n), "lower": esc(n.lower()), "value": esc(v)} for n, v in headers],
    }


def valid_shape(a: Dict[str, Any]) -> bool:
    """Mirror of Wsgi!ValidShape: shapes a real Python callable can have."""
    if a["ret"] == "list" and (a["start"] == "lazy" or a["raise_at"] == "mid_iteration"):
        return False
    if a["start"] == "never" and a["raise_at"] not in ("none", "mid_iteration"):
        return False
    if a["raise_at"] == "mid_iteration" and len(a["chunks"]) < 1:
        return False
    return True


def roots_for(path: List[str]) -> List[Tuple[str, int]]:
    return [("prefix", n) for n in range(len(path) + 1)] + [("mismatch", 0)]


def all_shapes(responses: Optional[List[Any]] = None) -> List[Dict[str, Any]]:
    out = []
    for start, ret, chunks, raise_at, response in itertools.product(
        STARTS, RETS, CHUNKS, RAISES, responses or RESPONSES
    ):
        a = make_app_shape(start, ret, chunks, raise_at, response)
        if valid_shape(a):
            out.append(a)
    return out


def base_shapes() -> List[Dict[str, Any]]:
    """Every valid (start, ret, chunks, raise_at), the response variant rotated."""
    out = []
    i = 0
    for start, ret, chunks, raise_at in itertools.product(STARTS, RETS, CHUNKS, RAISES):
        a = make_app_shape(start, ret, chunks, raise_at, RESPONSES[i % len(RESPONSES)])
        if valid_shape(a):
            out.append(a)
            i += 1
    return out


SHAPES_ENV = [
    make_app_shape("eager", "list", [3, 0, 5], "none", RESPONSES[1]),
    make_app_shape("eager", "generator", [3], "none", RESPONSES[2]),
]
SHAPES_LIMIT = SHAPES_ENV + [make_app_shape("eager", "iter_with_close", [0, 4, 0], "none", RESPONSES[0])]


def env_requests() -> List[Dict[str, Any]]:
    out = []
    for method, path, query, version, headers, cl, (mx, body) in itertools.product(
        METHODS, PATHS, QUERIES, VERSIONS, HEADER_SETS, [False, True], BODIES_ENV
    ):
        for root in roots_for(path):
            out.append(make_req("http", method, path, root, query, version, headers, cl, mx, body))
    out.append(make_req(path=["/"]))
    return out


def shape_requests() -> List[Dict[str, Any]]:
    return [
        make_req("http", "GET", PATHS[0], ("prefix", 1), "", "1.1", HEADER_SETS[1], False, 5, [0]),
        make_req("http", "POST", PATHS[1], ("prefix", 0), "a=1&b=%20x", "2", HEADER_SETS[2], True, 5, [3, 2]),
    ]


def limit_requests() -> List[Dict[str, Any]]:
    out = []
    for (mx, body), cl, (path, root) in itertools.product(
        BODIES_ALL, [False, True], [(PATHS[0], ("prefix", 0)), (PATHS[1], ("prefix", 2)), (PATHS[0], ("mismatch", 0))]
    ):
        out.append(make_req("http", "POST", path, root, "", "1.1", HEADER_SETS[1], cl, mx, body))
    return out


def ws_requests() -> List[Dict[str, Any]]:
    return [
        make_req("websocket", "GET", PATHS[0], ("prefix", 0), "", "1.1", HEADER_SETS[1], False, 5, [0]),
        make_req("websocket", "GET", PATHS[1], ("prefix", 1), "a=1&b=%20x", "2", [], False, 0, [0]),
    ]


def _mk(runner: str, req: Dict[str, Any], app: Dict[str, Any]) -> Dict[str, Any]:
    return {"runner": runner, "req": req, "app": app}


def _dedup(cs: List[Dict[str, Any]]) -> List[Dict[str, Any]]:
    seen = set()
    out = []
    for c in cs:
        k = json.dumps(c, sort_keys=True)
        if k not in seen:
            seen.add(k)
            out.append(c)
    return out


def thorough_cases() -> List[Dict[str, Any]]:
    """The bounded space, exhaustively: the union of four full products
    (requests x 2 shapes, 2 requests x every shape, every body/limit placement x 3 shapes,
    WebSocket requests), each on every runner."""
    cs: List[Dict[str, Any]] = []
    for runner in RUNNERS:
        for req in env_requests():
            for app in SHAPES_ENV:
                cs.append(_mk(runner, req, app))
        for req in shape_requests():
            for app in all_shapes():
                cs.append(_mk(runner, req, app))
        for req in limit_requests():
            for app in SHAPES_LIMIT:
                cs.append(_mk(runner, req, app))
        for req in ws_requests():
            cs.append(_mk(runner, req, SHAPES_ENV[0]))
        # ... and every shape once more with sends that suspend (a transport under pressure)
        for app in all_shapes():
            cs.append(dict(_mk(runner, shape_requests()[0], app), slow_send=True))
    return _dedup(cs)


def quick_cases(rng: random.Random) -> List[Dict[str, Any]]:
    cs: List[Dict[str, Any]] = []
    # every application shape (response variants rotated) on both workers; a sample through
    # the middleware classes
    shapes = base_shapes()
    sreqs = shape_requests()
    for i, app in enumerate(shapes):
        cs.append(_mk("asyncio", sreqs[i % 2], app))
        cs.append(_mk("trio", sreqs[(i + 1) % 2], app))
    for i, app in enumerate(shapes):
        if i % 3 == 0:
            cs.append(_mk("asyncio-mw", sreqs[0], app))
        elif i % 3 == 1:
            cs.append(_mk("trio-mw", sreqs[1], app))
    # every value of every request dimension at least once per runner (paths x roots in full)
    k = 0
    for path in PATHS:
        for root in roots_for(path):
            for runner in RUNNERS:
                mx, body = BODIES_ENV[k % len(BODIES_ENV)]
                req = make_req(
                    "http", METHODS[k % 2], path, root, QUERIES[(k // 2) % 2], VERSIONS[k % 3],
                    HEADER_SETS[k % 4], k % 3 == 0, mx, body,
                )
                cs.append(_mk(runner, req, SHAPES_ENV[k % 2]))
                k += 1
    for headers in HEADER_SETS:
        for runner in RUNNERS:
            req = make_req("http", "POST", PATHS[0], ("prefix", 1), "a=1&b=%20x", VERSIONS[k % 3], headers, True, 5, [3, 2])
            cs.append(_mk(runner, req, SHAPES_ENV[k % 2]))
            k += 1
    cs.append(_mk("asyncio", make_req(path=["/"]), SHAPES_ENV[0]))
    # every application shape with sends that suspend, runners rotated
    for i, app in enumerate(shapes):
        cs.append(dict(_mk(RUNNERS[i % 4], sreqs[0], app), slow_send=True))
    # every body/limit placement, runners rotated
    for i, (mx, body) in enumerate(BODIES_ALL):
        req = make_req("http", "POST", PATHS[0], ("prefix", 0), "", "1.1", HEADER_SETS[1], i % 2 == 0, mx, body)
        cs.append(_mk(RUNNERS[i % 4], req, SHAPES_LIMIT[i % 3]))
        cs.append(_mk(RUNNERS[(i + 2) % 4], req, SHAPES_LIMIT[(i + 1) % 3]))
    for runner in RUNNERS:
        for req in ws_requests():
            cs.append(_mk(runner, req, SHAPES_ENV[0]))
    cs = _dedup(cs)
    # random fill from the thorough space
    room = 600 - len(cs)
    if room > 0:
        pool = thorough_cases()
        cs.extend(rng.sample(pool, min(room, len(pool))))
    return _dedup(cs)


def cases(tier: str, rng: random.Random) -> List[Dict[str, Any]]:
    if tier == "thorough":
        return thorough_cases()
    return quick_cases(rng)


# --------------------------------------------------------------------------------------------
# a real WSGI callable from an application shape
# --------------------------------------------------------------------------------------------
class AppError(Exception):
    pass


class Recorder:
    def __init__(self) -> None:
        self.calls = 0
        self.call_threads: List[int] = []
        self.loop_thread = 0
        self.environ: Dict[str, Any] = {}
        self.input: bytes = b""
        self.input_error = ""
        self.close_calls = 0
        self.sent: List[Any] = []
        self.logged: List[str] = []
        self.entered = 0      # sends begun
        self.inflight = 0     # sends begun and not yet returned
        self.overlaps = 0     # a send was begun while another had not returned


class ClosableIter:
    """An iterator object with a close() method (PEP 3333: the server must call it)."""

    def __init__(self, inner: Any, rec: Recorder) -> None:
        self._inner = inner
        self._rec = rec

    def __iter__(self) -> "ClosableIter":
        return self

    def __next__(self) -> bytes:
        return next(self._inner)

    def close(self) -> None:
        self._rec.close_calls += 1


class ClosableIterable:
    """An iterable with a close() method whose __iter__ hands out a separate iterator (PEP 3333: close() of
    the object the application RETURNED must be called)."""

    def __init__(self, inner: Any, rec: Recorder) -> None:
        self._inner = inner
        self._rec = rec

    def __iter__(self) -> Any:
        return self._inner

    def close(self) -> None:
        self._rec.close_calls += 1


def chunk_payloads(chunks: List[int]) -> List[bytes]:
    return [bytes([65 + (i % 26)]) * n for i, n in enumerate(chunks)]


def make_wsgi_app(shape: Dict[str, Any], rec: Recorder) -> Callable:
    start, ret, raise_at = shape["start"], shape["ret"], shape["raise_at"]
    payloads = chunk_payloads(shape["chunks"])
    status = shape["status"]
    headers = [(unesc(h["name"]), unesc(h["value"])) for h in shape["headers"]]

    def do_start(start_response: Callable) -> None:
        if raise_at == "before_start":
            raise AppError("before start_response")
        if start != "never":
            start_response(status, list(headers))
        if raise_at == "after_start":
            raise AppError("after start_response")

    def body(start_response: Callable) -> Any:
        if start == "lazy":
            do_start(start_response)
        for i, p in enumerate(payloads):
            if raise_at == "mid_iteration" and i == 1:
                raise AppError("mid iteration")
            yield p
        if raise_at == "mid_iteration" and len(payloads) == 1:
            raise AppError("mid iteration")

    def app(environ: dict, start_response: Callable) -> Any:
        sys.setprofile(None)  # a profiler left on a reused pool thread by an earlier case
        rec.calls += 1
        rec.call_threads.append(threading.get_ident())
        if rec.calls == 1:
            rec.environ = dict(environ)
            try:
                rec.input = environ["wsgi.input"].read()
            except Exception as error:  # noqa
                rec.input_error = type(error).__name__
        if start == "eager":
            do_start(start_response)
        if ret == "list":
            return list(payloads)
        gen = body(start_response)
        if ret == "iter_with_close":
            return ClosableIter(gen, rec)
        if ret == "iterable_with_close":
            return ClosableIterable(gen, rec)

        # a true generator: its close() is a C method, observed through the thread's profiler
        def profiler(frame: Any, event: str, arg: Any) -> None:
            if (
                event == "c_call"
                and getattr(arg, "__name__", "") == "close"
                and getattr(arg, "__self__", None) is gen
            ):
                rec.close_calls += 1

        sys.setprofile(profiler)
        return gen

    return app


# --------------------------------------------------------------------------------------------
# concretisation of the request
# --------------------------------------------------------------------------------------------
def body_bytes(n: int) -> bytes:
    return bytes((i * 7 + 3) % 251 for i in range(n))


def build_scope(req: Dict[str, Any]) -> Dict[str, Any]:
    raws = [s["raw"] for s in req["segs"]]
    path = "".join(unquote(r) for r in raws)
    if req["root"]["kind"] == "prefix":
        root_path = "".join(unquote(r) for r in raws[: req["root"]["n"]])
    else:
        root_path = "/other"
    headers = [(unesc(h["name"]).encode("latin1"), unesc(h["value"]).encode("latin1")) for h in req["headers"]]
    scope: Dict[str, Any] = {
        "asgi": {"spec_version": "2.1", "version": "3.0"},
        "http_version": req["version"],
        "path": path,
        "raw_path": "".join(raws).encode("ascii"),
        "query_string": req["query"].encode("ascii"),
        "root_path": root_path,
        "headers": headers,
        "client": ("203.0.113.7", 4321),
        "server": ("192.0.2.1", 8080),
        "extensions": {},
    }
    if req["kind"] == "websocket":
        scope.update({"type": "websocket", "scheme": "ws", "subprotocols": []})
    else:
        scope.update({"type": "http", "scheme": "http", "method": req["method"]})
    return scope


def build_messages(req: Dict[str, Any]) -> Tuple[bytes, List[Dict[str, Any]]]:
    if req["kind"] == "websocket":
        return b"", [{"type": "websocket.connect"}]
    whole = body_bytes(sum(req["body"]))
    msgs = []
    pos = 0
    for i, n in enumerate(req["body"]):
        msgs.append({"type": "http.request", "body": whole[pos : pos + n], "more_body": i < len(req["body"]) - 1})
        pos += n
    return whole, msgs


# --------------------------------------------------------------------------------------------
# runners
# --------------------------------------------------------------------------------------------
class _Log:
    def __init__(self, rec: Recorder) -> None:
        self._rec = rec

    async def exception(self, message: str, *args: Any, **kwargs: Any) -> None:
        error = sys.exc_info()[1]
        self._rec.logged.append(type(error).__name__ if error is not None else "unknown")


class _Config:
    max_app_queue_size = 10

    def __init__(self, rec: Recorder) -> None:
        self.log = _Log(rec)


def _make_send(rec: Recorder, slow: bool, checkpoint: Callable) -> Callable:
    """What the adapter sends to.  With `slow` a send suspends like a transport write under pressure (the first one
    for longer than those behind it): the adapter has to wait for each send before it makes the next - messages
    are recorded when their send completes."""
    async def send(message: Any) -> None:
        k = rec.entered
        rec.entered += 1
        rec.inflight += 1
        if rec.inflight > 1:
            rec.overlaps += 1
        try:
            if slow:
                for _ in range(5 if k == 0 else 1):
                    await checkpoint()
            rec.sent.append(message)
        finally:
            rec.inflight -= 1

    return send


async def _aio_checkpoint() -> None:
    await asyncio.sleep(0)


def _run_asyncio_worker(wrapper: Any, scope: dict, msgs: List[dict], rec: Recorder, slow: bool = False) -> str:
    from hypercorn.asyncio.task_group import TaskGroup

    send = _make_send(rec, slow, _aio_checkpoint)

    async def main() -> None:
        rec.loop_thread = threading.get_ident()
        loop = asyncio.get_running_loop()
        async with asyncio.timeout(WATCHDOG_S):
            async with TaskGroup(loop) as task_group:
                put = await task_group.spawn_app(wrapper, _Config(rec), scope, send)
                for m in msgs:
                    await put(m)

    return _guard(lambda: asyncio.run(main()))


def _run_trio_worker(wrapper: Any, scope: dict, msgs: List[dict], rec: Recorder, slow: bool = False) -> str:
    import trio
    from hypercorn.trio.task_group import TaskGroup

    send = _make_send(rec, slow, trio.lowlevel.checkpoint)

    async def main() -> None:
        rec.loop_thread = threading.get_ident()
        with trio.fail_after(WATCHDOG_S):
            async with TaskGroup() as task_group:
                put = await task_group.spawn_app(wrapper, _Config(rec), scope, send)
                for m in msgs:
                    await put(m)

    return _guard(lambda: trio.run(main))


def _mw_channels(msgs: List[dict], rec: Recorder, slow: bool = False, checkpoint: Optional[Callable] = None) -> Tuple[Callable, Callable]:
    queue = list(msgs)

    async def receive() -> dict:
        if queue:
            return queue.pop(0)
        return {"type": "http.disconnect"}

    return receive, _make_send(rec, slow, checkpoint or _aio_checkpoint)


def _run_asyncio_mw(wsgi_app: Callable, max_body: int, scope: dict, msgs: List[dict], rec: Recorder, slow: bool = False) -> str:
    from hypercorn.middleware import AsyncioWSGIMiddleware

    receive, send = _mw_channels(msgs, rec, slow, _aio_checkpoint)

    async def main() -> None:
        rec.loop_thread = threading.get_ident()
        middleware = AsyncioWSGIMiddleware(wsgi_app, max_body_size=max_body)
        async with asyncio.timeout(WATCHDOG_S):
            await middleware(scope, receive, send)

    return _guard(lambda: asyncio.run(main()))


def _run_trio_mw(wsgi_app: Callable, max_body: int, scope: dict, msgs: List[dict], rec: Recorder, slow: bool = False) -> str:
    import trio
    from hypercorn.middleware import TrioWSGIMiddleware

    receive, send = _mw_channels(msgs, rec, slow, trio.lowlevel.checkpoint)

    async def main() -> None:
        rec.loop_thread = threading.get_ident()
        middleware = TrioWSGIMiddleware(wsgi_app, max_body_size=max_body)
        with trio.fail_after(WATCHDOG_S):
            await middleware(scope, receive, send)

    return _guard(lambda: trio.run(main))


def _guard(thunk: Callable) -> str:
    try:
        thunk()
    except BaseException as error:  # noqa
        if isinstance(error, (KeyboardInterrupt, SystemExit)):
            raise
        if isinstance(error, BaseExceptionGroup) and len(error.exceptions) == 1:
            return type(error.exceptions[0]).__name__
        return type(error).__name__
    return ""


# --------------------------------------------------------------------------------------------
# abstraction of what was observed
# --------------------------------------------------------------------------------------------
def _text(value: Any) -> str:
    if isinstance(value, str):
        return esc(value)
    return esc("<%s>%r" % (type(value).__name__, value))


def _latin(value: Any) -> str:
    if isinstance(value, bytes):
        return esc(value.decode("latin1"))
    return _text(value)


def _lower(value: Any) -> str:
    if isinstance(value, bytes):
        return esc(value.decode("latin1").lower())
    return _text(value)


def _int(value: Any) -> int:
    if isinstance(value, bool) or not isinstance(value, int) or abs(value) >= 2**31:
        return -1
    return value


def abstract_result(case: Dict[str, Any], rec: Recorder, exc: str, body: bytes) -> Dict[str, Any]:
    env = rec.environ
    http = sorted([_text(k), _text(v)] for k, v in env.items() if isinstance(k, str) and k.startswith("HTTP_"))
    env_abs = {
        "method": _text(env.get("REQUEST_METHOD", "")),
        "script_name": _text(env.get("SCRIPT_NAME", "")),
        "path_info": _text(env.get("PATH_INFO", "")),
        "query_string": _text(env.get("QUERY_STRING", "")),
        "server_protocol": _text(env.get("SERVER_PROTOCOL", "")),
        "content_type": _text(env.get("CONTENT_TYPE", "")),
        "content_length": _text(env.get("CONTENT_LENGTH", "")),
        "http": http,
        "input_len": len(rec.input),
        "input_eq": rec.calls > 0 and rec.input_error == "" and rec.input == body,
        "url_scheme": _text(env.get("wsgi.url_scheme", "")),
        "server_name": _text(env.get("SERVER_NAME", "")),
        "server_port": _text(str(env.get("SERVER_PORT", ""))),
        "remote_addr": _text(env.get("REMOTE_ADDR", "")),
    }

    start_count = 0
    status = -1
    headers: List[List[str]] = []
    chunks: List[int] = []
    sent_body = b""
    final = False
    ended = 0
    ws = {"accept": False, "close": False, "denied": False}
    other = 0
    for m in rec.sent:
        if m is None:  # the worker's end-of-application marker
            ended += 1
            continue
        kind = m.get("type") if isinstance(m, dict) else None
        if kind == "http.response.start":
            start_count += 1
            if start_count == 1:
                status = _int(m.get("status"))
                headers = [[_lower(n), _latin(v)] for n, v in m.get("headers", [])]
        elif kind == "http.response.body":
            data = bytes(m.get("body", b""))
            if final:
                other += 1  # anything after the terminating message
            chunks.append(len(data))
            sent_body += data
            if not m.get("more_body", False):
                final = True
        elif kind == "websocket.accept":
            ws["accept"] = True
        elif kind == "websocket.close":
            ws["close"] = True
        elif kind == "websocket.http.response.start":
            ws["denied"] = _int(m.get("status")) >= 400
        else:
            other += 1
    expected_body = b"".join(chunk_payloads(case["app"]["chunks"]))
    kinds = [m.get("type") for m in rec.sent if isinstance(m, dict)]
    in_order = not ("http.response.body" in kinds and "http.response.start" in kinds
                    and kinds.index("http.response.body") < kinds.index("http.response.start"))
    if None in rec.sent and rec.sent.index(None) != len(rec.sent) - 1:
        in_order = False      # something was sent after the end-of-application marker
    resp = {
        "start_count": start_count,
        "status": status,
        "headers": headers,
        "chunks": chunks,
        "total": len(sent_body),
        "body_eq": sent_body == expected_body,
        "final": final,
        "other": other,
        "serial": in_order and rec.overlaps == 0,   # one send at a time, in the order the application made them
    }
    if exc == "" and rec.logged:
        exc = rec.logged[0]
    return {
        "e": "result",
        "called": rec.calls,
        "off_loop": rec.calls > 0 and all(t != rec.loop_thread for t in rec.call_threads),
        "env": env_abs,
        "resp": resp,
        "close_calls": rec.close_calls,
        "exc": exc,
        "ws": ws,
    }


def run_case(case: Dict[str, Any]) -> List[Dict[str, Any]]:
    from hypercorn.app_wrappers import WSGIWrapper

    req = case["req"]
    rec = Recorder()
    wsgi_app = make_wsgi_app(case["app"], rec)
    scope = build_scope(req)
    body, msgs = build_messages(req)
    runner = case["runner"]
    slow = bool(case.get("slow_send"))
    if runner == "asyncio":
        exc = _run_asyncio_worker(WSGIWrapper(wsgi_app, req["max_body"]), scope, msgs, rec, slow)
    elif runner == "trio":
        exc = _run_trio_worker(WSGIWrapper(wsgi_app, req["max_body"]), scope, msgs, rec, slow)
    elif runner == "asyncio-mw":
        exc = _run_asyncio_mw(wsgi_app, req["max_body"], scope, msgs, rec, slow)
    elif runner == "trio-mw":
        exc = _run_trio_mw(wsgi_app, req["max_body"], scope, msgs, rec, slow)
    else:
        raise ValueError("unknown runner %r" % runner)
    event = {"e": "case"}
    event.update(case)
    return [event, abstract_result(case, rec, exc, body)]


# --------------------------------------------------------------------------------------------
# self-test: source-level mutants of app_wrappers.py (an in-memory copy; /repo is never touched)
# --------------------------------------------------------------------------------------------
_FIXED_RUN_APP = (
    """        response_body = self.app(environ, start_response)

        if not response_started:
            raise RuntimeError("WSGI app did not call start_response")

        send({"type": "http.response.start", "status": status_code, "headers": headers})
        try:
            for output in response_body:
                send({"type": "http.response.body", "body": output, "more_body": True})
        finally:
""",
    """        response_body = self.app(environ, start_response)
        sent_start = False
        try:
            for output in response_body:
                if not response_started:
                    raise RuntimeError("WSGI app did not call start_response")
                if not sent_start:
                    send({"type": "http.response.start", "status": status_code, "headers": headers})
                    sent_start = True
                send({"type": "http.response.body", "body": output, "more_body": True})
            if not response_started:
                raise RuntimeError("WSGI app did not call start_response")
            if not sent_start:
                send({"type": "http.response.start", "status": status_code, "headers": headers})
        finally:
""",
)

# name -> (text in app_wrappers.py, replacement, clauses the monitor must newly raise; [] = the
# monitor must raise nothing at all, not even the pinned tree's findings)
MUTANTS: Dict[str, Tuple[str, str, List[str]]] = {
    "pep3333-conformant-run_app": (_FIXED_RUN_APP[0], _FIXED_RUN_APP[1], []),
    "path-info-not-stripped": ("path = path[len(script_name) :]", "path = path", ["environ-PATH_INFO"]),
    "path-info-not-latin1": ('"PATH_INFO": path.encode("utf8").decode("latin1"),', '"PATH_INFO": path,', ["environ-PATH_INFO"]),
    "script-name-empty": ('"SCRIPT_NAME": script_name.encode("utf8").decode("latin1"),', '"SCRIPT_NAME": "",', ["environ-SCRIPT_NAME"]),
    "repeated-header-last-wins": ('value = environ[corrected_name] + "," + value  # type: ignore', "pass", ["environ-HTTP"]),
    "content-type-as-http-var": ('elif name == "content-type":', 'elif name == "content-typo":', ["environ-CONTENT_TYPE"]),
    "content-length-as-http-var": ('if name == "content-length":', 'if name == "content-lenght":', ["environ-CONTENT_LENGTH"]),
    "method-constant": ('"REQUEST_METHOD": scope["method"],', '"REQUEST_METHOD": "GET",', ["environ-REQUEST_METHOD"]),
    "query-string-changed": ('scope["query_string"].decode("ascii"),', 'scope["query_string"].decode("ascii").upper(),', ["environ-QUERY_STRING"]),
    "protocol-constant": ('"HTTP/%s" % scope["http_version"],', '"HTTP/1.1",', ["environ-SERVER_PROTOCOL"]),
    "input-truncated": ('"wsgi.input": BytesIO(body),', '"wsgi.input": BytesIO(body[1:]),', ["environ-wsgi.input"]),
    "limit-ge": ("if len(body) > self.max_body_size:", "if len(body) >= self.max_body_size:", ["limit-boundary"]),
    "limit-off-by-one-late": ("if len(body) > self.max_body_size:", "if len(body) > self.max_body_size + 1:", ["limit-boundary"]),
    "limit-answer-413": ('"status": 400, "headers": []', '"status": 413, "headers": []', ["limit-boundary"]),
    "close-twice": ("                response_body.close()", "                response_body.close(); response_body.close()", ["close-count"]),
    "no-close-on-error": ("        finally:\n            if hasattr(response_body", "        except ZeroDivisionError:\n            pass\n        else:\n            if hasattr(response_body", ["close-count"]),
    "chunk-shortened": ('"body": output, "more_body": True', '"body": output[:-1], "more_body": True', ["response-body"]),
    "no-final-message": ('\n        await send({"type": "http.response.body", "body": b"", "more_body": False})', "\n        pass", ["response-body"]),
    "status-constant": ("status_code = int(raw)", "status_code = 200", ["response-status"]),
    "header-value-changed": ('value.encode("latin-1"))', 'value.upper().encode("latin-1"))', ["response-headers"]),
    "last-header-dropped": ("for name, value in response_headers\n", "for name, value in response_headers[:-1]\n", ["response-headers"]),
    "called-twice": ("response_body = self.app(environ, start_response)", "self.app(environ, start_response); response_body = self.app(environ, start_response)", ["called-count"]),
    "app-on-loop-thread": (
        "await sync_spawn(self.run_app, environ, partial(call_soon, send))",
        "_m = []; self.run_app(environ, _m.append); [await send(_x) for _x in _m]",
        ["ran-on-loop-thread"],
    ),
    "websocket-accepted": ('await send({"type": "websocket.close"})', 'await send({"type": "websocket.accept"})', ["websocket-not-refused"]),
    "websocket-ignored": ('await send({"type": "websocket.close"})', "pass", ["websocket-not-refused"]),
}


class MutantInapplicable(Exception):
    pass


class mutated:
    """Context manager: hypercorn's WSGIWrapper replaced (in this process only) by the class
    compiled from app_wrappers.py with one piece of text replaced."""

    def __init__(self, old: str, new: str) -> None:
        self.old, self.new = old, new

    def __enter__(self) -> "mutated":
        import inspect
        import types

        import hypercorn.app_wrappers as aw
        import hypercorn.middleware.wsgi as mw

        source = inspect.getsource(aw)
        if source.count(self.old) != 1:
            raise MutantInapplicable("text occurs %d times: %r" % (source.count(self.old), self.old))
        module = types.ModuleType("hypercorn.app_wrappers_c17_mutant")
        module.__package__ = "hypercorn"
        exec(compile(source.replace(self.old, self.new), "<c17 mutant of app_wrappers.py>", "exec"), module.__dict__)
        self._saved = (aw, aw.WSGIWrapper, mw, mw.WSGIWrapper)
        aw.WSGIWrapper = module.WSGIWrapper  # type: ignore
        mw.WSGIWrapper = module.WSGIWrapper  # type: ignore
        return self

    def __exit__(self, *exc_info: Any) -> None:
        aw, aw_cls, mw, mw_cls = self._saved
        aw.WSGIWrapper = aw_cls
        mw.WSGIWrapper = mw_cls


def _tlc() -> Any:
    import os

    root = os.path.dirname(os.path.dirname(os.path.dirname(os.path.abspath(__file__))))
    if root not in sys.path:
        sys.path.insert(0, root)
    from harness import tlc

    return tlc


def validate(traces: List[List[Dict[str, Any]]], batch: int = 5000) -> List[List[Tuple[str, str]]]:
    tlc = _tlc()
    out: List[List[Tuple[str, str]]] = []
    for i in range(0, len(traces), batch):
        out.extend([(c, x) for c, x in v["fails"]] for v in tlc.validate_traces("C17", traces[i : i + batch]))
    return out


def selftest(seed: int = 0, verbose: bool = True) -> Dict[str, Any]:
    """Every mutant must be flagged with the clause that names its defect, must not add clauses
    of an unrelated family, and the PEP-3333-conformant rewrite of run_app must pass entirely."""
    cs = cases("quick", random.Random(seed))
    base = set()
    for fails in validate([run_case(c) for c in cs]):
        base.update(fails)
    failed: List[str] = []
    lines: List[str] = []
    batches: List[Tuple[str, List[str], List[List[Dict[str, Any]]]]] = []
    for name, (old, new, expect) in MUTANTS.items():
        try:
            with mutated(old, new):
                batches.append((name, expect, [run_case(c) for c in cs]))
        except MutantInapplicable as error:
            lines.append("%-30s skipped (source changed: %s)" % (name, error))
    verdicts = validate([t for _, _, ts in batches for t in ts])
    pos = 0
    for name, expect, ts in batches:
        got = set()
        for fails in verdicts[pos : pos + len(ts)]:
            got.update(fails)
        pos += len(ts)
        new_clauses = sorted({c for c, _ in got - base})
        if expect:
            ok = all(any(c == e or c.startswith(e) for c in new_clauses) for e in expect)
        else:
            ok = not got
        if not ok:
            failed.append(name)
        lines.append(
            "%-30s %-8s expected %-26s new (clause, ctx): %s"
            % (name, "ok" if ok else "MISSED", ",".join(expect) or "(nothing at all)", sorted(got - base) or "-")
        )
    if verbose:
        print("C17 self-test: %d mutants x %d cases; pinned tree fails %d (clause, ctx) pairs" % (len(batches), len(cs), len(base)))
        for line in lines:
            print("  " + line)
    return {"failed": failed, "summary": "%d mutants, %d missed" % (len(batches), len(failed)), "lines": lines}


# --------------------------------------------------------------------------------------------
# command line: enumerate, execute, validate with TLC, summarise
# --------------------------------------------------------------------------------------------
def check(tier: str, seed: int = 0, samples: bool = False) -> Dict[Tuple[str, str], List[Dict[str, Any]]]:
    import time

    t0 = time.time()
    cs = cases(tier, random.Random(seed))
    traces = [run_case(c) for c in cs]
    t1 = time.time()
    found: Dict[Tuple[str, str], List[Dict[str, Any]]] = {}
    for trace, fails in zip(traces, validate(traces)):
        for key in fails:
            found.setdefault(key, []).append(trace[0])
    t2 = time.time()
    print("C17 %s: %d cases, executed in %.1f s, validated by TLC in %.1f s" % (tier, len(cs), t1 - t0, t2 - t1))
    for (clause, ctx), where in sorted(found.items()):
        runners = sorted({c["runner"] for c in where})
        print("  %-20s %-50s x%-5d runners=%s" % (clause, ctx, len(where), ",".join(runners)))
        if samples:
            print("      sample: %s" % json.dumps({k: v for k, v in where[0].items() if k != "e"}, sort_keys=True))
    if not found:
        print("  no clause failed")
    return found


if __name__ == "__main__":
    import argparse

    parser = argparse.ArgumentParser()
    parser.add_argument("tier", nargs="?", default="quick", choices=["quick", "thorough", "selftest"])
    parser.add_argument("--seed", type=int, default=0)
    parser.add_argument("--samples", action="store_true", help="print one sample case per failing (clause, ctx)")
    arguments = parser.parse_args()
    if arguments.tier == "selftest":
        sys.exit(1 if selftest(arguments.seed)["failed"] else 0)
    check(arguments.tier, arguments.seed, arguments.samples)
