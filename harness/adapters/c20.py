"""C20 - middleware semantics: case enumeration and execution on the real classes.

    cases(tier, rng)  -> list of JSON-able ABSTRACT inputs (tier "quick" | "thorough")
    run_case(case)    -> trace (list of event dicts) of the REAL middleware on the concretised input

The oracle is NOT here: spec/props/C20.tla computes the expectation from the structured abstract
input carried by the "<kind>.case" event (operators of spec/Middleware.tla) and compares it with
the "*.result" / "fanout.*" events recorded below.  Validate with

    from harness import tlc
    verdicts = tlc.validate_traces("C20", [run_case(c) for c in cases("quick", random.Random(0))])

or run  /venv/bin/python -m harness.adapters.c20 [quick|thorough]  from /verif for a summary.

Case kinds (field "case"):
  proxy            ProxyFixMiddleware: mode, hops, scope kind, original client/scheme, header list;
                   every header is STRUCTURED {lname, casing, values, elems, sep, lead, trail}; the raw
                   header value is  lead + sep.join(values) + trail  and the name is lname in the
                   given casing.  For `forwarded`, elems[j] is the parsed form of values[j].
  dispatch         Asyncio/TrioDispatcherMiddleware routing: ordered mount table and path, both as
                   lists of characters (the strings are their concatenation).
  lifespan-fanout  lifespan through the dispatcher on asyncio / trio: per-mount scripts and an explicit
                   schedule (server messages and mount completions, one forced step at a time).
  redirect         HTTPToHTTPSRedirectMiddleware.
"""
from __future__ import annotations

import asyncio
import copy
import itertools
import random
from typing import Any, Callable, Dict, List, Optional, Tuple

NONE = "<none>"
ABSENT = "<absent>"

QUICK = {"proxy": 620, "dispatch": 360, "lifespan-fanout": 160, "redirect": 320}

# --------------------------------------------------------------------------------------------
# proxy: enumeration
# --------------------------------------------------------------------------------------------
FWD_NAMES = ["x-forwarded-for", "x-forwarded-proto", "x-forwarded-host", "forwarded"]
SEPS = [",", ", ", " , ", ",  "]
PADS = [("", ""), (" ", ""), ("", " "), ("  ", " ")]
CASINGS = ["lower", "title", "upper"]
PROTOS = ["https", "http", "wss", "ws", "h2c", "spdy", "ftp", "gopher", "quic"]
PART_SUBSETS = [("for", "proto", "host"), ("for",), ("for", "proto"), ("proto",), ("for", "host"),
                ("host",), ("proto", "host"), ()]
MAX_HEADERS = 3
MAX_VALUES = 3
MAX_HOPS = 3


def _casing(lname: str, casing: str) -> str:
    if casing == "upper":
        return lname.upper()
    if casing == "title":
        return "-".join(p.capitalize() for p in lname.split("-"))
    return lname


def element_text(el: Dict[str, Any]) -> str:
    return ";".join("%s=%s" % (k, el[k]) for k in el["order"])


def _plain(lname: str, value: str, casing: str = "lower") -> Dict[str, Any]:
    return {"lname": lname, "casing": casing, "values": [value], "elems": [], "sep": ",", "lead": "", "trail": ""}


def _proxy_shapes() -> List[Tuple[Tuple[str, int], ...]]:
    opts = [(n, k) for n in FWD_NAMES for k in range(1, MAX_VALUES + 1)]
    out: List[Tuple[Tuple[str, int], ...]] = []
    for length in range(0, MAX_HEADERS + 1):
        out.extend(itertools.product(opts, repeat=length))
    return out


def _proxy_case(idx: int, mode: str, hops: int, shape: Tuple[Tuple[str, int], ...], scope: str) -> Dict[str, Any]:
    headers: List[Dict[str, Any]] = []
    n = 0  # running value number: every value of a case is distinct
    for hi, (lname, count) in enumerate(shape):
        values: List[str] = []
        elems: List[Dict[str, Any]] = []
        for vi in range(count):
            n += 1
            if lname == "x-forwarded-for":
                values.append("2001:db8::%d" % n if (idx + n) % 7 == 0 else "10.%d.%d.%d" % (hi + 1, vi + 1, n))
            elif lname == "x-forwarded-proto":
                values.append(PROTOS[(n - 1) % len(PROTOS)])
            elif lname == "x-forwarded-host":
                values.append("h%d.example:84%02d" % (n, n) if (idx + n) % 5 == 0 else "h%d.example" % n)
            else:
                parts = PART_SUBSETS[(idx // 3 + n * 3 + hops) % len(PART_SUBSETS)]
                order = list(parts)
                rot = (idx + n) % 3
                if len(order) > 1:
                    order = order[rot % len(order):] + order[: rot % len(order)]
                if (idx + n) % 4 == 0 or not order:
                    order.insert((idx + n) % (len(order) + 1), "by")
                el = {
                    "for": "192.0.%d.%d" % (hi + 1, n) if "for" in parts else NONE,
                    "proto": PROTOS[(n + 3) % len(PROTOS)] if "proto" in parts else NONE,
                    "host": "f%d.example" % n if "host" in parts else NONE,
                    "by": "203.0.113.%d" % n,
                    "order": order,
                }
                el["text"] = element_text(el)
                elems.append(el)
                values.append(el["text"])
        dec = idx + 5 * hi
        lead, trail = PADS[(dec // 4) % len(PADS)]
        headers.append({
            "lname": lname, "casing": CASINGS[(idx + hi) % 3], "values": values, "elems": elems,
            "sep": SEPS[dec % len(SEPS)], "lead": lead, "trail": trail,
        })
    # non-forwarding headers and existing host header(s)
    extra = idx % 6
    if extra == 1:
        headers.insert(0, _plain("host", "orig.example"))
    elif extra == 2:
        headers.append(_plain("host", "orig.example:8080"))
        headers.insert(0, _plain("accept", "*/*"))
    elif extra == 3:
        headers.insert(0, _plain("host", "orig-a.example", "title"))
        headers.append(_plain("x-real-ip", "6.6.6.6"))
        headers.append(_plain("host", "orig-b.example"))
    elif extra == 4:
        headers.insert(min(1, len(headers)), _plain("host", "orig.example", "upper"))
        headers.insert(0, _plain("x-forwarded-port", "9999"))
    elif extra == 5:
        headers.append(_plain("user-agent", "c20"))
    if scope == "websocket":
        scheme = "wss" if idx % 4 == 1 else "ws"
    else:
        scheme = "https" if idx % 4 == 1 else "http"
    return {
        "case": "proxy", "mode": mode, "hops": hops, "scope": scope,
        "client": NONE if idx % 11 == 0 else "172.16.0.%d" % (idx % 200 + 1), "scheme": scheme,
        "headers": headers,
    }


def _proxy_cases() -> List[Dict[str, Any]]:
    out: List[Dict[str, Any]] = []
    idx = 0
    for shape in _proxy_shapes():
        for mode in ("legacy", "modern"):
            for hops in range(0, MAX_HOPS + 1):
                idx += 1
                out.append(_proxy_case(idx, mode, hops, shape, "http" if idx % 2 else "websocket"))
    for mode in ("legacy", "modern"):
        for hops in range(0, MAX_HOPS + 1):
            out.append({"case": "proxy", "mode": mode, "hops": hops, "scope": "lifespan",
                        "client": ABSENT, "scheme": ABSENT, "headers": []})
    return out


# --------------------------------------------------------------------------------------------
# proxy: execution
# --------------------------------------------------------------------------------------------
def _drive(coro: Any) -> Any:
    """Run a coroutine that never really suspends (the three middlewares' request paths with
    trivial application / send callables) without an event loop."""
    try:
        coro.send(None)
    except StopIteration as stop:
        return stop.value
    coro.close()
    raise RuntimeError("middleware suspended unexpectedly")


def _raw_headers(headers: List[Dict[str, Any]]) -> List[Tuple[bytes, bytes]]:
    raw = []
    for h in headers:
        if h["lname"] == "forwarded":
            assert [element_text(e) for e in h["elems"]] == h["values"], "forwarded elems/values disagree"
        value = h["lead"] + h["sep"].join(h["values"]) + h["trail"]
        raw.append((_casing(h["lname"], h["casing"]).encode("latin1"), value.encode("latin1")))
    return raw


def _proxy_scope(case: Dict[str, Any]) -> Dict[str, Any]:
    if case["scope"] == "lifespan":
        return {"type": "lifespan", "asgi": {"version": "3.0", "spec_version": "2.0"}, "state": {"k": ["v"]}}
    scope: Dict[str, Any] = {
        "type": case["scope"],
        "asgi": {"version": "3.0", "spec_version": "2.3"},
        "http_version": "1.1",
        "scheme": case["scheme"],
        "path": "/p",
        "raw_path": b"/p",
        "query_string": b"q=1",
        "root_path": "",
        "headers": _raw_headers(case["headers"]),
        "client": None if case["client"] == NONE else (case["client"], 4321),
        "server": ("10.0.0.9", 80),
        "extensions": {"x": {"y": [1]}},
        "state": {"k": ["v"]},
    }
    if case["scope"] == "http":
        scope["method"] = "GET"
    else:
        scope["subprotocols"] = ["chat"]
    return scope


def _view(scope: Dict[str, Any]) -> Dict[str, Any]:
    client = scope.get("client", ABSENT)
    if client is None:
        chost, cport = NONE, -1
    elif client == ABSENT:
        chost, cport = ABSENT, -1
    else:
        chost, cport = str(client[0]), int(client[1])
    headers = scope.get("headers", [])
    return {
        "client": chost, "client_port": cport, "scheme": str(scope.get("scheme", ABSENT)),
        "hosts": [v.decode("latin1") for k, v in headers if k.lower() == b"host"],
        "headers": [[k.decode("latin1"), v.decode("latin1")] for k, v in headers],
    }


def _run_proxy(case: Dict[str, Any]) -> List[Dict[str, Any]]:
    from hypercorn.middleware import ProxyFixMiddleware

    scope = _proxy_scope(case)
    before = copy.deepcopy(scope)
    seen: List[Tuple[Dict[str, Any], Dict[str, Any]]] = []

    async def app(sc: Dict[str, Any], receive: Callable, send: Callable) -> None:
        seen.append((sc, copy.deepcopy(sc)))  # snapshot at call time; the application changes nothing

    raised = NONE
    try:
        _drive(ProxyFixMiddleware(app, mode=case["mode"], trusted_hops=case["hops"])(scope, None, None))
    except Exception as error:  # noqa: BLE001 - recorded, judged by the monitor
        raised = type(error).__name__
    view = _view(seen[0][1]) if seen else {"client": "<missing>", "client_port": -1, "scheme": "<missing>",
                                            "hosts": ["<missing>"], "headers": []}
    event = {"e": "proxy.case"}
    event.update({k: v for k, v in case.items() if k != "case"})
    result = {
        "e": "proxy.result", "called": len(seen),
        "seen_equal_orig": bool(seen) and seen[0][1] == before,
        "caller_unchanged": scope == before,
        "same_object": bool(seen) and seen[0][0] is scope,
        "raised": raised,
    }
    result.update(view)
    return [event, result]


# --------------------------------------------------------------------------------------------
# dispatch
# --------------------------------------------------------------------------------------------
PREFIX_POOL = ["", "/", "/a", "/a/b", "/b", "/ab", "/a/"]
PATH_POOL = ["/", "/a", "/a/", "/a/b", "/a/b/c", "/ab", "/abc", "/b", "/b/a", "/c", "/a/c", "/A"]
MAX_MOUNTS = 3


def _dispatch_cases() -> List[Dict[str, Any]]:
    out = []
    for length in range(0, MAX_MOUNTS + 1):
        for table in itertools.permutations(PREFIX_POOL, length):
            for path in PATH_POOL:
                for scope in ("http", "websocket"):
                    for impl in ("asyncio", "trio"):
                        out.append({"case": "dispatch", "impl": impl, "scope": scope,
                                    "mounts": [list(p) for p in table], "path": list(path)})
    return out


def _dispatcher_class(impl: str) -> Any:
    from hypercorn.middleware.dispatcher import AsyncioDispatcherMiddleware, TrioDispatcherMiddleware

    return AsyncioDispatcherMiddleware if impl == "asyncio" else TrioDispatcherMiddleware


def _run_dispatch(case: Dict[str, Any]) -> List[Dict[str, Any]]:
    calls: List[Tuple[int, str]] = []
    sent: List[Dict[str, Any]] = []

    def make(i: int) -> Callable:
        async def app(sc: Dict[str, Any], receive: Callable, send: Callable) -> None:
            calls.append((i, sc["path"]))
        return app

    async def send(message: Dict[str, Any]) -> None:
        sent.append(message)

    prefixes = ["".join(p) for p in case["mounts"]]
    assert len(set(prefixes)) == len(prefixes)
    mounts = {prefix: make(i + 1) for i, prefix in enumerate(prefixes)}
    path = "".join(case["path"])
    scope: Dict[str, Any] = {
        "type": case["scope"], "asgi": {"version": "3.0", "spec_version": "2.3"}, "http_version": "1.1",
        "scheme": "http" if case["scope"] == "http" else "ws", "path": path, "raw_path": path.encode(),
        "query_string": b"", "root_path": "", "headers": [(b"host", b"example")],
        "client": ("127.0.0.1", 1), "server": ("127.0.0.1", 80), "extensions": {}, "state": {},
    }
    raised = NONE
    try:
        _drive(_dispatcher_class(case["impl"])(mounts)(scope, None, send))
    except Exception as error:  # noqa: BLE001
        raised = type(error).__name__
    status = 0
    for message in sent:
        if message["type"].endswith("response.start"):
            status = int(message.get("status", 0))
            break
    event = {"e": "dispatch.case"}
    event.update({k: v for k, v in case.items() if k != "case"})
    return [event, {
        "e": "dispatch.result", "invoked": calls[0][0] if calls else 0, "calls": len(calls),
        "path_seen": str(calls[0][1]) if calls else NONE, "status": status,
        "msgs": [m["type"] for m in sent], "raised": raised,
    }]


# --------------------------------------------------------------------------------------------
# lifespan fan-out
# --------------------------------------------------------------------------------------------
def _interleavings(n: int, scripts: List[Dict[str, str]], with_shutdown: bool) -> List[List[Tuple[str, str, int]]]:
    """Every order of: server startup (first), mount startup completions, server shutdown,
    mount shutdown completions (after the server's shutdown; after the mount's own startup
    completion when it has one)."""
    tokens: List[Tuple[str, str, int]] = [("mount", "startup", i) for i in range(1, n + 1) if scripts[i - 1]["startup"] == "complete"]
    if with_shutdown:
        tokens.append(("server", "shutdown", 0))
        tokens += [("mount", "shutdown", i) for i in range(1, n + 1) if scripts[i - 1]["shutdown"] == "complete"]
    out: List[List[Tuple[str, str, int]]] = []

    def rec(prefix: List[Tuple[str, str, int]], rest: List[Tuple[str, str, int]]) -> None:
        if not rest:
            out.append([("server", "startup", 0)] + prefix)
            return
        for k, tok in enumerate(rest):
            if tok[0] == "mount" and tok[1] == "shutdown":
                if ("server", "shutdown", 0) in rest or ("mount", "startup", tok[2]) in rest:
                    continue
            rec(prefix + [tok], rest[:k] + rest[k + 1:])

    rec([], tokens)
    return out


def _fanout_cases() -> List[Dict[str, Any]]:
    out = []
    for n in range(1, MAX_MOUNTS + 1):
        for combo in itertools.product(("complete", "never"), repeat=2 * n):
            scripts = [{"startup": combo[2 * i], "shutdown": combo[2 * i + 1]} for i in range(n)]
            variants = [True]
            if all(s["shutdown"] == "never" for s in scripts):
                variants.append(False)  # the server never gets to shutdown
            for with_shutdown in variants:
                for order in _interleavings(n, scripts, with_shutdown):
                    for backend in ("asyncio", "trio"):
                        out.append({
                            "case": "lifespan-fanout", "backend": backend, "n": n, "scripts": scripts,
                            "schedule": [{"act": a, "phase": p, "mount": i} for a, p, i in order],
                        })
    return out


class _FanoutLog:
    def __init__(self, n: int) -> None:
        self.trace: List[Dict[str, Any]] = []
        self.done: Dict[str, set] = {"startup": set(), "shutdown": set()}

    async def server_send(self, message: Dict[str, Any]) -> None:
        self.trace.append({"e": "fanout.fwd", "type": str(message["type"]),
                           "done_startup": len(self.done["startup"]), "done_shutdown": len(self.done["shutdown"])})

    def completing(self, mount: int, phase: str) -> None:
        self.done[phase].add(mount)
        self.trace.append({"e": "fanout.mount", "mount": mount, "phase": phase})


def _mount_app(log: _FanoutLog, mount: int, next_command: Callable) -> Callable:
    """A mounted application: on the harness' command "complete <phase>" it reads its receive
    channel up to the lifespan.<phase> message and then sends lifespan.<phase>.complete."""
    async def app(scope: Dict[str, Any], receive: Callable, send: Callable) -> None:
        got: set = set()
        while True:
            phase = await next_command()
            while phase not in got:
                message = await receive()
                got.add(message["type"].split(".")[1])
            log.completing(mount, phase)
            await send({"type": "lifespan.%s.complete" % phase})
    return app


LIFESPAN_SCOPE = {"type": "lifespan", "asgi": {"version": "3.0", "spec_version": "2.0"}, "state": {}}
_SETTLE_ROUNDS = 25


def _fanout_asyncio(case: Dict[str, Any], log: _FanoutLog) -> str:
    from hypercorn.middleware.dispatcher import AsyncioDispatcherMiddleware

    async def main() -> str:
        loop = asyncio.get_running_loop()
        n = case["n"]
        server_q: asyncio.Queue = asyncio.Queue()
        commands = {i: asyncio.Queue() for i in range(1, n + 1)}
        mounts = {"/m%d" % i: _mount_app(log, i, commands[i].get) for i in range(1, n + 1)}
        dispatcher = AsyncioDispatcherMiddleware(mounts)
        task = loop.create_task(dispatcher(dict(LIFESPAN_SCOPE), server_q.get, log.server_send))

        async def settle() -> None:
            for _ in range(_SETTLE_ROUNDS):
                await asyncio.sleep(0)

        await settle()
        for step in case["schedule"]:
            if step["act"] == "server":
                server_q.put_nowait({"type": "lifespan.%s" % step["phase"]})
            else:
                commands[step["mount"]].put_nowait(step["phase"])
            await settle()
        raised = NONE
        if task.done() and not task.cancelled() and task.exception() is not None:
            raised = type(task.exception()).__name__
        task.cancel()
        try:
            await task
        except BaseException:  # noqa: BLE001 - cancellation of the parked applications
            pass
        return raised

    loop = asyncio.new_event_loop()
    try:
        return loop.run_until_complete(main())
    finally:
        loop.close()


def _fanout_trio(case: Dict[str, Any], log: _FanoutLog) -> str:
    import trio
    import trio.testing
    from hypercorn.middleware.dispatcher import TrioDispatcherMiddleware

    async def main() -> str:
        n = case["n"]
        server_s, server_r = trio.open_memory_channel(10)
        commands = {i: trio.open_memory_channel(10) for i in range(1, n + 1)}
        mounts = {"/m%d" % i: _mount_app(log, i, commands[i][1].receive) for i in range(1, n + 1)}
        dispatcher = TrioDispatcherMiddleware(mounts)
        raised = [NONE]

        async def run_dispatcher() -> None:
            try:
                await dispatcher(dict(LIFESPAN_SCOPE), server_r.receive, log.server_send)
            except Exception as error:  # noqa: BLE001
                raised[0] = type(error).__name__

        async with trio.open_nursery() as nursery:
            nursery.start_soon(run_dispatcher)
            await trio.testing.wait_all_tasks_blocked()
            for step in case["schedule"]:
                if step["act"] == "server":
                    server_s.send_nowait({"type": "lifespan.%s" % step["phase"]})
                else:
                    commands[step["mount"]][0].send_nowait(step["phase"])
                await trio.testing.wait_all_tasks_blocked()
            nursery.cancel_scope.cancel()
        return raised[0]

    return trio.run(main)


def _run_fanout(case: Dict[str, Any]) -> List[Dict[str, Any]]:
    log = _FanoutLog(case["n"])
    event = {"e": "fanout.case"}
    event.update({k: v for k, v in case.items() if k != "case"})
    log.trace.append(event)
    try:
        raised = _fanout_asyncio(case, log) if case["backend"] == "asyncio" else _fanout_trio(case, log)
    except Exception as error:  # noqa: BLE001
        raised = type(error).__name__
    log.trace.append({"e": "fanout.end", "raised": raised})
    return log.trace


# --------------------------------------------------------------------------------------------
# redirect
# --------------------------------------------------------------------------------------------
# (incl. paths that begin with the same characters as a configured root_path: "/api/users", "/apix", "/a")
RAW_PATHS = ["/", "/abc", "/abc%3C", "/a/b", "/a%20b/c", "//x", "/api/users", "/apix", "/api"]
QUERIES = ["", "a=b", "a=b&c=d", "q=%2F%3F"]
ROOT_PATHS = ["", "/api", "/a"]
HOSTS = [  # (configured, host header)
    ("example.com", NONE), (NONE, "example.org"), ("example.com", "other.example:8000"),
    (NONE, "example.org:8443"), (NONE, NONE),
]


def _redirect_cases() -> List[Dict[str, Any]]:
    out = []
    for scope in ("http", "websocket"):
        schemes = ("http", "https") if scope == "http" else ("ws", "wss")
        versions = ("1.0", "1.1", "2") if scope == "http" else ("1.1", "2")
        exts = (False,) if scope == "http" else (True, False)
        for scheme, version, (cfg, hdr), raw, query, root, ext in itertools.product(
                schemes, versions, HOSTS, RAW_PATHS, QUERIES, ROOT_PATHS, exts):
            out.append({"case": "redirect", "scope": scope, "scheme": scheme, "http_version": version,
                        "host_cfg": cfg, "host_hdr": hdr, "raw_path": raw, "query": query,
                        "root_path": root, "ext": ext})
    return out


def _run_redirect(case: Dict[str, Any]) -> List[Dict[str, Any]]:
    from urllib.parse import unquote

    from hypercorn.middleware import HTTPToHTTPSRedirectMiddleware

    headers = [(b"accept", b"*/*")]
    if case["host_hdr"] != NONE:
        headers.append((b"host", case["host_hdr"].encode()))
    headers.append((b"user-agent", b"c20"))
    scope: Dict[str, Any] = {
        "type": case["scope"], "asgi": {"version": "3.0", "spec_version": "2.3"},
        "http_version": case["http_version"], "scheme": case["scheme"],
        "path": unquote(case["raw_path"]), "raw_path": case["raw_path"].encode(),
        "query_string": case["query"].encode(), "root_path": case["root_path"], "headers": headers,
        "client": ("127.0.0.1", 1), "server": ("127.0.0.1", 80), "state": {},
        "extensions": {"websocket.http.response": {}} if case["ext"] else {},
    }
    if case["scope"] == "http":
        scope["method"] = "GET"
    else:
        scope["subprotocols"] = []
    before = copy.deepcopy(scope)
    seen: List[Any] = []
    sent: List[Dict[str, Any]] = []

    async def app(sc: Dict[str, Any], receive: Callable, send: Callable) -> None:
        seen.append((sc is scope, sc == before))

    async def send(message: Dict[str, Any]) -> None:
        sent.append(message)

    raised = NONE
    try:
        host = None if case["host_cfg"] == NONE else case["host_cfg"]
        _drive(HTTPToHTTPSRedirectMiddleware(app, host)(scope, None, send))
    except Exception as error:  # noqa: BLE001
        raised = type(error).__name__
    status, location = 0, NONE
    for message in sent:
        if message["type"].endswith("response.start"):
            status = int(message.get("status", 0))
            locations = [v for k, v in message.get("headers", []) if k.lower() == b"location"]
            if locations:
                location = locations[0].decode("latin1")
            break
    event = {"e": "redirect.case"}
    event.update({k: v for k, v in case.items() if k != "case"})
    return [event, {
        "e": "redirect.result", "passed": len(seen) == 1,
        "same_scope": len(seen) == 1 and seen[0][0] and seen[0][1],
        "raised": raised, "status": status, "location": location, "msgs": [m["type"] for m in sent],
    }]


# --------------------------------------------------------------------------------------------
# interface
# --------------------------------------------------------------------------------------------
_GENERATORS = {
    "proxy": _proxy_cases, "dispatch": _dispatch_cases, "lifespan-fanout": _fanout_cases,
    "redirect": _redirect_cases,
}
_RUNNERS = {
    "proxy": _run_proxy, "dispatch": _run_dispatch, "lifespan-fanout": _run_fanout, "redirect": _run_redirect,
}


def _pinned(case: Dict[str, Any]) -> bool:
    """Rare situation classes the quick tier must not lose to sampling."""
    if case["case"] == "proxy":
        return case["scope"] == "lifespan"
    if case["case"] == "lifespan-fanout":
        return case["n"] < 3 and all(s["startup"] == "complete" and s["shutdown"] == "complete" for s in case["scripts"])
    return False


def cases(tier: str, rng: random.Random) -> List[Dict[str, Any]]:
    out: List[Dict[str, Any]] = []
    for kind, gen in _GENERATORS.items():
        full = gen()
        if tier == "thorough" or len(full) <= QUICK[kind]:
            out.extend(full)
        else:
            pinned = [i for i, c in enumerate(full) if _pinned(c)]
            rest = [i for i, c in enumerate(full) if not _pinned(c)]
            chosen = pinned + rng.sample(rest, max(0, QUICK[kind] - len(pinned)))
            out.extend(full[i] for i in sorted(chosen))
    return out


def run_case(case: Dict[str, Any]) -> List[Dict[str, Any]]:
    return _RUNNERS[case["case"]](copy.deepcopy(case))


def situation(case: Dict[str, Any]) -> str:
    """One-line description of a case (for reports)."""
    if case["case"] == "proxy":
        return "proxy mode=%s hops=%d scope=%s headers=%r" % (
            case["mode"], case["hops"], case["scope"], [(_casing(h["lname"], h["casing"]).encode(), (h["lead"] + h["sep"].join(h["values"]) + h["trail"]).encode()) for h in case["headers"]])
    if case["case"] == "dispatch":
        return "dispatch impl=%s scope=%s mounts=%r path=%r" % (
            case["impl"], case["scope"], ["".join(p) for p in case["mounts"]], "".join(case["path"]))
    if case["case"] == "lifespan-fanout":
        return "fanout backend=%s n=%d scripts=%r schedule=%r" % (
            case["backend"], case["n"], [(s["startup"], s["shutdown"]) for s in case["scripts"]],
            [(s["act"], s["phase"], s["mount"]) for s in case["schedule"]])
    return "redirect " + " ".join("%s=%r" % (k, v) for k, v in case.items() if k != "case")


def check(tier: str = "quick", seed: int = 0, batch: int = 4000) -> Dict[Tuple[str, str], Dict[str, Any]]:
    """Enumerate, execute, validate with TLC; returns {(clause, ctx): {"count": n, "sample": case}}."""
    import sys
    import time

    from harness import tlc

    t0 = time.time()
    todo = cases(tier, random.Random(seed))
    t1 = time.time()
    traces = [run_case(c) for c in todo]
    t2 = time.time()
    verdicts: List[Dict[str, Any]] = []
    for start in range(0, len(traces), batch):
        verdicts.extend(tlc.validate_traces("C20", traces[start:start + batch]))
    t3 = time.time()
    found: Dict[Tuple[str, str], Dict[str, Any]] = {}
    for case, verdict in zip(todo, verdicts):
        for clause, ctx in verdict["fails"]:
            slot = found.setdefault((clause, ctx), {"count": 0, "sample": case})
            slot["count"] += 1
    kinds: Dict[str, int] = {}
    for case in todo:
        kinds[case["case"]] = kinds.get(case["case"], 0) + 1
    print("C20 %s: %d cases %r; enumerate %.1fs, execute %.1fs, TLC validation %.1fs" % (
        tier, len(todo), kinds, t1 - t0, t2 - t1, t3 - t2), file=sys.stderr)
    return found


if __name__ == "__main__":
    import os
    import sys

    sys.path.insert(0, os.path.dirname(os.path.dirname(os.path.dirname(os.path.abspath(__file__)))))
    result = check(sys.argv[1] if len(sys.argv) > 1 else "quick", int(os.environ.get("VERIF_SEED", "0") or 0))
    for (clause, ctx), info in sorted(result.items()):
        print("FAIL %-28s %-60s x%d   e.g. %s" % (clause, ctx, info["count"], situation(info["sample"])))
    print("%d failing (clause, ctx) pairs" % len(result))
    sys.exit(1 if result else 0)
