"""Turning TLC behaviours of the design specifications into stimulus scripts.

`tlc -simulate file=...` writes one TLA+ file per behaviour; each step is labelled with the
action (and its parameters).  The stimulus actions (client, transport, clock, application
steps) are mapped to script steps; server-internal actions are what the real code is
expected to do by itself and are skipped."""
from __future__ import annotations

import os
import re
import shutil
import subprocess
from typing import Any, Dict, Iterator, List, Optional, Tuple

from . import build, tlc

_ACTION = re.compile(r"^\\\* <(\w+)(?:\(([^)]*)\))? line")


def simulate(module: str, cfg: str, num: int, depth: int, seed: int, timeout: int = 600,
             cfg_subst: Optional[Dict[str, str]] = None) -> List[Dict[str, Any]]:
    """Returns a list of behaviours: {"actions": [(name, [args])...], "first_state": text}"""
    d = tlc.scratch("sim-" + module)
    try:
        for name in os.listdir(tlc.SPEC):
            if name.endswith(".tla") or name.endswith(".cfg"):
                shutil.copy(os.path.join(tlc.SPEC, name), d)
        if cfg_subst:
            text = open(os.path.join(d, cfg)).read()
            for old, new in cfg_subst.items():
                if old not in text:
                    raise tlc.TLCError("configuration %s has no %r to substitute" % (cfg, old))
                text = text.replace(old, new)
            open(os.path.join(d, cfg), "w").write(text)
        out_dir = os.path.join(d, "out")
        os.makedirs(out_dir)
        cmd = ["tlc", "-simulate", "file=%s/tr,num=%d" % (out_dir, num), "-depth", str(depth), "-workers", "1",
               "-seed", str(seed), "-metadir", os.path.join(d, "meta"), "-noGenerateSpecTE", "-config", cfg,
               module + ".tla"]
        proc = subprocess.run(cmd, cwd=d, env=tlc.java_env(), stdout=subprocess.PIPE, stderr=subprocess.STDOUT,
                              text=True, timeout=timeout)
        if "Error:" in proc.stdout and "is violated" in proc.stdout:
            raise tlc.TLCError("simulation of %s found a violation of the design:\n%s" % (module, proc.stdout[-3000:]))
        behaviours = []
        for name in sorted(os.listdir(out_dir), key=lambda n: [int(x) for x in re.findall(r"\d+", n)]):
            text = open(os.path.join(out_dir, name)).read()
            actions: List[Tuple[str, List[str]]] = []
            for line in text.splitlines():
                m = _ACTION.match(line)
                if m and m.group(1) != "Init":
                    args = [a.strip() for a in m.group(2).split(",")] if m.group(2) else []
                    actions.append((m.group(1), args))
            first = text.split("STATE_2 ==")[0]
            behaviours.append({"actions": actions, "first_state": first})
        if not behaviours:
            raise tlc.TLCError("simulation of %s produced no behaviours:\n%s" % (module, proc.stdout[-2000:]))
        return behaviours
    finally:
        shutil.rmtree(d, ignore_errors=True)


# ------------------------------------------------------------------------------------------
# H1Conn -> HTTP/1 scripts

def h1_plan(first_state: str) -> List[Dict[str, Any]]:
    m = re.search(r"plan = <<(.*?)>>\s*$", first_state, re.S | re.M)
    recs = re.findall(r"\[body \|-> (\d+), close \|-> (TRUE|FALSE)\]", first_state.split("plan =")[1])
    return [{"body": int(b), "close": c == "TRUE"} for b, c in recs]


def h1_script_from_behaviour(beh: Dict[str, Any], ka_ticks: int, tick_s: float, cfg: Dict[str, Any],
                             fam: str) -> Optional[Dict[str, Any]]:
    plan = h1_plan(beh["first_state"])
    requests = []
    for i, p in enumerate(plan, start=1):
        rq: Dict[str, Any] = {"rid": i, "method": "POST" if p["body"] else "GET", "target": "/m%d" % i}
        if p["body"]:
            rq["body"] = {"framing": "chunked", "len": 3 * p["body"], "chunks": [3] * p["body"]}
        if p["close"]:
            rq["headers"] = [["host", "hypercorn"], ["connection", "close"]]
            rq["wantclose"] = True
        requests.append(rq)
    sc = build.h1_session(requests)
    # token boundaries in wire offsets: H, B..., E per request
    bounds: List[int] = []
    for r, p in zip(sc["reqs"], plan):
        bounds.append(r["head_end"])  # H
        for seg in r["segs"]:
            bounds.append(seg[1] + 2)  # B: chunk data + CRLF
        bounds.append(r["end"])  # E
    # a bodyless request's E has no bytes of its own: ClientSend sends H and E together
    steps: List[Dict[str, Any]] = []
    tok = 0
    toks_per_req = [(2 + p["body"]) for p in plan]
    flat: List[Tuple[int, str]] = []
    for i, p in enumerate(plan):
        flat.append((i, "H"))
        flat += [(i, "B")] * p["body"]
        flat.append((i, "E"))
    exits = 0
    stim = 0
    for name, args in beh["actions"]:
        if name == "ClientSend":
            i, kind = flat[tok]
            n = 2 if (kind == "H" and plan[i]["body"] == 0) else 1
            tok += n
            steps.append({"s": "send", "upto": bounds[tok - 1]})
        elif name == "ClientEof":
            steps.append({"s": "eof"})
        elif name == "ClientReset":
            steps.append({"s": "reset"})
        elif name == "TransportFail":
            steps.append({"s": "fail"})
        elif name == "Terminate":
            steps.append({"s": "shutdown"})
        elif name == "Tick":
            steps.append({"s": "dt", "d": tick_s})
        elif name == "AppRecv":
            steps.append({"s": "op", "app": args[0], "op": ["recv"]})
        elif name == "AppSendStart":
            steps.append({"s": "op", "app": args[0],
                          "op": ["send", {"type": "http.response.start", "status": 200, "headers": []}]})
        elif name == "AppSendBody":
            final = args[1] == "TRUE"
            steps.append({"s": "op", "app": args[0],
                          "op": ["send", {"type": "http.response.body", "pat": [90 + int(args[0]), 0, 2 if final else 3],
                                          "more": not final}]})
        elif name == "AppExit":
            exits += 1
            steps.append({"s": "op", "app": args[0], "op": ["raise"] if exits % 2 == 0 else ["return"]})
        else:
            continue
        stim += 1
    if stim == 0:
        return None
    # body chunks sent by one app in order: fix pattern offsets so that they concatenate
    offs: Dict[str, int] = {}
    for st in steps:
        if st["s"] == "op" and st["op"][0] == "send" and "pat" in st["op"][1]:
            spec = st["op"][1]
            off = offs.get(st["app"], 0)
            spec["pat"] = [spec["pat"][0], off, spec["pat"][2]]
            offs[st["app"]] = off + spec["pat"][2]
    sc.update({"carrier": "h1", "plan": plan, "cfg": dict(cfg, keep_alive_timeout=ka_ticks * tick_s),
               "apps": {"*": [["remote"]]}, "steps": steps, "fam": fam})
    return sc


def gen_h1_from_spec(tier: str, rng, cfg_name: str = "MC_H1Conn_sim.cfg") -> Iterator[Dict[str, Any]]:
    # Random walks with every fault enabled end early (a fault is as likely as a useful step), so the
    # environment is varied: no fault at all (pipelines, full queues, recycling, expiry), one kind each, all.
    mixes = [("none", "{}", 3), ("eof", '{"eof"}', 1), ("reset", '{"reset"}', 1), ("fail", '{"fail"}', 1),
             ("term", '{"term"}', 1), ("all", '{"eof", "reset", "fail", "term"}', 1)]
    unit = 20 if tier == "quick" else 400
    for label, faults, weight in mixes:
        seed = rng.randrange(1, 1 << 30)
        behaviours = simulate("MC_H1Conn", cfg_name, num=unit * weight, depth=80, seed=seed,
                              cfg_subst={'Faults = {"eof", "reset", "fail", "term"}': "Faults = %s" % faults})
        for beh in behaviours:
            sc = h1_script_from_behaviour(beh, ka_ticks=2, tick_s=1.0,
                                          cfg={"max_app_queue_size": 1, "keep_alive_max_requests": 2},
                                          fam="tlc/H1Conn/sim-" + label)
            if sc is not None:
                yield sc


# ------------------------------------------------------------------------------------------
# H2Conn -> HTTP/2 scripts (one model unit = 16 384 bytes)

UNIT = 16384


def h2_script_from_behaviour(beh: Dict[str, Any], init_win: int, chunk_units: int, fam: str) -> Optional[Dict[str, Any]]:
    streams = [1, 3]
    steps: List[Dict[str, Any]] = []
    for i, sid in enumerate(streams):
        steps.append(build.h2_headers(i + 1, sid, "GET", toks=[["/t%d" % sid, "/t%d" % sid]]))
    rid_of = {str(sid): str(i + 1) for i, sid in enumerate(streams)}
    for rid in rid_of.values():
        steps.append({"s": "op", "app": rid, "op": ["recv"]})
        steps.append({"s": "op", "app": rid, "op": ["send", {"type": "http.response.start", "status": 200, "headers": []}]})
    offs: Dict[str, int] = {}
    stim = 0
    for name, args in beh["actions"]:
        if name == "AppPush":
            rid = rid_of[args[0]]
            off = offs.get(rid, 0)
            n = chunk_units * UNIT
            steps.append({"s": "op", "app": rid, "op": ["send", {"type": "http.response.body", "pat": [110 + int(rid), off, n], "more": True}]})
            offs[rid] = off + n
        elif name == "AppEnd":
            rid = rid_of[args[0]]
            steps.append({"s": "op", "app": rid, "op": ["send", {"type": "http.response.body", "more": False}]})
        elif name == "WindowUpdateStream":
            steps.append({"s": "h2", "op": "wupd", "stream": int(args[0]), "n": int(args[1]) * UNIT})
        elif name == "WindowUpdateConn":
            steps.append({"s": "h2", "op": "wupd", "stream": 0, "n": int(args[0]) * UNIT})
        elif name == "Reset":
            steps.append({"s": "h2", "op": "rst", "stream": int(args[0])})
        elif name == "ConnClose":
            steps.append({"s": "eof"})
        else:
            continue
        stim += 1
    if stim == 0:
        return None
    steps.append({"s": "dt", "d": 0.05})
    return {"carrier": "h2", "cfg": {}, "apps": {"*": [["remote"]]}, "steps": steps, "fam": fam, "autoack": False,
            "maxchunk": chunk_units * UNIT, "h2_settings": {"4": init_win * UNIT}, "bodies": {}}


def gen_h2_from_spec(tier: str, rng, cfg_name: str = "MC_H2Conn_sim.cfg") -> Iterator[Dict[str, Any]]:
    num = 120 if tier == "quick" else 2500
    seed = rng.randrange(1, 1 << 30)
    behaviours = simulate("MC_H2Conn", cfg_name, num=num, depth=70, seed=seed)
    for beh in behaviours:
        sc = h2_script_from_behaviour(beh, init_win=1, chunk_units=2, fam="tlc/H2Conn/sim")
        if sc is not None:
            yield sc
