"""Turning TLC behaviours of the design specifications into stimulus scripts.

`tlc -simulate file=...` writes one TLA+ file per behaviour; each step is labelled with the
action (and its parameters).  The stimulus actions (client, transport, clock, application
steps) are mapped to script steps; server-internal actions are what the real code is
expected to do by itself and are skipped."""
from __future__ import annotations

import os
import re
import shutil
import subprocess
from typing import Any, Dict, Iterator, List, Optional, Tuple

from . import build, tlc

_ACTION = re.compile(r"^\\\* <(\w+)(?:\(([^)]*)\))? line")


def simulate(module: str, cfg: str, num: int, depth: int, seed: int, timeout: int = 600,
             cfg_subst: Optional[Dict[str, str]] = None) -> List[Dict[str, Any]]:
    """Returns a list of behaviours: {"actions": [(name, [args])...], "first_state": text}"""
    d = tlc.scratch("sim-" + module)
    try:
        for name in os.listdir(tlc.SPEC):
            if name.endswith(".tla") or name.endswith(".cfg"):
                shutil.copy(os.path.join(tlc.SPEC, name), d)
        if cfg_subst:
            text = open(os.path.join(d, cfg)).read()
            for old, new in cfg_subst.items():
                if old not in text:
                    raise tlc.TLCError("configuration %s has no %r to substitute" % (cfg, old))
                text = text.replace(old, new)
            open(os.path.join(d, cfg), "w").write(text)
        out_dir = os.path.join(d, "out")
        os.makedirs(out_dir)
        cmd = ["tlc", "-simulate", "file=%s/tr,num=%d" % (out_dir, num), "-depth", str(depth), "-workers", "1",
               "-seed", str(seed), "-metadir", os.path.join(d, "meta"), "-noGenerateSpecTE", "-config", cfg,
               module + ".tla"]
        proc = subprocess.run(cmd, cwd=d, env=tlc.java_env(), stdout=subprocess.PIPE, stderr=subprocess.STDOUT,
                              text=True, timeout=timeout)
        if "Error:" in proc.stdout and "is violated" in proc.stdout:
            raise tlc.TLCError("simulation of %s found a violation of the design:\n%s" % (module, proc.stdout[-3000:]))
        behaviours = []
        for name in sorted(os.listdir(out_dir), key=lambda n: [int(x) for x in re.findall(r"\d+", n)]):
            text = open(os.path.join(out_dir, name)).read()
            actions: List[Tuple[str, List[str]]] = []
            for line in text.splitlines():
                m = _ACTION.match(line)
                if m and m.group(1) != "Init":
                    args = [a.strip() for a in m.group(2).split(",")] if m.group(2) else []
                    actions.append((m.group(1), args))
            first = text.split("STATE_2 ==")[0]
            behaviours.append({"actions": actions, "first_state": first})
        if not behaviours:
            raise tlc.TLCError("simulation of %s produced no behaviours:\n%s" % (module, proc.stdout[-2000:]))
        return behaviours
    finally:
        shutil.rmtree(d, ignore_errors=True)


def select_diverse(behaviours: List[Dict[str, Any]], k: int, stim: Any) -> List[Dict[str, Any]]:
    """Random walks are mostly short and alike.  From a large sample keep k behaviours chosen greedily for
    new coverage: features are the windows of three consecutive stimulus actions (with their parameters),
    every (action, number of earlier stimuli / 4) position, and the number of stimuli."""
    feats = []
    for beh in behaviours:
        seq = [(n, tuple(a)) for n, a in beh["actions"] if n in stim]
        f = set()
        for i in range(len(seq)):
            f.add(("w3",) + tuple(seq[i:i + 3]))
            f.add(("pos", seq[i], i // 4))
        f.add(("len", len(seq)))
        feats.append(f)
    chosen: List[int] = []
    covered: set = set()
    left = set(range(len(behaviours)))
    while left and len(chosen) < k:
        best = max(left, key=lambda i: (len(feats[i] - covered), len(feats[i]), -i))
        if not feats[best] - covered and len(chosen) >= k // 2:
            break
        chosen.append(best)
        covered |= feats[best]
        left.discard(best)
    return [behaviours[i] for i in sorted(chosen)]


H1_STIM = {"ClientSend", "ClientEof", "ClientReset", "TransportFail", "Terminate", "Tick", "AppRecv", "AppSendStart",
           "AppSendBody", "AppExit"}
H2_STIM = {"AppPush", "AppEnd", "WindowUpdateStream", "WindowUpdateConn", "Reset", "ConnClose"}


# ------------------------------------------------------------------------------------------
# H1Conn -> HTTP/1 scripts

def h1_plan(first_state: str) -> List[Dict[str, Any]]:
    m = re.search(r"plan = <<(.*?)>>\s*$", first_state, re.S | re.M)
    recs = re.findall(r"\[body \|-> (\d+), close \|-> (TRUE|FALSE)\]", first_state.split("plan =")[1])
    return [{"body": int(b), "close": c == "TRUE"} for b, c in recs]


def h1_script_from_behaviour(beh: Dict[str, Any], ka_ticks: int, tick_s: float, cfg: Dict[str, Any],
                             fam: str) -> Optional[Dict[str, Any]]:
    plan = h1_plan(beh["first_state"])
    requests = []
    for i, p in enumerate(plan, start=1):
        rq: Dict[str, Any] = {"rid": i, "method": "POST" if p["body"] else "GET", "target": "/m%d" % i}
        if p["body"]:
            rq["body"] = {"framing": "chunked", "len": 3 * p["body"], "chunks": [3] * p["body"]}
        if p["close"]:
            rq["headers"] = [["host", "hypercorn"], ["connection", "close"]]
            rq["wantclose"] = True
        requests.append(rq)
    sc = build.h1_session(requests)
    # token boundaries in wire offsets: H, B..., E per request
    bounds: List[int] = []
    for r, p in zip(sc["reqs"], plan):
        bounds.append(r["head_end"])  # H
        for seg in r["segs"]:
            bounds.append(seg[1] + 2)  # B: chunk data + CRLF
        bounds.append(r["end"])  # E
    # a bodyless request's E has no bytes of its own: ClientSend sends H and E together
    steps: List[Dict[str, Any]] = []
    tok = 0
    toks_per_req = [(2 + p["body"]) for p in plan]
    flat: List[Tuple[int, str]] = []
    for i, p in enumerate(plan):
        flat.append((i, "H"))
        flat += [(i, "B")] * p["body"]
        flat.append((i, "E"))
    exits = 0
    stim = 0
    for name, args in beh["actions"]:
        if name == "ClientSend":
            i, kind = flat[tok]
            n = 2 if (kind == "H" and plan[i]["body"] == 0) else 1
            tok += n
            steps.append({"s": "send", "upto": bounds[tok - 1]})
        elif name == "ClientEof":
            steps.append({"s": "eof"})
        elif name == "ClientReset":
            steps.append({"s": "reset"})
        elif name == "TransportFail":
            steps.append({"s": "fail"})
        elif name == "Terminate":
            steps.append({"s": "shutdown"})
        elif name == "Tick":
            steps.append({"s": "dt", "d": tick_s})
        elif name == "AppRecv":
            steps.append({"s": "op", "app": args[0], "op": ["recv"]})
        elif name == "AppSendStart":
            steps.append({"s": "op", "app": args[0],
                          "op": ["send", {"type": "http.response.start", "status": 200, "headers": []}]})
        elif name == "AppSendBody":
            final = args[1] == "TRUE"
            steps.append({"s": "op", "app": args[0],
                          "op": ["send", {"type": "http.response.body", "pat": [90 + int(args[0]), 0, 2 if final else 3],
                                          "more": not final}]})
        elif name == "AppExit":
            exits += 1
            steps.append({"s": "op", "app": args[0], "op": ["raise"] if exits % 2 == 0 else ["return"]})
        else:
            continue
        stim += 1
    if stim == 0:
        return None
    # body chunks sent by one app in order: fix pattern offsets so that they concatenate
    offs: Dict[str, int] = {}
    for st in steps:
        if st["s"] == "op" and st["op"][0] == "send" and "pat" in st["op"][1]:
            spec = st["op"][1]
            off = offs.get(st["app"], 0)
            spec["pat"] = [spec["pat"][0], off, spec["pat"][2]]
            offs[st["app"]] = off + spec["pat"][2]
    sc.update({"carrier": "h1", "plan": plan, "cfg": dict(cfg, keep_alive_timeout=ka_ticks * tick_s),
               "apps": {"*": [["remote"]]}, "steps": steps, "fam": fam})
    return sc


def gen_h1_from_spec(tier: str, rng, cfg_name: str = "MC_H1Conn_sim.cfg") -> Iterator[Dict[str, Any]]:
    # Random walks with every fault enabled end early (a fault is as likely as a useful step), so the
    # environment is varied: no fault at all (pipelines, full queues, recycling, expiry), one kind each, all.
    mixes = [("none", "{}", 3), ("eof", '{"eof"}', 1), ("reset", '{"reset"}', 1), ("fail", '{"fail"}', 1),
             ("term", '{"term"}', 1), ("all", '{"eof", "reset", "fail", "term"}', 1)]
    unit = 20 if tier == "quick" else 400
    for label, faults, weight in mixes:
        seed = rng.randrange(1, 1 << 30)
        behaviours = simulate("MC_H1Conn", cfg_name, num=unit * weight * 8, depth=120, seed=seed,
                              cfg_subst={'Faults = {"eof", "reset", "fail", "term"}': "Faults = %s" % faults})
        behaviours = select_diverse(behaviours, unit * weight, H1_STIM)
        for beh in behaviours:
            sc = h1_script_from_behaviour(beh, ka_ticks=2, tick_s=1.0,
                                          cfg={"max_app_queue_size": 1, "keep_alive_max_requests": 2},
                                          fam="tlc/H1Conn/sim-" + label)
            if sc is not None:
                yield sc


# ------------------------------------------------------------------------------------------
# H2Conn -> HTTP/2 scripts (one model unit = 16 384 bytes)

UNIT = 16384


def h2_script_from_behaviour(beh: Dict[str, Any], init_win: int, chunk_units: int, fam: str,
                             streams: Optional[List[int]] = None, max_chunks: int = 3) -> Optional[Dict[str, Any]]:
    streams = streams or [1, 3]
    # one byte of connection-level credit makes the default connection window (65 535) the model's 4 units
    steps: List[Dict[str, Any]] = [{"s": "h2", "op": "wupd", "stream": 0, "n": 1}]
    for i, sid in enumerate(streams):
        steps.append(build.h2_headers(i + 1, sid, "GET", toks=[["/t%d" % sid, "/t%d" % sid]]))
    rid_of = {str(sid): str(i + 1) for i, sid in enumerate(streams)}
    for rid in rid_of.values():
        steps.append({"s": "op", "app": rid, "op": ["recv"]})
        steps.append({"s": "op", "app": rid, "op": ["send", {"type": "http.response.start", "status": 200, "headers": []}]})
    offs: Dict[str, int] = {}
    stim = 0
    for name, args in beh["actions"]:
        if name == "AppPush":
            rid = rid_of[args[0]]
            off = offs.get(rid, 0)
            n = chunk_units * UNIT
            steps.append({"s": "op", "app": rid, "op": ["send", {"type": "http.response.body", "pat": [110 + int(rid), off, n], "more": True}]})
            offs[rid] = off + n
        elif name == "AppEnd":
            rid = rid_of[args[0]]
            steps.append({"s": "op", "app": rid, "op": ["send", {"type": "http.response.body", "more": False}]})
        elif name == "WindowUpdateStream":
            steps.append({"s": "h2", "op": "wupd", "stream": int(args[0]), "n": int(args[1]) * UNIT})
        elif name == "WindowUpdateConn":
            steps.append({"s": "h2", "op": "wupd", "stream": 0, "n": int(args[0]) * UNIT})
        elif name == "Reset":
            steps.append({"s": "h2", "op": "rst", "stream": int(args[0])})
        elif name == "ConnClose":
            steps.append({"s": "eof"})
        else:
            continue
        stim += 1
    if stim == 0:
        return None
    steps.append({"s": "dt", "d": 0.05})
    return {"carrier": "h2", "cfg": {}, "apps": {"*": [["remote"]]}, "steps": steps, "fam": fam, "autoack": False,
            "maxchunk": chunk_units * UNIT, "h2_settings": {"4": init_win * UNIT}, "bodies": {},
            "design": {"streams": "OneStream" if len(streams) == 1 else "TwoStreams", "init_win": init_win,
                       "max_chunks": max_chunks}}


def gen_h2_from_spec(tier: str, rng, cfg_name: str = "MC_H2Conn_sim.cfg") -> Iterator[Dict[str, Any]]:
    num = 60 if tier == "quick" else 1250
    # small stream windows (the stream window is what runs out) and large ones (the connection window does)
    # ... and, as for H1Conn, with and without the events that end a walk early
    for init_win in (1, 6):
        for label, faults, share in (("credit-only", "{}", 2), ("rst", '{"rst"}', 1), ("all", '{"rst", "close"}', 1)):
            seed = rng.randrange(1, 1 << 30)
            n = max(1, num * share // 4)
            behaviours = simulate("MC_H2Conn", cfg_name, num=n * 8, depth=150, seed=seed,
                                  cfg_subst={"InitWin = 1": "InitWin = %d" % init_win,
                                             'Faults = {"rst", "close"}': "Faults = %s" % faults})
            behaviours = select_diverse(behaviours, n, H2_STIM)
            for beh in behaviours:
                sc = h2_script_from_behaviour(beh, init_win=init_win, chunk_units=2,
                                              fam="tlc/H2Conn/sim-w%d-%s" % (init_win, label))
                if sc is not None:
                    yield sc


# ------------------------------------------------------------------------------------------
# the complete state graph of a one-stream instance, folded into stimulus words (harness/graph_tests.py)

H2_SERVER = {"Pick", "Wake", "SendData", "EndCheck", "AppPushResume", "AppDrainResume"}
_LABEL = re.compile(r"^(\w+)(?:\(([^)]*)\))?$")


def _h2_graph_cfg(init_win: int, credit: int) -> str:
    return ("SPECIFICATION Spec\nCONSTANTS\n  Streams <- OneStream\n  MaxChunks = 3\n  Chunk = 2\n  InitWin = %d\n"
            "  ConnWin = 4\n  MaxCredit = %d\n  Faults = {\"rst\", \"close\"}\n  Dev <- CodeDev\nCHECK_DEADLOCK FALSE\n"
            % (init_win, credit))


def gen_h2_from_graph(tier: str, rng) -> Iterator[Dict[str, Any]]:
    from . import graph_tests

    for init_win, credit in ((6, 4), (1, 5)):
        words = graph_tests.cached_words("MC_H2Conn", _h2_graph_cfg(init_win, credit), H2_SERVER)[0][1]
        if tier == "quick" and len(words) > 150:
            words = rng.sample(words, 150)
        for w in words:
            actions = []
            for label in w:
                m = _LABEL.match(label)
                actions.append((m.group(1), [x.strip() for x in m.group(2).split(",")] if m.group(2) else []))
            sc = h2_script_from_behaviour({"actions": actions}, init_win=init_win, chunk_units=2,
                                          fam="tlc/H2Conn/graph-w%d" % init_win, streams=[1], max_chunks=3)
            if sc is not None:
                yield sc


# ------------------------------------------------------------------------------------------
# H2Up (receive side): words over ClientSend / AppRecv / AppAnswer from the complete graph of a two-stream
# instance with the code's own deviation (a put on the queue of an application that has answered blocks).
# One unit = one DATA frame of 16 383 bytes: four of them are the server's 65 535-byte windows.

H2UP_SERVER = {"Read", "ReaderPut", "ReaderReleased", "Flush"}
UP_UNIT = 16383


def _h2up_graph_cfg() -> str:
    return ("SPECIFICATION Spec\nCONSTANTS\n  Streams <- TwoStreams\n  Upload = 3\n  ConnWin = 4\n  StreamWin = 4\n"
            "  QCap = 1\n  MaxPad = 0\n  Dev <- CodeDev\nCHECK_DEADLOCK FALSE\n")


def h2up_script_from_word(word: List[str], fam: str) -> Optional[Dict[str, Any]]:
    sids = [1, 3]
    rid_of = {"1": "1", "3": "2"}
    steps: List[Dict[str, Any]] = []
    for sid in sids:
        steps.append(build.h2_headers(int(rid_of[str(sid)]), sid, "POST", toks=[["/u%d" % sid, "/u%d" % sid]], end=False,
                                      total=10 * UP_UNIT))
    steps.append({"s": "dt", "d": 0.01})
    sent: Dict[str, int] = {}
    answered = set()
    for label in word:
        m = _LABEL.match(label)
        name, args = m.group(1), ([x.strip() for x in m.group(2).split(",")] if m.group(2) else [])
        if name == "ClientSend":
            rid = rid_of[args[0]]
            off = sent.get(rid, 0)
            steps.append({"s": "h2", "op": "data", "stream": int(args[0]), "pat": [120 + int(rid), off, UP_UNIT], "end": False})
            sent[rid] = off + UP_UNIT
        elif name == "AppRecv":
            steps.append({"s": "op", "app": rid_of[args[0]], "op": ["recv"]})
        elif name == "AppAnswer":
            rid = rid_of[args[0]]
            answered.add(rid)
            steps.append({"s": "op", "app": rid, "op": ["send", {"type": "http.response.start", "status": 200, "headers": []}]})
            steps.append({"s": "op", "app": rid, "op": ["send", {"type": "http.response.body", "pat": [130 + int(rid), 0, 2], "more": False}]})
        else:
            return None
    steps.append({"s": "dt", "d": 0.05})
    return {"carrier": "h2", "cfg": {"max_app_queue_size": 1}, "apps": {"*": [["remote"]]}, "steps": steps, "fam": fam,
            "bodies": {rid: [120 + int(rid), 10 * UP_UNIT] for rid in ("1", "2")}}


def gen_h2up_from_graph(tier: str, rng) -> Iterator[Dict[str, Any]]:
    from . import graph_tests

    words = graph_tests.cached_words("MC_H2Up", _h2up_graph_cfg(), H2UP_SERVER)[0][1]
    if tier == "quick" and len(words) > 150:
        words = rng.sample(words, 150)
    for w in words:
        sc = h2up_script_from_word(w, "tlc/H2Up/graph")
        if sc is not None:
            yield sc


H1_SERVER = {"ReadData", "NextEvent", "ReaderPut", "ReaderReleased", "ReaderResume", "ReaderClosing", "MicroStep",
             "IdleFire", "IdleEnd", "HandlerExit", "TransportDeath"}


def _h1_graph_cfg(faults: str) -> str:
    return ("SPECIFICATION Spec\nCONSTANTS\n  MaxReq = 2\n  MaxBody = 1\n  QueueCap = 1\n  KAMax = 2\n  KATimeout = 1\n"
            "  MaxT = 1\n  Plans <- QuickPlans\n  Dev <- CodeDev\n  Faults = %s\nCONSTRAINT Bound\nCHECK_DEADLOCK FALSE\n" % faults)


def gen_h1_from_graph(tier: str, rng) -> Iterator[Dict[str, Any]]:
    """Thorough tier only (the graphs have 0.2 - 0.5 M states; dumping one takes 0.5 - 1.5 min)."""
    if tier != "thorough":
        return
    from . import graph_tests

    for label, faults in (("none", "{}"), ("eof", '{"eof"}'), ("reset", '{"reset"}'), ("fail", '{"fail"}'), ("term", '{"term"}')):
        for text, words in graph_tests.cached_words("MC_H1Conn", _h1_graph_cfg(faults), H1_SERVER):
            for w in words:
                actions = []
                for lab in w:
                    m = _LABEL.match(lab)
                    actions.append((m.group(1), [x.strip() for x in m.group(2).split(",")] if m.group(2) else []))
                sc = h1_script_from_behaviour({"actions": actions, "first_state": text}, ka_ticks=1, tick_s=1.0,
                                              cfg={"max_app_queue_size": 1, "keep_alive_max_requests": 2},
                                              fam="tlc/H1Conn/graph-" + label)
                if sc is not None:
                    sc["design"] = {"ka": 1}
                    yield sc


# ------------------------------------------------------------------------------------------
# WSock: every action includes the server's reaction, so every edge of the graph is a stimulus.
# One word per edge (harness/graph_tests.edge_words); ClientFragment's parameters are read off the
# target state.

WS_UNIT = 10


def _ws_graph_cfg() -> str:
    return "SPECIFICATION Spec\nCONSTANTS\n  MaxMsgs = 2\n  MaxSize = 2\n  Limit = 1\n  Dev <- NoDev\nCHECK_DEADLOCK FALSE\n"


def _ws_field(text: str, name: str) -> str:
    m = re.search(r"/\\\\ %s = (.*?)(?:\\n|\",style|\"\])" % re.escape(name), text)
    return m.group(1) if m else ""


def _ws_cmsg(text: str) -> Dict[str, Any]:
    raw = _ws_field(text, "cmsg")
    out = {"kind": re.search(r'kind \|-> \\"(\w*)\\"', raw).group(1)}
    for k in ("n", "size", "sent"):
        out[k] = int(re.search(r"%s \|-> (\d+)" % k, raw).group(1))
    return out


def ws_script_from_word(word: List[Any], texts: Dict[str, str], first: str, carrier: str, fam: str) -> Dict[str, Any]:
    from . import gen_ws

    steps: List[Dict[str, Any]] = []
    prev = first
    nsend = 0
    for label, target in word:
        m = _LABEL.match(label)
        name, args = m.group(1), ([x.strip() for x in m.group(2).split(",")] if m.group(2) else [])
        if name == "AppAccept":
            steps.append({"s": "op", "app": "1", "op": ["send", {"type": "websocket.accept"}]})
        elif name == "AppSendMsg":
            nsend += 1
            steps.append({"s": "op", "app": "1", "op": ["send", {"type": "websocket.send", "pat": [60, 3 * nsend, 3],
                                                                 "text": nsend % 2 == 1}]})
        elif name == "AppClose":
            steps.append({"s": "op", "app": "1", "op": ["send", {"type": "websocket.close", "code": int(args[0])}]})
        elif name == "AppRecv":
            steps.append({"s": "op", "app": "1", "op": ["recv"]})
        elif name == "ClientFragment":
            a, b = _ws_cmsg(texts[prev]), _ws_cmsg(texts[target])
            first_frag = not (a["n"] == b["n"] and a["n"] != 0 and a["sent"] < a["size"])
            part = b["sent"] - (0 if first_frag else a["sent"])
            steps.append({"s": "ws", "op": "frag", "kind": b["kind"], "pid": 20 + b["n"], "len": part * WS_UNIT,
                          "first": first_frag, "fin": b["sent"] == b["size"]})
        elif name == "ClientClose":
            code = int(args[0])
            steps.append({"s": "ws", "op": "close", "code": None if code == 1005 else code})
        elif name == "ConnLost":
            steps.append({"s": "eof"})
        elif name == "EarlyData":
            steps.append({"s": "ws_early", "pid": 40, "len": 4})
        else:
            raise AssertionError(label)
        prev = target
    steps.append({"s": "dt", "d": 0.05})
    sc = gen_ws.ws_session(carrier, 1, steps, [["remote"]], fam, cfg={"websocket_max_message_size": WS_UNIT})
    if carrier == "h2":
        for st in sc["steps"]:
            if st.get("s") == "ws":
                st["stream"] = 1
    return sc


def gen_ws_from_graph(tier: str, rng) -> Iterator[Dict[str, Any]]:
    from . import graph_tests

    inits, adj, texts = graph_tests.dump_graph("MC_WSock", _ws_graph_cfg(), labels=True)
    for node, text in inits:
        if "acceptFails = TRUE" in text:
            continue  # the carrier refusing the handshake response cannot be provoked from outside any more
        words = graph_tests.edge_words(node, adj)
        if tier == "quick" and len(words) > 120:
            # (the few words of the rarest action are not left to the sample)
            rare = [w for w in words if any(lab.startswith("EarlyData") for lab, _ in w)]
            words = rare + rng.sample([w for w in words if w not in rare], 120 - len(rare))
        for i, w in enumerate(words):
            early = any(lab.startswith("EarlyData") for lab, _ in w)   # (driven on the HTTP/1.1 carrier only)
            carrier = "h1" if (tier == "thorough" or i % 3 or early) else "h2"
            yield ws_script_from_word(w, texts, node, carrier, "tlc/WSock/graph-%s" % carrier)
            if tier == "thorough" and i % 4 == 0 and not early:
                yield ws_script_from_word(w, texts, node, "h2", "tlc/WSock/graph-h2")
