"""Client side of an execution: feeds bytes to the server and observes what it writes.

The client objects own the *independent parsers* (strict HTTP/1 response parser, h2
client state machine + raw frame decoder, wsproto client) that turn server output into
`wire` observation events.
"""
from __future__ import annotations

from typing import Any, Dict, List, Optional

from .common import hdrs_str, pat, tpat
from .h1parse import H1RespParser


def build_stream(parts: List[Dict[str, Any]]) -> bytes:
    out = bytearray()
    for p in parts:
        if "raw" in p:
            out.extend(p["raw"].encode("latin1"))
        elif "pat" in p:
            out.extend(pat(*p["pat"]))
        elif "hex" in p:
            out.extend(bytes.fromhex(p["hex"]))
        else:
            raise AssertionError(p)
    return bytes(out)


class RespBodies:
    """What each application instance has passed to send() as response body, in order."""

    def __init__(self) -> None:
        self.sent: Dict[str, bytearray] = {}

    def note(self, rid: str, data: bytes) -> None:
        self.sent.setdefault(rid, bytearray()).extend(data)

    def expected(self, rid: str, off: int, length: int) -> bytes:
        buf = self.sent.get(rid, bytearray())
        if off + length > len(buf):
            return b"\x00<more-than-the-application-sent>"
        return bytes(buf[off : off + length])


class H1Client:
    def __init__(self, sess) -> None:
        self.sess = sess
        script = sess.script
        self.stream = build_stream(script.get("stream", []))
        self.reqs: List[Dict[str, Any]] = script.get("reqs", [])
        self.pos = 0
        self.parser = H1RespParser()
        self.announced = 0  # requests whose first byte has been fed
        self.resp_rid_idx = 0
        self.ws = None  # WSPeer after a websocket switch
        self.h2 = None  # H2Peer after an h2c switch
        self.progress: Dict[str, Any] = {}
        self._early_logged = False

    # -- feeding -------------------------------------------------------------------------
    def step(self, st: Dict[str, Any]):
        s = st["s"]
        if self.h2 is not None and s in ("h2",):
            return self.h2.step(st)
        if s == "send":
            if "upto" in st:
                upto = min(st["upto"], len(self.stream))
            elif "n" in st:
                upto = min(self.pos + st["n"], len(self.stream))
            else:
                upto = len(self.stream)
            self.feed_upto(upto)
        elif s == "ws":
            return self.ws_client().step(st)
        elif s == "ws_early":
            # a WebSocket frame written before the server answered the handshake
            from .wsclient import OP, frame

            text = tpat(st["pid"], 0, st["len"])
            rid = str(st.get("app", "1"))
            sent = self.sess.ws_sent.setdefault(rid, [])
            sent.append({"kind": "text", "payload": text})
            data = frame(OP["text"], text.encode())
            self.sess.trace.log("c_send", upto=self.pos, n=len(data), reqs=[], cerr=False)
            self.sess.trace.log("c_ws", app=rid, kind="text", mid=len(sent), size=len(text), over=False, frags=1, early=True)
            self.sess.env.feed(data)
        elif s == "ws?":
            # only a client whose handshake was accepted goes on to send messages
            return self.ws.step(dict(st, s="ws")) if self.ws is not None else None
        else:
            raise AssertionError("unknown step %r" % (st,))

    def feed_upto(self, upto: int) -> None:
        data = self.stream[self.pos : upto]
        self.pos = upto
        # tell the response observer about every request the client has begun
        for r in self.reqs:
            if r["start"] < upto and not r.get("_announced"):
                r["_announced"] = True
                self.parser.expect(r["method"], r.get("upgrade", ""))
        changed = []
        for r in self.reqs:
            prog = self.req_progress(r, upto)
            if self.progress.get(r["rid"]) != prog:
                self.progress[r["rid"]] = prog
                changed.append(dict(prog, app=r["rid"]))
        cerr = upto > self.sess.script.get("cerr_at", 1 << 30)
        self.sess.trace.log("c_send", upto=upto, n=len(data), reqs=changed, cerr=cerr)
        ew = self.sess.script.get("early_ws")
        if ew and upto >= ew["end"] and not self._early_logged:
            # a WebSocket message the client wrote right behind its opening handshake
            self._early_logged = True
            text = tpat(ew["pid"], 0, ew["len"])
            self.sess.ws_sent.setdefault(ew["rid"], []).append({"kind": "text", "payload": text})
            self.sess.trace.log("c_ws", app=ew["rid"], kind="text", mid=1, size=len(text), over=False, frags=1)
        if data:
            self.sess.env.feed(data)

    @staticmethod
    def req_progress(r: Dict[str, Any], upto: int) -> Dict[str, Any]:
        body = 0
        for wstart, wend, poff in r.get("segs", []):
            if upto >= wend:
                body = poff + (wend - wstart)
            elif upto > wstart:
                body = poff + (upto - wstart)
        return {"head": upto >= r["head_end"], "body": body, "done": upto >= r["end"], "begun": upto > r["start"]}

    # -- observing -----------------------------------------------------------------------
    def current_rid(self) -> str:
        i = self.parser.resp_index
        return self.reqs[i]["rid"] if i < len(self.reqs) else "none"

    def on_wire(self, data: bytes) -> None:
        log = self.sess.trace.log
        if self.ws is not None:
            self.ws.on_wire(data)
            return
        if self.h2 is not None:
            self.h2.on_wire(data)
            return
        rid = self.current_rid()
        for ev in self.parser.feed(data):
            k = ev["k"]
            if k == "head":
                log(
                    "wire",
                    kind="head",
                    app=rid,
                    status=ev["status"],
                    headers=[[n, v, n.lower()] for n, v in ev["headers"]],
                    framing=ev["framing"],
                    ver=ev["version"],
                    close=ev["close"],
                    cl=ev["cl"],
                )
            elif k == "info":
                log(
                    "wire",
                    kind="info",
                    app=rid,
                    status=ev["status"],
                    headers=[[n, v, n.lower()] for n, v in ev["headers"]],
                )
            elif k == "data":
                exp = self.sess.resp.expected(rid, ev["off"], len(ev["data"]))
                log(
                    "wire",
                    kind="data",
                    app=rid,
                    off=ev["off"],
                    len=len(ev["data"]),
                    match=(exp == ev["data"]),
                )
            elif k == "trailer":
                log("wire", kind="trailers", app=rid, headers=[[n, v, n.lower()] for n, v in ev["headers"]])
            elif k == "end":
                log("wire", kind="end", app=rid)
                rid = self.current_rid()
            elif k == "switch":
                log("wire", kind="switch", app=rid, to=ev["to"])
                rest = self.parser.switched_rest
                if ev["to"] == "websocket":
                    from .wsclient import WSPeer

                    self.ws = WSPeer(self.sess, rid, self.sess.env.feed)
                    self.ws.accept_response(self.parser_last_info_headers(rid))
                    if rest:
                        self.ws.on_wire(rest)
                elif ev["to"] == "h2c":
                    from .h2client import H2Peer

                    self.h2 = H2Peer(self.sess, upgrade_rid=rid)
                    # after the 101 the client sends its connection preface (RFC 7540 3.2)
                    self.sess.trace.log("c_frame", kind="preface", stream=0, n=len(self.h2.pending_preface), app="conn")
                    self.sess.env.feed(self.h2.pending_preface)
                    if rest:
                        self.h2.on_wire(rest)
            elif k == "error":
                log("wire", kind="error", app=rid, why=ev["why"])

    def parser_last_info_headers(self, rid: str) -> List[List[str]]:
        for ev in reversed(self.sess.trace.events):
            if ev["e"] == "wire" and ev.get("kind") == "info" and ev.get("status") == 101:
                return ev["headers"]
        return []

    def on_close(self) -> None:
        """Server closed the transport."""
        rid = self.current_rid()
        if self.ws is not None or self.h2 is not None:
            return
        for ev in self.parser.eof():
            if ev["k"] == "end":
                self.sess.trace.log("wire", kind="end", app=rid, by="close")
            elif ev["k"] == "truncated":
                self.sess.trace.log("wire", kind="truncated", app=rid, where=ev["in"])

    def fed(self, index: int, n: int) -> None:
        if self.h2 is not None:
            self.h2.fed(index, n)
        elif self.ws is not None:
            self.ws.fed(index, n)
        else:
            self.sess.trace.log("c_send", upto=self.pos, n=n, reqs=[], cerr=False)

    def flush_pending(self) -> None:
        if self.h2 is not None:
            self.h2.flush_pending()
        elif self.ws is not None:
            self.ws.flush_logs()

    def ws_client(self):
        if self.ws is None:
            raise AssertionError("websocket step before the 101 was observed")
        return self.ws


def make_client(sess):
    carrier = sess.carrier
    if carrier in ("h1",):
        return H1Client(sess)
    if carrier in ("h2", "h2prior"):
        from .h2client import H2Peer

        return H2Peer(sess)
    raise AssertionError("unknown carrier %r" % carrier)
