"""Stimulus scripts for the worker-level harness (harness/worker_env.py): C14, C15, C18 (worker part).

Each generator yields complete scripts (JSON-able dicts); `fam` names the family.
All times in scripts are virtual milliseconds."""
from __future__ import annotations

import itertools
import random
from typing import Any, Dict, Iterator, List, Optional, Tuple

CFG = {"graceful": 3000, "startup_to": 2000, "shutdown_to": 1000, "ka": 5000,
       "max_requests": -1, "jitter": 0}

STARTUPS = ["complete", "failed", "failed-keeps-running", "raise", "raise-after-recv", "return",
            "return-after-recv", "return-after-complete", "hang", "unknown"]
GATED_STARTUPS = ["complete", "failed", "failed-keeps-running", "raise-after-recv", "return-after-recv",
                  "return-after-complete", "unknown"]  # behaviours that first receive lifespan.startup
SHUTDOWNS = ["complete", "complete-then-recv", "failed", "raise", "hang", "return"]

QUICK = [["start", 200, 2], ["body", 2, False]]


def slow(ms: int, first: int = 3, last: int = 4) -> List[Any]:
    """response whose second half comes `ms` later"""
    return [["start", 200, first + last], ["body", first, True], ["sleep", ms], ["body", last, False]]


def gated(first: int = 3, last: int = 4) -> List[Any]:
    """response whose second half waits for a gate the script may never open"""
    return [["start", 200, first + last], ["body", first, True], ["gate"], ["body", last, False]]


def cfg(**kw: Any) -> Dict[str, Any]:
    out = dict(CFG)
    out.update(kw)
    return out


def connect(c: int) -> Dict[str, Any]:
    return {"s": "connect", "c": c}


def send(c: int, rid: str, part: str = "all", **kw: Any) -> Dict[str, Any]:
    st = {"s": "send", "c": c, "rid": rid, "part": part}
    st.update(kw)
    return st


def dt(ms: int) -> Dict[str, Any]:
    return {"s": "dt", "ms": ms}


def go(gate: str, n: int = 1) -> Dict[str, Any]:
    return {"s": "go", "gate": gate, "n": n}


TRIGGER = {"s": "trigger"}


def close(c: int) -> Dict[str, Any]:
    return {"s": "close", "c": c}


def script(fam: str, steps: List[Dict[str, Any]], life: Optional[Dict[str, Any]] = None,
           apps: Optional[Dict[str, Any]] = None, prelisten: bool = False, seed: int = 0,
           **cfg_kw: Any) -> Dict[str, Any]:
    lf = {"startup": "complete", "shutdown": "complete"}
    lf.update(life or {})
    return {"fam": fam, "cfg": cfg(**cfg_kw), "prelisten": prelisten, "seed": seed, "life": lf,
            "apps": apps or {}, "steps": steps}


# ------------------------------------------------------------------------------------------
# C14
# ------------------------------------------------------------------------------------------
def gen_c14(tier: str, rng: random.Random) -> Iterator[Dict[str, Any]]:
    thorough = tier == "thorough"
    prelistens = [False, True]
    # -- A. every start-up behaviour x connection attempts before / after the outcome ----------
    for st in STARTUPS:
        for pre in prelistens:
            # attempts only after the start-up outcome, one more after startup_timeout has passed
            steps = [dt(100), connect(1), send(1, "r1"), dt(CFG["startup_to"] + 500),
                     connect(2), send(2, "r2"), send(1, "r3"), dt(500), TRIGGER,
                     dt(CFG["graceful"] + CFG["shutdown_to"] + 1500)]
            yield script("c14/startup/%s/attempt-after" % st, steps, {"startup": st}, prelisten=pre)
        if st in GATED_STARTUPS:
            for pre in prelistens:
                # attempts while lifespan.startup is pending, then the outcome, then more attempts
                steps = [connect(1), send(1, "r1"), dt(300), connect(2), go("life"), dt(10),
                         send(2, "r2"), connect(3), send(3, "r3"), dt(CFG["startup_to"] + 500),
                         connect(4), send(4, "r4"), dt(200), TRIGGER,
                         dt(CFG["graceful"] + CFG["shutdown_to"] + 1500)]
                yield script("c14/startup/%s/attempt-during" % st, steps, {"startup": st, "gate": True},
                             prelisten=pre)
            if thorough:
                for pre in prelistens:
                    for late in (CFG["startup_to"] - 1, CFG["startup_to"] + 1):
                        # the answer arrives just before / just after startup_timeout
                        steps = [connect(1), dt(late), go("life"), dt(10), connect(2), send(2, "r2"),
                                 dt(1000), connect(3), send(3, "r3"), TRIGGER,
                                 dt(CFG["graceful"] + CFG["shutdown_to"] + 1500)]
                        yield script("c14/startup/%s/answer-at-%d" % (st, late), steps,
                                     {"startup": st, "gate": True}, prelisten=pre)
        if st == "hang":
            for pre in prelistens:
                steps = [connect(1), send(1, "r1"), dt(CFG["startup_to"] - 100), connect(2), send(2, "r2"),
                         dt(200), connect(3), send(3, "r3"), dt(3000), connect(4), send(4, "r4"),
                         TRIGGER, dt(CFG["graceful"] + CFG["shutdown_to"] + 1500)]
                yield script("c14/startup/hang/attempts-around-timeout", steps, {"startup": "hang"},
                             prelisten=pre)
    # -- B. every shutdown behaviour x what is in flight at the trigger --------------------------
    inflight = ["none", "idle", "short", "stuck", "short+stuck"]
    for sd in SHUTDOWNS:
        for fl in inflight:
            for sd_gate in ([False, True] if (thorough or sd == "complete") else [False]):
                apps = {"s1": slow(1000), "k1": gated()}
                steps: List[Dict[str, Any]] = []
                if fl == "idle":
                    steps += [connect(1), send(1, "r1"), dt(50)]
                if "short" in fl:
                    steps += [connect(2), send(2, "s1"), dt(50)]
                if "stuck" in fl:
                    steps += [connect(3), send(3, "k1"), dt(50)]
                steps += [dt(500), TRIGGER, dt(1500)]
                steps += [dt(CFG["graceful"])]
                if sd_gate:
                    steps += [go("life_sd"), dt(100)]
                steps += [dt(CFG["shutdown_to"] + 1500)]
                yield script("c14/shutdown/%s/%s%s" % (sd, fl, "/gated" if sd_gate else ""), steps,
                             {"shutdown": sd, "sd_gate": sd_gate}, apps=apps)
    # shutdown through max_requests, with a request in progress
    for sd in (SHUTDOWNS if thorough else ["complete", "hang"]):
        apps = {"s1": slow(1000)}
        steps = [connect(1), send(1, "s1"), dt(100), connect(2), send(2, "r2"), dt(1500),
                 dt(CFG["graceful"] + CFG["shutdown_to"] + 1500)]
        yield script("c14/shutdown/%s/max-requests" % sd, steps, {"shutdown": sd}, apps=apps, max_requests=1)
    # -- C. state isolation ----------------------------------------------------------------------
    life = {"state": [["boot", "yes"], ["shared", "L"]], "probe": ["boot", "shared", "ka", "kb"]}
    apps = {
        "a1": [["state_get", "boot"], ["state_set", "ka", "A1"], ["state_set", "shared", "A"]] + QUICK,
        "b1": [["state_get", "boot"], ["state_get", "ka"], ["state_get", "shared"],
               ["state_set", "kb", "B1"]] + QUICK,
        "a2": [["state_get", "kb"], ["state_get", "boot"]] + QUICK,
        "c1": [["state_get", "ka"], ["state_get", "kb"], ["state_get", "shared"], ["state_get", "boot"]] + QUICK,
    }
    orders = [
        [connect(1), connect(2), send(1, "a1"), send(2, "b1"), send(1, "a2"), connect(3), send(3, "c1")],
        [connect(1), send(1, "a1"), connect(2), send(2, "b1"), send(1, "a2"), connect(3), send(3, "c1")],
        [connect(1), send(1, "a1"), close(1), connect(2), send(2, "b1"), connect(3), send(3, "c1")],
    ]
    for i, order in enumerate(orders):
        for pre in prelistens:
            steps = order + [dt(100), TRIGGER, dt(CFG["graceful"] + CFG["shutdown_to"] + 1500)]
            yield script("c14/state/order-%d" % i, steps, life, apps=apps, prelisten=pre)
    # concurrent requests on two connections, both in progress while they read and write
    apps2 = {
        "a1": [["state_set", "ka", "A1"], ["gate"], ["state_get", "kb"], ["state_get", "boot"]] + QUICK,
        "b1": [["state_set", "kb", "B1"], ["gate"], ["state_get", "ka"], ["state_get", "boot"]] + QUICK,
    }
    steps = [connect(1), connect(2), send(1, "a1"), send(2, "b1"), go("a1"), go("b1"), dt(100), TRIGGER,
             dt(CFG["graceful"] + CFG["shutdown_to"] + 1500)]
    yield script("c14/state/concurrent", steps, life, apps=apps2)
    if thorough:
        for _ in range(40):
            n = rng.randint(2, 4)
            keys = ["k%d" % i for i in range(3)]
            rapps: Dict[str, Any] = {}
            rsteps: List[Dict[str, Any]] = [connect(c) for c in range(1, n + 1)]
            for j in range(rng.randint(3, 8)):
                c = rng.randint(1, n)
                rid = "q%d" % j
                ops: List[Any] = []
                for _k in range(rng.randint(1, 3)):
                    if rng.random() < 0.5:
                        ops.append(["state_set", rng.choice(keys), "v%d_%d" % (c, j)])
                    else:
                        ops.append(["state_get", rng.choice(keys + ["boot"])])
                rapps[rid] = ops + QUICK
                rsteps.append(send(c, rid))
            rsteps += [dt(100), TRIGGER, dt(CFG["graceful"] + CFG["shutdown_to"] + 1500)]
            yield script("c14/state/random", rsteps, {"state": [["boot", "yes"], ["k0", "L0"]],
                                                      "probe": keys + ["boot"]}, apps=rapps)


# ------------------------------------------------------------------------------------------
# C15
# ------------------------------------------------------------------------------------------
KINDS = ["I", "P", "S", "L"]  # idle keep-alive, partial head, finishing within grace, stuck beyond grace


def c15_script(combo: Tuple[str, ...], source: str, long_kind: str, after: str,
               sd: str = "complete", short_ms: int = 1000, tag: str = "", **cfg_kw: Any) -> Dict[str, Any]:
    """combo: one letter per connection. long_kind: 'sleep' (ends by itself after 30 s) or 'gate'
    (never ends before the wind-down). after: what the clients try after the trigger."""
    apps: Dict[str, Any] = {}
    steps: List[Dict[str, Any]] = []
    nreq = 0
    busy: List[int] = []
    idle: List[int] = []
    for i, kind in enumerate(combo):
        c = i + 1
        steps.append(connect(c))
        if kind == "I":
            steps += [send(c, "i%d" % c)]
            nreq += 1
            idle.append(c)
        elif kind == "P":
            steps += [send(c, "p%d" % c, part="first")]
        elif kind == "S":
            apps["s%d" % c] = slow(short_ms)
            steps += [send(c, "s%d" % c)]
            nreq += 1
            busy.append(c)
        elif kind == "L":
            apps["l%d" % c] = slow(30000) if long_kind == "sleep" else gated()
            steps += [send(c, "l%d" % c)]
            nreq += 1
    steps.append(dt(400))
    cfgd = dict(cfg_kw)
    x = len(combo) + 1
    if source == "callable":
        steps.append(TRIGGER)
    else:
        cfgd["max_requests"] = nreq  # the next request is one too many
        steps += [connect(x), send(x, "x%d" % x)]
    steps.append(dt(10))
    # attempts after the trigger
    y = x + 1
    if after in ("connect", "all"):
        steps += [connect(y), send(y, "n%d" % y)]
    if after in ("request", "all"):
        for c in idle[:1]:
            steps.append(send(c, "ni%d" % c))
        for c in busy[:1]:
            steps.append(send(c, "nb%d" % c))  # pipelined behind the request in progress
        for i, kind in enumerate(combo):
            if kind == "P":
                steps.append(send(i + 1, "p%d" % (i + 1), part="rest"))
                break
    g = cfgd.get("graceful", CFG["graceful"])
    sto = cfgd.get("shutdown_to", CFG["shutdown_to"])
    steps += [dt(short_ms + 200), dt(g + sto + 1500)]
    if "L" in combo and long_kind == "sleep":
        steps.append(dt(31000))
    fam = "c15/%s/%s/%s/%s/%s" % (source, "".join(combo) or "none", long_kind, after, sd)
    if tag:
        fam += "/" + tag
    return script(fam, steps, {"shutdown": sd}, apps=apps, **cfgd)


def gen_c15(tier: str, rng: random.Random) -> Iterator[Dict[str, Any]]:
    thorough = tier == "thorough"
    max_n = 4 if thorough else 3
    combos: List[Tuple[str, ...]] = [()]
    for n in range(1, max_n + 1):
        combos += list(itertools.combinations_with_replacement(KINDS, n))
    for combo in combos:
        for source in ("callable", "max_requests"):
            long_kinds = ["sleep", "gate"] if "L" in combo else ["sleep"]
            for lk in long_kinds:
                afters = ["all"] if not thorough else ["none", "connect", "request", "all"]
                for after in afters:
                    yield c15_script(combo, source, lk, after)
    # lifespan shutdown behaviours under load: the bound includes shutdown_timeout
    for sd in SHUTDOWNS:
        for combo in [(), ("I",), ("S",), ("L",), ("I", "S", "L")]:
            for source in ("callable", "max_requests"):
                yield c15_script(combo, source, "gate", "all", sd=sd)
    # other timeouts (grace shorter than the keep-alive timeout, zero grace, long grace)
    for g, sto in ([(1000, 500), (0, 1000)] + ([(8000, 2000), (500, 0)] if thorough else [])):
        for combo in [("I",), ("S",), ("L",), ("P",), ("I", "S", "L", "P")[:max_n]]:
            for source in ("callable", "max_requests"):
                yield c15_script(combo, source, "gate", "all", short_ms=min(1000, max(g // 2, 1)),
                                 graceful=g, shutdown_to=sto)
    # the two lifespan timeouts far apart, either way round: a lifespan shutdown that never answers is waited
    # for shutdown_timeout (not startup_timeout), one that answers slowly but in time is waited for
    for combo in [(), ("S",), ("L",)]:
        for source in ("callable", "max_requests"):
            yield c15_script(combo, source, "gate", "none", sd="hang", startup_to=9000, shutdown_to=500,
                             tag="timeouts-differ/hang")
            sc = c15_script(combo, source, "gate", "none", sd="complete", startup_to=400, shutdown_to=5000,
                            tag="timeouts-differ/slow-answer")
            sc["life"]["sd_gate"] = True
            # (the shutdown message arrives at the latest graceful after the trigger; the answer 1.5 s later)
            sc["steps"] = sc["steps"][:-1] + [dt(1500), go("life_sd"), dt(5000 + 1500)]
            yield sc
    # a request finishing just inside / just outside the grace period
    for short_ms in ([2900, 3100] + ([1, 2999, 3001, 2000] if thorough else [])):
        for source in ("callable", "max_requests"):
            yield c15_script(("S", "I"), source, "sleep", "none", short_ms=short_ms)
    # a request that ends late in the grace period with a pipelined request parked behind it: on the
    # asyncio worker the wait for the connection and the graceful wait add up
    for short_ms in ([2500] + ([1500, 2900] if thorough else [])):
        for source in ("callable", "max_requests"):
            yield c15_script(("S",), source, "sleep", "request", short_ms=short_ms)
            yield c15_script(("P", "S"), source, "sleep", "all", sd="raise", short_ms=short_ms)
    # several clients finishing at different times
    if thorough:
        for _ in range(60):
            n = rng.randint(1, 5)
            combo = tuple(rng.choice(KINDS) for _ in range(n))
            yield c15_script(combo, rng.choice(["callable", "max_requests"]), rng.choice(["sleep", "gate"]),
                             rng.choice(["none", "connect", "request", "all"]), sd=rng.choice(SHUTDOWNS),
                             short_ms=rng.choice([1, 500, 1500, 2500]),
                             graceful=rng.choice([1000, 3000, 4000]), shutdown_to=rng.choice([0, 1000, 2000]))


# ------------------------------------------------------------------------------------------
# C18 (worker part)
# ------------------------------------------------------------------------------------------
def gen_c18w(tier: str, rng: random.Random) -> Iterator[Dict[str, Any]]:
    thorough = tier == "thorough"
    layouts = ["one-connection", "round-robin-2", "round-robin-3", "connection-per-request"]
    for mr in (0, 1, 2, 5):
        for jit in (0, 2):
            seeds = [0] if jit == 0 else (list(range(16)) if thorough else list(range(8)))
            for seed in seeds:
                for layout in layouts:
                    total = mr + jit + 3
                    steps: List[Dict[str, Any]] = []
                    if layout == "one-connection":
                        conns = [1]
                    elif layout == "round-robin-2":
                        conns = [1, 2]
                    elif layout == "round-robin-3":
                        conns = [1, 2, 3]
                    else:
                        conns = []
                    for c in conns:
                        steps.append(connect(c))
                    for k in range(total):
                        if conns:
                            c = conns[k % len(conns)]
                        else:
                            c = k + 1
                            steps.append(connect(c))
                        steps += [send(c, "q%d" % (k + 1)), dt(10)]
                    steps += [dt(CFG["graceful"] + CFG["shutdown_to"] + 1500)]
                    yield script("c18w/mr%d/j%d/%s" % (mr, jit, layout), steps, seed=seed,
                                 max_requests=mr, jitter=jit, ka=60000)
    # requests that arrive as h2c upgrades (each becomes stream 1 of a new HTTP/2 connection) count like any
    # other, alone and mixed with plain requests
    for mr in (1, 2, 5):
        for mix in ("all-upgraded", "alternating"):
            total = mr + 3
            steps = []
            for k in range(total):
                steps.append(connect(k + 1))
                up = mix == "all-upgraded" or k % 2 == 0
                steps += [send(k + 1, "q%d" % (k + 1), **({"upgrade": "h2c"} if up else {})), dt(10)]
            steps += [dt(CFG["graceful"] + CFG["shutdown_to"] + 1500)]
            yield script("c18w/mr%d/h2c-%s" % (mr, mix), steps, max_requests=mr, ka=60000)
    # a worker started without a shutdown trigger (hypercorn.trio.serve() without one; asyncio always makes its
    # own from the signals, so the option only changes the trio runs) still recycles on its request count
    for mr in (1, 2):
        total = mr + 3
        steps = []
        for k in range(total):
            steps += [connect(k + 1), send(k + 1, "q%d" % (k + 1)), dt(10)]
        steps += [dt(CFG["graceful"] + CFG["shutdown_to"] + 1500)]
        sc = script("c18w/mr%d/no-shutdown-trigger" % mr, steps, max_requests=mr, ka=60000)
        sc["no_trigger"] = True
        yield sc
    # requests in progress while the limit is crossed (counted when taken on, not when finished)
    for mr in (1, 2):
        apps = {"q1": slow(500), "q2": slow(500), "q3": slow(500), "q4": slow(500)}
        steps = [connect(1), connect(2), connect(3), connect(4)]
        for k in range(4):
            steps += [send(k + 1, "q%d" % (k + 1))]
        steps += [dt(1000), dt(CFG["graceful"] + CFG["shutdown_to"] + 1500)]
        yield script("c18w/mr%d/concurrent" % mr, steps, apps=apps, max_requests=mr, ka=60000)
    # no limit configured: any number of requests, no recycling
    steps = [connect(1), connect(2)]
    for k in range(12):
        steps += [send(1 + k % 2, "q%d" % (k + 1)), dt(10)]
    yield script("c18w/unlimited", steps, ka=60000)
    if thorough:
        for _ in range(40):
            mr = rng.choice([0, 1, 2, 3, 5, 8])
            jit = rng.choice([0, 1, 2, 4])
            ncon = rng.randint(1, 4)
            steps = [connect(c) for c in range(1, ncon + 1)]
            for k in range(mr + jit + 3):
                steps += [send(rng.randint(1, ncon), "q%d" % (k + 1)), dt(rng.choice([1, 10, 100]))]
            steps += [dt(CFG["graceful"] + CFG["shutdown_to"] + 1500)]
            yield script("c18w/random", steps, seed=rng.randint(0, 1000), max_requests=mr, jitter=jit, ka=60000)


GENERATORS = {"C14": gen_c14, "C15": gen_c15, "C18W": gen_c18w}


def run_check(prop: str, tier: str = "quick", seed: int = 0, workers: Tuple[str, ...] = ("asyncio", "trio"),
              procs: int = 0, repeat: bool = True) -> Dict[str, Any]:
    """generation + execution on both workers + TLC validation; returns a summary with the
    distinct (clause, ctx) signatures, one sample script (family) per signature and worker."""
    import time

    from . import tlc, worker_env

    t0 = time.time()
    rng = random.Random(seed * 1000003 + sum(ord(ch) for ch in prop))
    scripts = list(GENERATORS[prop](tier, rng))
    jobs = [(sc, w) for sc in scripts for w in workers]
    t1 = time.time()
    traces = worker_env.run_many(jobs, seed=seed, procs=procs)
    unstable = 0
    if repeat:  # determinism self-check: the same script must give the same trace again
        again = worker_env.run_many(jobs, seed=seed, procs=procs)
        unstable = sum(1 for a, b in zip(traces, again) if a != b)
    errors = [(jobs[i][0]["fam"], jobs[i][1], tr["harness_error"]) for i, tr in enumerate(traces)
              if isinstance(tr, dict)]
    good = [(job, tr) for job, tr in zip(jobs, traces) if not isinstance(tr, dict)]
    t2 = time.time()
    verdicts = []
    batch = 400
    for i in range(0, len(good), batch):
        verdicts += tlc.validate_traces(prop, [tr for _, tr in good[i: i + batch]])
    t3 = time.time()
    sigs: Dict[Tuple[str, str, str], Dict[str, Any]] = {}
    for (job, tr), v in zip(good, verdicts):
        for clause, ctx in v["fails"]:
            key = (job[1], clause, ctx)
            ent = sigs.setdefault(key, {"count": 0, "sample": job[0]["fam"], "script": job[0]})
            ent["count"] += 1
    return {"prop": prop, "tier": tier, "scripts": len(scripts), "executions": len(jobs),
            "events": sum(len(tr) for _, tr in good), "harness_errors": errors, "unstable_traces": unstable,
            "gen_s": round(t1 - t0, 2), "exec_s": round(t2 - t1, 2), "tlc_s": round(t3 - t2, 2),
            "signatures": sigs}


if __name__ == "__main__":  # python -m harness.gen_worker C15 [quick|thorough]
    import json
    import os
    import sys

    res = run_check(sys.argv[1], sys.argv[2] if len(sys.argv) > 2 else "quick",
                    int(os.environ.get("VERIF_SEED", "0") or 0))
    sig = res.pop("signatures")
    print(json.dumps(res, indent=1))
    for (worker, clause, ctx), ent in sorted(sig.items()):
        print("%-8s %-30s %-45s x%-4d sample=%s" % (worker, clause, ctx, ent["count"], ent["sample"]))
