"""HTTP/2 client side: an h2 client state machine generates the stimulus frames, and an
independent raw frame decoder (hyperframe + its own HPACK decoder) turns what the server
writes into `wire` observation events, so that header bytes, frame sizes and flow-control
accounting are observed even where the h2 client library would object."""
from __future__ import annotations

from typing import Any, Dict, List, Optional, Tuple

import h2.config
import h2.connection
import h2.events
import h2.exceptions
import h2.settings
import hpack
import hyperframe.frame as hf

from .common import pat

PREFACE = b"PRI * HTTP/2.0\r\n\r\nSM\r\n\r\n"


def _s(x) -> str:
    return bytes(x).decode("latin1") if isinstance(x, (bytes, bytearray)) else str(x)


class RawDecoder:
    """Frame-level parser of the server's output."""

    def __init__(self) -> None:
        self.buf = bytearray()
        self.decoder = hpack.Decoder()
        self.decoder.max_allowed_table_size = 1 << 16
        self.header_block: Optional[Tuple[int, str, bytearray, bool, int]] = None
        self.max_frame = 16384  # what the client announced (SETTINGS_MAX_FRAME_SIZE)

    def feed(self, data: bytes) -> List[Dict[str, Any]]:
        self.buf.extend(data)
        out: List[Dict[str, Any]] = []
        while len(self.buf) >= 9:
            try:
                frame, length = hf.Frame.parse_frame_header(memoryview(bytes(self.buf[:9])))
            except Exception as error:  # unknown frame type etc.
                out.append({"k": "error", "why": "frame header: %s" % type(error).__name__})
                self.buf.clear()
                break
            if len(self.buf) < 9 + length:
                break
            body = bytes(self.buf[9 : 9 + length])
            del self.buf[: 9 + length]
            try:
                frame.parse_body(memoryview(body))
            except Exception as error:
                out.append({"k": "error", "why": "frame body: %s" % type(error).__name__})
                continue
            out.extend(self._frame(frame, length))
        return out

    def _headers_done(self, sid: int, kind: str, block: bytes, end_stream: bool, promised: int) -> Dict[str, Any]:
        try:
            headers = self.decoder.decode(block, raw=True)
        except Exception as error:
            return {"k": "error", "why": "hpack: %s" % type(error).__name__}
        hs = [[_s(n), _s(v)] for n, v in headers]
        ctl = any(any(c in (n + v) for c in "\r\n\x00") for n, v in hs)
        return {"k": kind, "stream": sid, "headers": hs, "end_stream": end_stream, "ctl": ctl, "promised": promised}

    def _frame(self, frame, length: int) -> List[Dict[str, Any]]:
        out: List[Dict[str, Any]] = []
        sid = frame.stream_id
        too_big = length > self.max_frame
        if self.header_block is not None and not isinstance(frame, hf.ContinuationFrame):
            out.append({"k": "error", "why": "expected CONTINUATION"})
            self.header_block = None
        if isinstance(frame, hf.HeadersFrame):
            end_stream = "END_STREAM" in frame.flags
            if "END_HEADERS" in frame.flags:
                out.append(self._headers_done(sid, "headers", frame.data, end_stream, 0))
            else:
                self.header_block = (sid, "headers", bytearray(frame.data), end_stream, 0)
        elif isinstance(frame, hf.PushPromiseFrame):
            if "END_HEADERS" in frame.flags:
                out.append(self._headers_done(sid, "push", frame.data, False, frame.promised_stream_id))
            else:
                self.header_block = (sid, "push", bytearray(frame.data), False, frame.promised_stream_id)
        elif isinstance(frame, hf.ContinuationFrame):
            if self.header_block is None or self.header_block[0] != sid:
                out.append({"k": "error", "why": "unexpected CONTINUATION"})
            else:
                self.header_block[2].extend(frame.data)
                if "END_HEADERS" in frame.flags:
                    hb = self.header_block
                    self.header_block = None
                    out.append(self._headers_done(hb[0], hb[1], bytes(hb[2]), hb[3], hb[4]))
        elif isinstance(frame, hf.DataFrame):
            out.append({"k": "data", "stream": sid, "data": bytes(frame.data), "flow": frame.flow_controlled_length,
                        "end_stream": "END_STREAM" in frame.flags, "too_big": too_big})
        elif isinstance(frame, hf.RstStreamFrame):
            out.append({"k": "rst", "stream": sid, "code": int(frame.error_code)})
        elif isinstance(frame, hf.GoAwayFrame):
            out.append({"k": "goaway", "last": frame.last_stream_id, "code": int(frame.error_code)})
        elif isinstance(frame, hf.SettingsFrame):
            out.append({"k": "settings", "ack": "ACK" in frame.flags,
                        "settings": {int(k): int(v) for k, v in frame.settings.items()}})
        elif isinstance(frame, hf.WindowUpdateFrame):
            out.append({"k": "wupd", "stream": sid, "n": frame.window_increment})
        elif isinstance(frame, hf.PingFrame):
            out.append({"k": "ping", "ack": "ACK" in frame.flags})
        elif isinstance(frame, hf.PriorityFrame):
            out.append({"k": "priority", "stream": sid})
        else:
            out.append({"k": "other", "type": type(frame).__name__})
        return out


class H2Peer:
    """Client for carriers h2 (ALPN), h2prior (cleartext prior knowledge) and after an h2c
    upgrade (upgrade_rid given)."""

    def __init__(self, sess, upgrade_rid: Optional[str] = None) -> None:
        self.sess = sess
        script = sess.script
        self.autoack = bool(script.get("autoack", True))
        self.conn = h2.connection.H2Connection(
            config=h2.config.H2Configuration(client_side=True, header_encoding=None,
                                             validate_inbound_headers=False, validate_outbound_headers=False,
                                             normalize_outbound_headers=False)
        )
        self.raw = RawDecoder()
        self.rid_of: Dict[int, str] = {}
        self.got: Dict[int, int] = {}  # response body bytes seen per stream
        self.sent_preface = False
        self.early = bytearray()
        self.progress: Dict[str, Dict[str, Any]] = {}
        self.h2_error = False
        self.ws: Dict[int, Any] = {}  # websocket peers per stream (extended CONNECT)
        self.server_settings_seen = False
        self.stalled: Dict[int, List[Tuple[Any, ...]]] = {}  # uploads waiting for credit, per stream, in order
        self.ws_pending: Dict[int, bytearray] = {}
        self.feeding = False
        self.methods: Dict[int, str] = {}
        if upgrade_rid is not None:
            self.conn.initiate_upgrade_connection()
            self.sent_preface = True
            self.rid_of[1] = upgrade_rid
            self.pending_preface = self._flush()
            self.methods[1] = "GET"
        init = script.get("h2_settings")
        self.initial_settings = init

    # -- helpers ---------------------------------------------------------------------------
    def _flush(self) -> bytes:
        data = self.conn.data_to_send()
        self._scan_out(data)
        return data

    def _scan_out(self, data: bytes) -> None:
        """Log the flow-control credit the client really grants (WINDOW_UPDATE, SETTINGS)."""
        pos = 0
        if data.startswith(PREFACE):
            pos = len(PREFACE)
        while pos + 9 <= len(data):
            length = int.from_bytes(data[pos : pos + 3], "big")
            ftype = data[pos + 3]
            flags = data[pos + 4]
            sid = int.from_bytes(data[pos + 5 : pos + 9], "big") & 0x7FFFFFFF
            body = data[pos + 9 : pos + 9 + length]
            if ftype == 8 and len(body) == 4:
                n = int.from_bytes(body, "big") & 0x7FFFFFFF
                self.sess.trace.log("c_frame", kind="wupd", stream=sid, n=n, app=self.rid_of.get(sid, "conn"))
            elif ftype == 4 and not (flags & 1):
                vals = []
                for i in range(0, len(body) - 5, 6):
                    vals.append([int.from_bytes(body[i : i + 2], "big"), int.from_bytes(body[i + 2 : i + 6], "big")])
                self.sess.trace.log("c_frame", kind="settings", stream=0, n=0, app="conn", values=vals)
            pos += 9 + length

    def _log_progress(self, rid: str, n: int, **upd: Any) -> None:
        prog = self.progress.setdefault(rid, {"head": False, "body": 0, "done": False, "begun": True})
        if "stall" in upd:
            self.sess.trace.log("c_stall", app=rid, **upd.pop("stall"))
            return
        if "body_add" in upd:
            prog["body"] += upd.pop("body_add")
        prog.update(upd)
        self.sess.trace.log("c_send", upto=0, n=n, reqs=[dict(prog, app=rid)], cerr=False)

    def start(self) -> List[bytes]:
        """Connection preface + SETTINGS."""
        if self.sent_preface:
            return []
        self.sent_preface = True
        if self.initial_settings:
            self.conn.local_settings = h2.settings.Settings(
                client=True, initial_values={int(k): v for k, v in self.initial_settings.items()}
            )
            if 5 in {int(k) for k in self.initial_settings}:
                self.raw.max_frame = int(self.initial_settings.get(5, self.initial_settings.get("5", 16384)))
        self.conn.initiate_connection()
        data = self._flush()
        self.sess.trace.log("c_frame", kind="preface", stream=0, n=len(data), app="conn")
        self.start_bytes = data
        return [data]

    def after_start(self) -> None:
        if self.early:
            early, self.early = bytes(self.early), bytearray()
            self._conn_receive(early)

    # -- stimuli -----------------------------------------------------------------------------
    def step(self, st: Dict[str, Any]) -> Optional[List[bytes]]:
        s = st["s"]
        if s == "ws":
            peer = self.ws.get(st["stream"])
            if peer is None:
                self.sess.trace.log("c_note", text="websocket step skipped: stream has no accepted websocket",
                                    stream=st["stream"], left=0)
                self._cur_ws = None
                self._npieces = 0
                return []
            self._cur_ws = peer
            return peer.step(st)
        self._cur_ws = None
        if s != "h2":
            raise AssertionError("unknown step %r" % (st,))
        op = st["op"]
        log = self.sess.trace.log
        chunks: List[bytes] = []
        started = False
        if not self.sent_preface:
            chunks += self.start()
            started = True
            self.feeding = True
        after: List[Any] = []
        try:
            if op == "preface":
                pass
            elif op == "headers":
                sid = st["stream"]
                rid = str(st["rid"])
                self.rid_of[sid] = rid
                self.methods[sid] = st.get("method", "GET")
                headers = [(n.encode("latin1"), v.encode("latin1")) for n, v in st["hdrs"]]
                self.conn.send_headers(sid, headers, end_stream=bool(st.get("end", False)),
                                       priority_weight=st.get("weight"), priority_depends_on=st.get("depends_on"),
                                       priority_exclusive=st.get("exclusive"))
                after.append((rid, {"head": True, "done": bool(st.get("end", False))}))
            elif op == "data":
                sid = st["stream"]
                rid = self.rid_of.get(sid, "none")
                pid, off, ln = st["pat"]
                payload = pat(pid, off, ln)
                # respect the server's flow-control and frame size like a real client
                sent = 0
                frame = int(st.get("frame", 0)) or None  # payload bytes per DATA frame (default: as large as allowed)
                if self.stalled.get(sid):
                    # the rest of an earlier write is still waiting for credit: this one queues behind it (a
                    # stream's bytes leave in the order they were written)
                    self.stalled[sid].append((sid, pid, off, ln, bool(st.get("end", False)), frame, st.get("pad")))
                    after.append((rid, {"body_add": 0, "done": False}))
                    after.append((rid, {"stall": self._stall_info(sid, sum(seg[3] for seg in self.stalled[sid]))}))
                    ln = -1   # nothing more to do in this step
                while ln >= 0 and (sent < ln or (ln == 0 and sent == 0)):
                    room = min(self.conn.local_flow_control_window(sid), self.conn.max_outbound_frame_size)
                    pad = st.get("pad")
                    if pad is not None and room < pad + 2:
                        pad = None  # a padded frame no longer fits: a client sends what does fit
                    if pad is not None:
                        room -= pad + 1
                    n = min(room, ln - sent, frame or ln)
                    if n <= 0 and ln > 0:
                        break
                    last = sent + n >= ln
                    self.conn.send_data(sid, payload[sent : sent + n], end_stream=bool(st.get("end", False)) and last,
                                        pad_length=pad)
                    sent += n
                    if ln == 0:
                        break
                if ln >= 0:
                    after.append((rid, {"body_add": sent, "done": bool(st.get("end", False)) and sent >= ln}))
                if 0 <= sent < ln:
                    self.stalled[sid] = [(sid, pid, off + sent, ln - sent, bool(st.get("end", False)), frame, st.get("pad"))]
                    after.append((rid, {"stall": self._stall_info(sid, ln - sent)}))
            elif op == "end":
                sid = st["stream"]
                self.conn.end_stream(sid)
                after.append((self.rid_of.get(sid, "none"), {"done": True}))
            elif op == "trailers":
                sid = st["stream"]
                headers = [(n.encode("latin1"), v.encode("latin1")) for n, v in st["hdrs"]]
                self.conn.send_headers(sid, headers, end_stream=True)
                after.append((self.rid_of.get(sid, "none"), {"done": True}))
            elif op == "wupd":
                self.conn.increment_flow_control_window(st["n"], st["stream"] or None)
                pass
            elif op == "settings":
                vals = {int(k): v for k, v in st["values"].items()}
                self.conn.update_settings(vals)
                if 5 in vals:
                    self.raw.max_frame = vals[5]
                pass
            elif op == "rst":
                sid = st["stream"]
                self.conn.reset_stream(sid, st.get("code", 8))
                log("c_rst", app=self.rid_of.get(sid, "none"), stream=sid)
            elif op == "prio":
                self.conn.prioritize(st["stream"], weight=st.get("weight"), depends_on=st.get("depends_on"),
                                     exclusive=st.get("exclusive"))
                log("c_frame", kind="priority", stream=st["stream"], n=0, app="conn")
            elif op == "ping":
                self.conn.ping(b"12345678")
            elif op == "goaway":
                self.conn.close_connection()
                log("c_frame", kind="goaway", stream=0, n=0, app="conn")
            elif op == "raw":
                chunks.append(bytes.fromhex(st["hex"]))
                log("c_frame", kind="raw", stream=st.get("stream", 0), n=len(chunks[-1]), app="conn",
                    legal=bool(st.get("legal", False)), unusual=str(st.get("unusual", "")))
                for rid, upd in st.get("progress", []):
                    after.append((str(rid), dict(upd)))
                if "rid" in st and "stream" in st:
                    self.rid_of[st["stream"]] = str(st["rid"])
            else:
                raise AssertionError("unknown h2 op %r" % op)
        except (h2.exceptions.H2Error, KeyError) as error:
            # the script asked for something the client state machine forbids: record, do not send
            log("c_note", text="client library refused: %s" % type(error).__name__, stream=st.get("stream", 0), left=0)
        data = self._flush()
        if data and op == "headers" and st.get("continuations"):
            data = split_headers_frame(data, st["stream"], int(st["continuations"]))
        if data:
            chunks.append(data)
        data = b"".join(chunks)
        cuts = st.get("cuts")
        pieces: List[bytes]
        if cuts == "bytewise":
            pieces = [data[i : i + 1] for i in range(len(data))]
        elif cuts:
            pts = [0] + [c for c in sorted(set(cuts)) if 0 < c < len(data)] + [len(data)]
            pieces = [data[a:b] for a, b in zip(pts, pts[1:])]
        else:
            pieces = [data] if data else []
        self._after = after
        self._npieces = len(pieces)
        self.feeding = len(pieces) >= 1
        if not pieces and after:
            # nothing could be sent (e.g. an upload against a window of 0): what the step set out to do is
            # still noted - the session calls fed() only for bytes that went out
            for rid, upd in after:
                self._log_progress(rid, 0, **upd)
            self._after = []
        if started:
            self.after_start()
        return [p for p in pieces]

    def fed(self, index: int, n: int) -> None:
        """Called by the session after piece `index` of the current step has been fed."""
        if getattr(self, "_cur_ws", None) is not None:
            self._cur_ws.fed(index, n)
        elif self._npieces == 0:
            self.sess.trace.log("c_send", upto=0, n=n, reqs=[], cerr=False)
            for rid, upd in self._after:      # e.g. an upload that could not even start: the stall is still noted
                self._log_progress(rid, n, **upd)
            self._after = []
        elif index == self._npieces - 1:
            for rid, upd in self._after:
                self._log_progress(rid, n, **upd)
            self._after = []
            self.flush_replies()
        else:
            self.sess.trace.log("c_send", upto=0, n=n, reqs=[], cerr=False)

    # -- observing -----------------------------------------------------------------------------
    def on_wire(self, data: bytes) -> None:
        log = self.sess.trace.log
        for ev in self.raw.feed(data):
            k = ev["k"]
            sid = ev.get("stream", 0)
            rid = self.rid_of.get(sid, "none")
            if k == "headers":
                hs = ev["headers"]
                status = -1
                for n, v in hs:
                    if n == ":status" and v.isdigit():
                        status = int(v)
                rest = [[n, v, n.lower()] for n, v in hs if not n.startswith(":")]
                if status == -1:
                    log("wire", kind="trailers", app=rid, headers=rest, ctl=ev["ctl"])
                elif 100 <= status < 200:
                    log("wire", kind="info", app=rid, status=status, headers=rest, ctl=ev["ctl"])
                else:
                    log("wire", kind="head", app=rid, status=status, headers=rest, framing="h2", ver="2",
                        close=False, cl=-1, ctl=ev["ctl"], stream=sid)
                if ev["end_stream"]:
                    log("wire", kind="end", app=rid)
            elif k == "data":
                if sid in self.ws:
                    log("wire", kind="frame", app=rid, stream=sid, len=len(ev["data"]), flow=ev["flow"], too_big=ev["too_big"])
                    self.ws[sid].on_wire(ev["data"])
                else:
                    off = self.got.get(sid, 0)
                    exp = self.sess.resp.expected(rid, off, len(ev["data"]))
                    log("wire", kind="data", app=rid, off=off, len=len(ev["data"]), match=(exp == ev["data"]),
                        stream=sid, flow=ev["flow"], too_big=ev["too_big"])
                    self.got[sid] = off + len(ev["data"])
                if ev["end_stream"]:
                    log("wire", kind="end", app=rid)
                    if sid in self.ws:
                        self.ws[sid].on_close()
            elif k == "rst":
                log("wire", kind="rst", app=rid, code=ev["code"], stream=sid)
            elif k == "goaway":
                log("wire", kind="goaway", app="conn", code=ev["code"], last=ev["last"])
            elif k == "settings":
                if not ev["ack"]:
                    self.server_settings_seen = True
                log("wire", kind="settings", app="conn", ack=ev["ack"],
                    values=[[kk, vv] for kk, vv in sorted(ev["settings"].items())])
            elif k == "push":
                log("wire", kind="push", app=rid, promised=ev["promised"],
                    headers=[[n, v, n.lower()] for n, v in ev["headers"]], ctl=ev["ctl"])
                self.rid_of[ev["promised"]] = "push%d-of-%s" % (ev["promised"], rid)
            elif k == "error":
                log("wire", kind="error", app=rid, why=ev["why"])
            elif k in ("wupd", "ping", "priority", "other"):
                pass
        self._conn_receive(data)

    def _conn_receive(self, data: bytes) -> None:
        # the h2 client state machine: validation + automatic replies (SETTINGS ACK, PING ACK)
        log = self.sess.trace.log
        if self.h2_error:
            return
        if not self.sent_preface:
            self.early.extend(data)  # server spoke first: handled once the client's preface is out
            return
        try:
            events = self.conn.receive_data(data)
        except h2.exceptions.ProtocolError as error:
            self.h2_error = True
            log("wire", kind="error", app="conn", why="h2 client: %s" % type(error).__name__)
            return
        for event in events:
            if isinstance(event, h2.events.DataReceived) and self.autoack:
                if event.flow_controlled_length:
                    try:
                        self.conn.acknowledge_received_data(event.flow_controlled_length, event.stream_id)
                    except h2.exceptions.H2Error:
                        pass
            elif isinstance(event, h2.events.ResponseReceived):
                sid = event.stream_id
                if self.methods.get(sid) == "CONNECT":
                    status = dict(event.headers).get(b":status")
                    if status == b"200":
                        from .wsclient import WSPeer

                        peer = WSPeer(self.sess, self.rid_of.get(sid, "none"), None, h2=(self, sid))
                        peer.accept_response([[_s(n), _s(v), _s(n).lower()] for n, v in event.headers])
                        self.ws[sid] = peer
        if any(isinstance(e, h2.events.WindowUpdated) for e in events):
            for sid in sorted(self.stalled):
                self._resume_upload(sid)
            for sid in list(self.ws_pending):
                self._pump_ws(sid)
        if self.feeding:
            return  # in the middle of writing a frame sequence: replies follow once it is out
        reply = self._flush()
        if reply and not self.sess.env.client_is_gone:
            self.sess.env.feed(reply)

    def flush_pending(self) -> None:
        """The current step was cut short because the server closed."""
        if getattr(self, "_cur_ws", None) is not None:
            self._cur_ws.flush_logs()
        self._after = []
        self.feeding = False

    def flush_replies(self) -> None:
        self.feeding = False
        reply = self._flush()
        if reply and not self.sess.env.client_is_gone and not self.sess.env.server_closed:
            self.sess.env.feed(reply)

    def _stall_info(self, sid: int, left: int) -> Dict[str, Any]:
        """Which of the server's windows keeps the rest of an upload back."""
        cw = self.conn.outbound_flow_control_window
        try:
            sw = self.conn._get_stream_by_id(sid).outbound_flow_control_window
        except Exception:  # noqa: BLE001 - the stream is gone for the client library
            sw = -1
        return {"left": left, "sw": sw, "cw": cw}

    def _resume_upload(self, sid: int) -> None:
        rid = self.rid_of.get(sid, "none")
        total_sent = 0
        done = False
        segs = self.stalled[sid]
        try:
            while segs:
                sid, pid, off, left, end, frame, pad0 = segs[0]
                sent = 0
                while sent < left:
                    room = min(self.conn.local_flow_control_window(sid), self.conn.max_outbound_frame_size)
                    pad = pad0
                    if pad is not None and room < pad + 2:
                        pad = None
                    if pad is not None:
                        room -= pad + 1
                    n = min(room, left - sent, frame or left)
                    if n <= 0:
                        break
                    last = sent + n >= left
                    self.conn.send_data(sid, pat(pid, off + sent, n), end_stream=end and last, pad_length=pad)
                    sent += n
                total_sent += sent
                if sent >= left:
                    segs.pop(0)
                    done = done or end
                else:
                    segs[0] = (sid, pid, off + sent, left - sent, end, frame, pad0)
                    break
        except h2.exceptions.H2Error:
            del self.stalled[sid]
            self.sess.trace.log("c_stall", app=rid, left=0, sw=-1, cw=-1)
            return
        if not segs:
            del self.stalled[sid]
        if total_sent:
            self._log_progress(rid, total_sent, body_add=total_sent, done=done)
            info = self._stall_info(sid, sum(seg[3] for seg in segs))
            self.sess.trace.log("c_stall", app=rid, **info)

    def ws_send(self, sid: int, data: bytes) -> bytes:
        """Wrap websocket bytes into DATA frames of stream sid (respecting frame size and the
        server's flow-control windows; the remainder follows when the server grants credit)."""
        buf = self.ws_pending.setdefault(sid, bytearray())
        buf.extend(data)
        self._pump_ws(sid)
        return self._flush()

    def _pump_ws(self, sid: int) -> None:
        buf = self.ws_pending.get(sid)
        while buf:
            try:
                room = min(self.conn.local_flow_control_window(sid), self.conn.max_outbound_frame_size)
            except h2.exceptions.H2Error:
                buf.clear()
                return
            n = min(room, len(buf))
            if n <= 0:
                return
            try:
                self.conn.send_data(sid, bytes(buf[:n]))
            except h2.exceptions.H2Error:
                buf.clear()
                return
            del buf[:n]

    def on_close(self) -> None:
        pass


def split_headers_frame(data: bytes, sid: int, ncont: int) -> bytes:
    """Rewrite the HEADERS frame of stream sid into HEADERS + ncont CONTINUATION frames."""
    out = bytearray()
    pos = 0
    while pos + 9 <= len(data):
        length = int.from_bytes(data[pos : pos + 3], "big")
        ftype, flags = data[pos + 3], data[pos + 4]
        fsid = int.from_bytes(data[pos + 5 : pos + 9], "big") & 0x7FFFFFFF
        body = data[pos + 9 : pos + 9 + length]
        if ftype == 1 and fsid == sid and (flags & 0x4) and not (flags & 0x28) and len(body) > ncont:
            size = len(body) // (ncont + 1)
            parts = [body[i * size : (i + 1) * size] for i in range(ncont)] + [body[ncont * size :]]
            first = hf.HeadersFrame(sid)
            first.data = parts[0]
            if flags & 0x1:
                first.flags.add("END_STREAM")
            out += first.serialize()
            for i, part in enumerate(parts[1:]):
                cf = hf.ContinuationFrame(sid)
                cf.data = part
                if i == len(parts) - 2:
                    cf.flags.add("END_HEADERS")
                out += cf.serialize()
        else:
            out += data[pos : pos + 9 + length]
        pos += 9 + length
    return bytes(out)


def make_request_headers(method: str, path: str, authority: str = "hypercorn", scheme: str = "https",
                         extra: Optional[List[List[str]]] = None, rid: Optional[str] = None,
                         protocol: Optional[str] = None) -> List[List[str]]:
    hs = [[":method", method], [":path", path], [":scheme", scheme], [":authority", authority]]
    if protocol:
        hs.append([":protocol", protocol])
    hs += extra or []
    if rid is not None:
        hs.append(["x-rid", str(rid)])
    return hs
