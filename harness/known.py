"""KNOWN_FINDINGS.txt: committed list of genuine defects recorded rather than repaired.

Line kinds:
  finding: property=Cxx sig=<clause>/<ctx> [worker=asyncio|trio] <what fails>
  fixed:   property=Cxx <commit> <what failed>          (suppresses nothing)
"""
from __future__ import annotations

import os
import re
from typing import Any, Dict, List, Optional

PATH = os.path.join(os.path.dirname(os.path.dirname(os.path.abspath(__file__))), "KNOWN_FINDINGS.txt")


class KnownFindings:
    def __init__(self, entries: List[Dict[str, Any]]) -> None:
        self.entries = entries

    @classmethod
    def load(cls) -> "KnownFindings":
        entries = []
        if os.path.exists(PATH):
            for raw in open(PATH):
                line = raw.strip()
                if not line.startswith("finding:"):
                    continue
                m = re.match(r"finding:\s+property=(\S+)\s+sig=(\S+)(?:\s+worker=(\S+))?\s+(.*)$", line)
                if m:
                    entries.append({"property": m.group(1), "sig": m.group(2), "worker": m.group(3),
                                    "text": m.group(4), "line": "sig=%s%s %s" % (
                                        m.group(2), (" worker=" + m.group(3)) if m.group(3) else "", m.group(4))})
        return cls(entries)

    def match(self, prop: str, sig: str, worker: str) -> Optional[Dict[str, Any]]:
        for e in self.entries:
            if e["property"] == prop and e["sig"] == sig and (e["worker"] is None or worker == "any" or e["worker"] == worker):
                return e
        return None
