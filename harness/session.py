"""One execution of a stimulus script against the real hypercorn classes.

`Session` owns everything that is independent of the worker class: the trace, the
configuration, the puppet application, the client side (bytes fed, wire observers)
and the step interpreter.  The worker-specific environment (`aio_env.AioEnv`,
`trio_env.TrioEnv`) provides transport, clock and scheduling.
"""
from __future__ import annotations

from typing import Any, Dict, Iterator, List, Optional

import hypercorn.config
from hypercorn.config import Config
from hypercorn.logging import Logger

from .common import Trace, hdrs_str, ms, pat, tpat
from .puppet import Puppet

hypercorn.config.time = lambda: 5000  # stable `date` header (tests/conftest.py does the same)


class ObsLogger(Logger):
    """Records logging calls as observation events."""

    def __init__(self, config: Config, sess: "Session") -> None:
        self.sess = sess
        self.access_log_format = config.access_log_format
        self.access_logger = None
        self.error_logger = None

    async def access(self, request, response, request_time) -> None:
        rid = "?"
        for name, value in request.get("headers", []):
            if bytes(name).lower() == b"x-rid":
                rid = bytes(value).decode("latin1")
                break
        status = -1 if response is None else int(response.get("status", -1))
        self.sess.trace.log("log", kind="access", app=rid, status=status)

    async def exception(self, message: str, *args: Any, **kwargs: Any) -> None:
        self.sess.trace.log("log", kind="exception", text=str(message)[:80])

    async def warning(self, message: str, *args: Any, **kwargs: Any) -> None:
        self.sess.trace.log("log", kind="warning", text=str(message)[:80])

    async def error(self, message: str, *args: Any, **kwargs: Any) -> None:
        self.sess.trace.log("log", kind="error", text=str(message)[:80])

    async def critical(self, message: str, *args: Any, **kwargs: Any) -> None:
        self.sess.trace.log("log", kind="critical", text=str(message)[:80])

    async def info(self, message: str, *args: Any, **kwargs: Any) -> None:
        pass

    async def debug(self, message: str, *args: Any, **kwargs: Any) -> None:
        pass

    async def log(self, level: int, message: str, *args: Any, **kwargs: Any) -> None:
        pass


def make_config(overrides: Dict[str, Any], sess: "Session") -> Config:
    config = Config()
    config.accesslog = None
    config.errorlog = None
    for key, value in overrides.items():
        setattr(config, key, value)
    config.logger_class = lambda cfg: ObsLogger(cfg, sess)  # type: ignore
    return config


class Session:
    def __init__(self, script: Dict[str, Any], worker: str) -> None:
        from . import clients

        self.script = script
        self.worker = worker
        self.trace = Trace()
        self.conn_id = 1
        self.programs: Dict[str, List[Any]] = script.get("apps", {})
        self.cfg = dict(script.get("cfg", {}))
        self.config = make_config(self.cfg, self)
        self.puppet = Puppet(self)
        self.carrier = script.get("carrier", "h1")
        self.env: Any = None
        self.client = clients.make_client(self)
        self.bodies: Dict[str, List[int]] = script.get("bodies", {})  # rid -> [pid, total_len]
        self.ws_sent: Dict[str, List[Dict[str, Any]]] = {}
        self.resp = clients.RespBodies()
        self.called_bytes = 0
        self.remote_ops: Dict[str, List[Any]] = {}
        self.ws_out: Dict[str, List[Dict[str, Any]]] = {}  # messages apps passed to websocket.send

    def note_send(self, rid: str, msg: Dict[str, Any]) -> None:
        rid = rid.split("#")[0]
        t = msg.get("type", "")
        if t in ("http.response.body", "websocket.http.response.body"):
            body = msg.get("body", b"")
            if isinstance(body, (bytes, bytearray)):
                self.resp.note(rid, bytes(body))
                self.called_bytes += len(body)
        elif t == "websocket.send":
            if msg.get("bytes") is not None:
                self.ws_out.setdefault(rid, []).append({"kind": "bytes", "payload": msg["bytes"]})
                self.called_bytes += len(msg["bytes"])
            elif isinstance(msg.get("text"), str):
                self.ws_out.setdefault(rid, []).append({"kind": "text", "payload": msg["text"]})
                self.called_bytes += len(msg["text"].encode())

    def accepted_bytes(self) -> int:
        return self.called_bytes

    # ---- expectations used for the `match` bits --------------------------------------
    def expected_body(self, rid: str, off: int, length: int) -> bytes:
        rid = rid.split("#")[0]
        if rid in self.bodies:
            pid, total = self.bodies[rid]
            if off + length > total:
                return b"\x00<beyond-what-the-client-sent>"
            return pat(pid, off, length)
        return b"" if length == 0 else b"\x00<no-body-expected>"

    def identify_ws_message(self, rid: str, msg: Dict[str, Any]) -> Dict[str, Any]:
        """Which client message (index) does this websocket.receive equal?"""
        rid = rid.split("#")[0]
        kind = "text" if msg.get("text") is not None else "bytes"
        payload = msg.get("text") if kind == "text" else msg.get("bytes")
        both = msg.get("text") is not None and msg.get("bytes") is not None
        mid = -1
        for i, sent in enumerate(self.ws_sent.get(rid, [])):
            if sent["kind"] == kind and sent["payload"] == payload:
                mid = i + 1
                if not sent.get("seen"):
                    sent["seen"] = True
                    break
        size = len(payload) if payload is not None else -1
        return {"kind": kind, "mid": mid, "size": size, "both": both}

    # ---- step interpreter -------------------------------------------------------------
    def open_event(self) -> None:
        c = self.config
        self.trace.log(
            "open",
            conn=self.conn_id,
            worker=self.worker,
            carrier=self.carrier,
            ka=ms(c.keep_alive_timeout),
            kamax=c.keep_alive_max_requests,
            qsize=c.max_app_queue_size,
            maxinc=c.h11_max_incomplete_size,
            wsmax=c.websocket_max_message_size,
            h2conc=c.h2_max_concurrent_streams,
            names=list(c.server_names),
            rawhdr=bool(c.h11_pass_raw_headers),
            tls=self.carrier == "h2",
            root_path=c.root_path,
            client="10.1.2.3:45678",
            server="10.9.8.7:8080",
            autoack=bool(self.script.get("autoack", True)),
            maxchunk=int(self.script.get("maxchunk", 16384)),
            opening=str(self.script.get("opening", "")),
        )
        for cr in self.script.get("creqs", []):
            self.trace.log("c_req", **cr)
        for st in self.script.get("steps", []):
            if "creq" in st:
                self.trace.log("c_req", **st["creq"])
        if self.script.get("unusual"):
            # the stimulus contains a legal-but-rare request of this kind (C04)
            self.trace.log("c_frame", kind="raw", stream=0, n=0, app="conn", legal=True,
                           unusual=str(self.script["unusual"]))

    def steps(self) -> Iterator[Any]:
        """Generator: performs one stimulus per iteration; the environment settles the
        server after each `yield` (a yielded ("tick", t) asks it to advance the clock)."""
        env = self.env
        if self.carrier in ("h2", "h2prior") and not self.script.get("manual_preface"):
            for piece in self.client.start():
                env.feed(piece)
            self.client.after_start()
            yield None
        for st in self.script["steps"]:
            s = st["s"]
            if s == "tick":
                yield ("tick", st["to"])
                continue
            if s == "dt":
                yield ("dt", st["d"])
                continue
            if s in ("eof", "reset") and env.client_is_gone:
                continue
            if s == "eof":
                self.trace.log("c_eof")
                env.c_eof()
            elif s == "reset":
                self.trace.log("c_reset")
                env.c_reset()
            elif s == "pause":
                self.trace.log("t_pause")
                env.t_pause()
            elif s == "resume":
                self.trace.log("t_resume")
                env.t_resume()
            elif s == "fail":
                self.trace.log("t_fail")
                env.t_fail()
            elif s == "shutdown":
                self.trace.log("shutdown")
                env.shutdown()
            elif s == "op":
                rid = str(st["app"])
                self.trace.log("app_go", app=rid, n=1)
                self.remote_ops.setdefault(rid, []).append(st["op"])
                env.grant(rid, 1)
            elif s == "go":
                n = st.get("n", 1)
                self.trace.log("app_go", app=str(st["app"]), n=n)
                env.grant(str(st["app"]), n)
            else:
                if env.client_is_gone:
                    continue  # a client that closed or reset its side cannot send any more
                pieces = self.client.step(st)
                if pieces is not None:
                    # frame-producing clients return the bytes; segments are fed one per settle
                    for i, piece in enumerate(pieces):
                        if env.client_is_gone or env.server_closed:
                            self.client.flush_pending()
                            break
                        env.feed(piece)
                        self.client.fed(i, len(piece))
                        if i < len(pieces) - 1:
                            yield None
            yield None

    def finish_steps(self) -> Iterator[Any]:
        """Wind-down used by every execution so that 'never released' can be evaluated:
        release all gates, let the client read everything and go away, run out the clock."""
        env = self.env
        self.trace.log("winddown")
        env.grant_all()
        yield None
        if env.client_paused():
            self.trace.log("t_resume")
            env.t_resume()
            yield None
        if not env.client_gone():
            self.trace.log("c_eof")
            env.c_eof()
            yield None
        yield ("dt", 2 * float(self.config.keep_alive_timeout) + 1.0)
        self.trace.log("final")
        yield None
