"""C13: every way of opening a connection, followed by further traffic, under every split of
the opening bytes (each split variant is paired with the unsplit execution in one trace)."""
from __future__ import annotations

import random
from typing import Any, Dict, Iterator, List, Optional

from . import build
from .gen_h1 import base_script, stream_len
from .gen_h2 import h2_script

H2C_SETTINGS = ["AAMAAABkAAQAAP__", "", "AAQAAP__"]


def _pairs(base_steps_fn, total: int, tier: str, rng: random.Random, span: Optional[int] = None) -> List[List[Dict[str, Any]]]:
    """variants: [unsplit, split@c1, split@c2, ...]"""
    span = span or total
    cuts = list(range(1, min(span, total)))
    if tier == "quick":
        cuts = sorted(set(rng.sample(cuts, min(10, len(cuts))) + [c for c in (1, 23, 24, 25, span - 1) if 0 < c < total]))
    variants = [base_steps_fn(None)]
    for c in cuts:
        variants.append(base_steps_fn(c))
    return variants


def gen_ws_early(tier: str, rng: random.Random) -> Iterator[Dict[str, Any]]:
    """A first WebSocket message written right behind the handshake, before the 101 (the split decides whether
    the server sees it before or after it accepted; either it refuses the connection or every message
    arrives - executions are judged one by one, not compared)."""
    from .common import tpat
    from .wsclient import OP, frame
    prog2 = [["recv"], ["send", {"type": "websocket.accept"}], ["recv"], ["recv"],
             ["send", {"type": "websocket.send", "pat": [5, 0, 3]}], ["recv_disc"]]
    early = frame(OP["text"], tpat(3, 0, 4).encode())
    probe = base_script([build.ws_h1_request(1)], {"*": prog2}, fam="")
    hs_len = stream_len(probe)
    cuts = [None, hs_len, 1, hs_len - 1, hs_len + 1, hs_len + len(early) - 1, hs_len // 2]
    if tier != "quick":
        cuts += [c for c in range(2, hs_len + len(early)) if c not in cuts]
    for late in (True, False):
        for c in cuts:
            sc = base_script([build.ws_h1_request(1)], {"*": prog2},
                             fam="c13/ws-early/%s/%s" % ("then-second" if late else "alone",
                                                         "unsplit" if c is None else "at-boundary" if c == hs_len else "split"))
            sc["opening"] = "ws"
            sc["stream"].append({"hex": early.hex()})
            total = hs_len + len(early)
            sc["early_ws"] = {"rid": "1", "pid": 3, "len": 4, "end": total}
            st = [{"s": "send", "upto": c}] if c else []
            st += [{"s": "send", "upto": total}, {"s": "dt", "d": 0.01}]
            if late:
                st += [{"s": "ws?", "op": "text", "pid": 4, "len": 5}, {"s": "dt", "d": 0.05}]
            sc["steps"] = st
            yield sc


def gen_h2c_odd_settings(tier: str, rng: random.Random) -> Iterator[Dict[str, Any]]:
    """h2c upgrade offers whose HTTP2-Settings value is not what RFC 7540 3.2.1 asks for: octets that are not
    UTF-8, not base64url, base64url of something that is not a SETTINGS payload, two such headers.  Client
    input like any other: refused or served, never an internal error."""
    resp = build.simple_resp_program(chunks=[3])
    odd = [("not-utf8", ["\xff\xfe\xfd"]), ("not-base64", ["!!!!"]), ("bad-length", ["AAMAAABk"[:7]]),
           ("not-a-settings-payload", ["AAAA"]), ("twice", ["AAMAAABkAAQAAP__", "AAMAAABk"]), ("padded", ["AAMAAABkAAQAAP__=="]),
           ("huge", ["AAMAAABk" * 200])]
    for name, values in odd:
        for follow in (False, True):
            hdrs = [["Host", "hypercorn"], ["Connection", "Upgrade, HTTP2-Settings"], ["Upgrade", "h2c"]]
            hdrs += [["HTTP2-Settings", v] for v in values]
            rq = {"rid": 1, "method": "GET", "target": "/h2c-odd", "version": "1.1", "kind": "http", "upgrade": "h2c", "headers": hdrs}
            sc = base_script([rq], {"*": resp}, fam="c04/h2c-odd-settings/%s/%s" % (name, "then-close" if not follow else "then-eof"))
            sc["unusual"] = "h2c-odd-settings"
            total = stream_len(sc)
            sc["steps"] = [{"s": "send", "upto": total}, {"s": "dt", "d": 0.05}] + ([{"s": "eof"}] if follow else [])
            yield sc


def gen_c13(tier: str, rng: random.Random) -> Iterator[Dict[str, Any]]:
    resp = build.simple_resp_program(chunks=[3, 4])
    # ---- plain HTTP/1 (with and without TLS / ALPN http/1.1) -------------------------------
    for tls, alpn in ((False, None), (True, "http/1.1"), (True, None)):
        reqs = [{"rid": 1, "method": "POST", "target": "/plain", "body": {"framing": "cl", "len": 9}},
                {"rid": 2, "method": "GET", "target": "/second"}]
        sc = base_script(reqs, {"*": resp}, fam="c13/plain/tls=%s/alpn=%s" % (tls, alpn))
        total = stream_len(sc)
        sc["opening"] = "plain"
        if tls:
            sc["tls"] = True
            sc["alpn"] = alpn
            sc["opening"] = "tls-h1"
        def steps(c, total=total):
            st = [{"s": "send", "upto": c}] if c else []
            return st + [{"s": "send", "upto": total}, {"s": "dt", "d": 0.05}]
        sc["variants"] = _pairs(steps, total, tier, rng)
        yield sc
    # ---- h2c upgrade without body: 101 then HTTP/2 stream 1, more streams follow --------------
    for settings in H2C_SETTINGS:
        for follow in ("later", "none"):
            rq = {"rid": 1, "method": "GET", "target": "/h2c", "version": "1.1", "kind": "http", "upgrade": "h2c",
                  "headers": [["Host", "hypercorn"], ["Connection", "Upgrade, HTTP2-Settings"], ["Upgrade", "h2c"],
                              ["HTTP2-Settings", settings]]}
            sc = base_script([rq], {"*": resp}, fam="c13/h2c/%s/%s" % (settings or "empty", follow))
            sc["creqs"][0]["ver"] = "2"       # the opening decides: served as HTTP/2 stream 1
            sc["opening"] = "h2c"
            total = stream_len(sc)
            def steps(c, total=total, follow=follow):
                st = [{"s": "send", "upto": c}] if c else []
                st += [{"s": "send", "upto": total}, {"s": "dt", "d": 0.05}]
                if follow == "later":
                    st.append(build.h2_headers(2, 3, "POST", toks=[["/after", "/after"]], end=False, total=6, scheme="http"))
                    st.append({"s": "h2", "op": "data", "stream": 3, "pat": [2, 0, 6], "end": True})
                    st.append({"s": "dt", "d": 0.05})
                return st
            sc["bodies"]["2"] = [2, 6]
            sc["variants"] = _pairs(steps, total, tier, rng)
            yield sc
    # ---- h2c upgrade carrying a body: ignored, served as HTTP/1.1 --------------------------------
    # (the body may be announced by content-length or by transfer-encoding alone)
    for framing in ({"framing": "cl", "len": 5}, {"framing": "chunked", "len": 5, "chunks": [2, 3]}):
        rq = {"rid": 1, "method": "POST", "target": "/h2c-body", "body": dict(framing),
              "headers": [["host", "hypercorn"], ["connection", "Upgrade, HTTP2-Settings"], ["upgrade", "h2c"],
                          ["http2-settings", H2C_SETTINGS[0]]]}
        sc = base_script([rq, {"rid": 2, "method": "GET", "target": "/next"}], {"*": resp},
                         fam="c13/h2c-body/%s" % framing["framing"])
        sc["opening"] = "h2c-body"
        total = stream_len(sc)
        def steps(c, total=total):
            st = [{"s": "send", "upto": c}] if c else []
            return st + [{"s": "send", "upto": total}, {"s": "dt", "d": 0.05}]
        sc["variants"] = _pairs(steps, total, tier, rng)
        yield sc
    # ---- WebSocket upgrade followed by a message (Connection is a list: the token may stand anywhere in it,
    #      with optional whitespace around the commas) ---------------------------------------------------------
    prog = [["recv"], ["send", {"type": "websocket.accept"}], ["recv"], ["send", {"type": "websocket.send", "pat": [5, 0, 3]}],
            ["recv_disc"]]
    for ci, connection in enumerate(("Upgrade", "keep-alive, Upgrade", "keep-alive ,\tupgrade", "Upgrade,keep-alive")):
        rq = build.ws_h1_request(1, connection=connection)
        sc = base_script([rq], {"*": prog}, fam="c13/ws/connection-%d" % ci)
        sc["opening"] = "ws"
        total = stream_len(sc)
        def steps(c, total=total):
            st = [{"s": "send", "upto": c}] if c else []
            return st + [{"s": "send", "upto": total}, {"s": "dt", "d": 0.01}, {"s": "ws?", "op": "text", "pid": 3, "len": 4},
                         {"s": "dt", "d": 0.05}]
        sc["variants"] = _pairs(steps, total, tier if ci == 0 else "quick", rng)
        yield sc
    yield from gen_ws_early(tier, rng)
    # ---- HTTP/2: ALPN h2 and cleartext prior knowledge, preface + SETTINGS + HEADERS split anywhere ---
    for carrier, opening in (("h2", "alpn-h2"), ("h2prior", "preface")):
        scheme = "https" if carrier == "h2" else "http"
        for together in (True, False):
            def steps(c, together=together, scheme=scheme):
                hd = build.h2_headers(1, 1, "POST", toks=[["/p", "/p"]], end=False, total=7, scheme=scheme)
                data = {"s": "h2", "op": "data", "stream": 1, "pat": [1, 0, 7], "end": True}
                second = build.h2_headers(2, 3, "GET", toks=[["/q", "/q"]], scheme=scheme)
                pre = {"s": "h2", "op": "preface"}
                if c:
                    pre["cuts"] = [c]
                if together:
                    # preface and first request leave the client in one write (split at c if given)
                    hd = dict(hd)
                    hd["cuts"] = [c] if c else None
                    return [dict(hd, with_preface=True), data, second, {"s": "dt", "d": 0.05}]
                return [pre, hd, data, second, {"s": "dt", "d": 0.05}]
            sc = h2_script([], {"*": resp}, "c13/%s/together=%s" % (opening, together), carrier=carrier,
                           bodies={"1": [1, 7], "2": [2, 0]})
            sc["manual_preface"] = True
            sc["opening"] = opening
            sc["variants"] = _pairs(steps, 75 + (60 if together else 0), tier, rng, span=75 + (40 if together else 0))
            yield sc
            if together:
                # ... and with a first request that takes longer than the keep-alive timeout: whichever read its
                # HEADERS came in, it is a request in progress
                def slow_steps(c, scheme=scheme):
                    hd = dict(build.h2_headers(1, 1, "GET", toks=[["/slow", "/slow"]], scheme=scheme), with_preface=True)
                    hd["cuts"] = [c] if c else None
                    return [hd, {"s": "dt", "d": 0.05}, {"s": "dt", "d": 3.0}, {"s": "go", "app": "1", "n": 1}, {"s": "dt", "d": 0.05}]
                slow = [["recv_body"], ["gate"]] + build.simple_resp_program(chunks=[3, 4], read_first=False)
                sc = h2_script([], {"*": slow}, "c13/%s/slow-first-request" % opening, carrier=carrier,
                               cfg={"keep_alive_timeout": 2.0}, bodies={"1": [1, 0]})
                sc["manual_preface"] = True
                sc["opening"] = opening
                sc["variants"] = _pairs(slow_steps, 75 + 40, "quick", rng, span=75 + 30)
                yield sc
