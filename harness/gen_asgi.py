"""C12: sequences over the ASGI send alphabet with valid and invalid payloads."""
from __future__ import annotations

import itertools
import random
from typing import Any, Dict, Iterator, List

from . import build
from .gen_h1 import base_script
from .gen_h2 import h2_script
from .gen_ws import ws_session

OKH = [["x-a", "1"]]


def http_alphabet(h2: bool) -> List[Dict[str, Any]]:
    al = [
        {"type": "http.response.start", "status": 200, "headers": OKH, "cls": "ok"},
        {"type": "http.response.start", "status": 200, "headers": OKH, "trailers": True, "cls": "ok"},
        {"type": "http.response.start", "status": 200, "headers": [["x-a", {"str": "v"}]], "cls": "hdr-nonbytes"},
        {"type": "http.response.start", "status": 200, "headers": [[":status", "200"]], "cls": "hdr-pseudo"},
        {"type": "http.response.start", "status": 200, "headers": [["x-a", "1\r\nx-injected: 2"]], "cls": "hdr-ctl"},
        {"type": "http.response.start", "status": 200, "headers": [["x-a\r\nb", "1"]], "cls": "hdr-ctl"},
        {"type": "http.response.start", "status": 200, "headers": [["x-nul", "a\x00b"]], "cls": "hdr-ctl"},
        {"type": "http.response.body", "pat": [70, 0, 3], "more": True, "cls": "ok"},
        {"type": "http.response.body", "pat": [70, 0, 2], "more": False, "cls": "ok"},
        {"type": "http.response.trailers", "headers": [["x-t", "1"]], "more": False, "cls": "ok"},
        {"type": "http.response.trailers", "headers": [["x-t", "1\r\ny: 2"]], "more": False, "cls": "hdr-ctl"},
        {"type": "http.response.push", "path": "/pushed", "headers": [], "cls": "ok"},
        {"type": "http.response.push", "path": {"int": 5}, "headers": [], "cls": "path-nonstr"},
        {"type": "http.response.push", "path": "/p", "headers": [["x-p", "a\nb"]], "cls": "hdr-ctl"},
        {"type": "http.response.early_hint", "links": ["</style.css>; rel=preload"], "cls": "ok"},
        {"type": "not.a.real.type", "cls": "ok"},
        {"type": "http.response.trailers", "headers": [["x-t", "0"]], "more": True, "cls": "ok"},
    ]
    return al


def ws_alphabet() -> List[Dict[str, Any]]:
    return [
        {"type": "websocket.accept", "cls": "ok"},
        {"type": "websocket.accept", "headers": [["x-h", "a\r\nb: c"]], "cls": "hdr-ctl"},
        {"type": "websocket.accept", "headers": [[":bad", "1"]], "cls": "hdr-pseudo"},
        {"type": "websocket.send", "pat": [71, 0, 3], "text": True, "cls": "ok"},
        {"type": "websocket.send", "pat": [72, 0, 3], "cls": "ok"},
        {"type": "websocket.send", "badtext": True, "cls": "text-nonstr"},
        {"type": "websocket.close", "cls": "ok"},
        {"type": "websocket.http.response.start", "status": 403, "headers": OKH, "cls": "ok"},
        {"type": "websocket.http.response.start", "status": 403, "headers": [["x-a", "1\n2"]], "cls": "hdr-ctl"},
        {"type": "websocket.http.response.body", "pat": [73, 0, 2], "more": False, "cls": "ok"},
        {"type": "websocket.bogus", "cls": "ok"},
    ]


def fix_offsets(seq: List[Dict[str, Any]]) -> List[Dict[str, Any]]:
    out = []
    off = 0
    for m in seq:
        m = dict(m)
        if "pat" in m and m["type"].endswith("response.body"):
            m["pat"] = [m["pat"][0], off, m["pat"][2]]
            off += m["pat"][2]
        out.append(m)
    return out


def gen_c12(tier: str, rng: random.Random) -> Iterator[Dict[str, Any]]:
    maxlen = 4 if tier == "thorough" else 3
    for carrier in ("h1", "h2"):
        al = http_alphabet(carrier == "h2")
        seqs: List[List[Dict[str, Any]]] = []
        for n in range(1, maxlen + 1):
            if n <= 2:
                seqs += [list(s) for s in itertools.product(al, repeat=n)]
            else:
                # longer sequences: a valid prefix (start, body) then every pair/triple of messages
                prefix_opts = [[al[0]], [al[0], al[7]], [al[0], al[8]], [al[1], al[8]]]
                for pre in prefix_opts:
                    for tail in itertools.product(al, repeat=n - len(pre)):
                        if len(pre) + len(tail) == n:
                            seqs.append(list(pre) + list(tail))
        if tier == "quick":
            singles_pairs = [s for s in seqs if len(s) <= 2]
            longer = [s for s in seqs if len(s) > 2]
            seqs = rng.sample(singles_pairs, min(len(singles_pairs), 170)) + rng.sample(longer, min(len(longer), 80))
            # always: every message of the alphabet placed inside an otherwise valid response (it may raise or
            # not - the response around it has to arrive whole), and in front of one
            seqs += [[al[0], m, al[8]] for m in al if m is not al[8]] + [[m, al[0], al[8]] for m in al[7:]]
        for i, seq in enumerate(seqs):
            prog: List[Any] = [["recv_body"]] + [["send", m] for m in fix_offsets(seq)] + [["recv_disc"]]
            fam = "asgi/%s/%s" % (carrier, "+".join("%s:%s" % (m["type"].split(".")[-1], m["cls"]) for m in seq))
            if carrier == "h1":
                sc = base_script([{"rid": 1, "method": "GET", "target": "/c12"}], {"*": prog}, fam=fam)
                sc["steps"] = [{"s": "send"}, {"s": "dt", "d": 0.05}]
            else:
                # sequences with trailers: the client may or may not have offered `te: trailers`, and another
                # request follows on the same connection (its header block still has to decode)
                tr = any(m["type"] == "http.response.trailers" for m in seq)
                for te in ((True, False) if tr else (True,)):
                    steps = [build.h2_headers(1, 1, "GET", toks=[["/c12", "/c12"]], extra=[["te", "trailers"]] if te else []),
                             {"s": "dt", "d": 0.05}]
                    apps: Dict[str, Any] = {"*": prog}
                    if tr:
                        steps += [build.h2_headers(2, 3, "GET", toks=[["/c12-next", "/c12-next"]]), {"s": "dt", "d": 0.05}]
                        apps = {"1": prog, "2": build.simple_resp_program(chunks=[4], headers=[["x-b", "2"]])}
                    yield h2_script(steps, apps, fam if te else fam + "/no-te")
                continue
            yield sc
    wal = ws_alphabet()
    wseqs = [list(s) for n in (1, 2, 3) for s in itertools.product(wal, repeat=n)]
    if tier == "quick":
        wseqs = [s for s in wseqs if len(s) <= 2] + rng.sample([s for s in wseqs if len(s) == 3], 60)
    elif maxlen == 4:
        wseqs += [[wal[0]] + list(s) for s in itertools.product(wal, repeat=3)]
    for carrier in ("h1", "h2"):
        for seq in wseqs:
            if tier == "quick" and carrier == "h2" and rng.random() < 0.5:
                continue
            prog = [["recv"]] + [["send", m] for m in fix_offsets(seq)] + [["recv_disc"]]
            fam = "asgi/ws-%s/%s" % (carrier, "+".join("%s:%s" % (m["type"].split(".")[-1], m["cls"]) for m in seq))
            yield ws_session(carrier, 1, [{"s": "dt", "d": 0.05}], prog, fam)
