"""C18 (connection level): limits approached from below, hit exactly and exceeded."""
from __future__ import annotations

import random
from typing import Any, Dict, Iterator, List

from . import build
from .gen_h1 import base_script, stream_len
from .gen_h2 import h2_script


def _head_of_len(n: int, rid: int = 1) -> Dict[str, Any]:
    """A GET request whose head is exactly n bytes long."""
    base = "GET /lim HTTP/1.1\r\nhost: hypercorn\r\nx-rid: %d\r\nx-pad: \r\n\r\n" % rid
    pad = n - len(base)
    if pad < 0:
        raise ValueError("limit too small")
    return {"rid": rid, "method": "GET", "raw_head": base.replace("x-pad: ", "x-pad: " + "p" * pad), "target": "/lim"}


def gen_c18(tier: str, rng: random.Random) -> Iterator[Dict[str, Any]]:
    resp = build.simple_resp_program(chunks=[2])
    for limit in ([100, 300, 16384] if tier == "thorough" else [100, 16384]):
        cfg = {"h11_max_incomplete_size": limit}
        # complete heads of limit-1, limit, (and larger, complete in one read: statement silent)
        for n in (limit - 1, limit):
            rq = _head_of_len(n)
            rq["kind"] = "atlimit"
            for mode in ("one-read", "two-reads"):
                sc = base_script([rq], {"*": resp}, cfg=cfg, fam="c18/atlimit/%d/%d/%s" % (limit, n, mode))
                total = stream_len(sc)
                sc["steps"] = ([{"s": "send", "upto": total - 2}] if mode == "two-reads" else []) + [{"s": "send"}, {"s": "dt", "d": 0.05}]
                yield sc
        # incomplete heads: feed k bytes of a much longer head
        for k in (limit - 1, limit, limit + 1, limit + 40):
            rq = _head_of_len(limit + 200)
            rq["kind"] = "oversize"
            for pieces in (1, 3):
                sc = base_script([rq], {"*": resp}, cfg=cfg, fam="c18/oversize/%d/%d/%d" % (limit, k, pieces))
                steps: List[Dict[str, Any]] = []
                if pieces == 3:
                    steps += [{"s": "send", "upto": k // 3}, {"s": "send", "upto": 2 * k // 3}]
                steps += [{"s": "send", "upto": k}, {"s": "dt", "d": 0.05}]
                if k <= limit:
                    # still within the limit: nothing may have been rejected yet; then go over
                    steps += [{"s": "send", "upto": limit + 60}, {"s": "dt", "d": 0.05}]
                sc["steps"] = steps
                yield sc
    # keep_alive_max_requests, requests sent one after another (not pipelined)
    for kamax in (1, 2, 3):
        n = kamax + 2
        reqs = [{"rid": i, "method": "GET", "target": "/ka%d" % i} for i in range(1, n + 1)]
        sc = base_script(reqs, {"*": resp}, cfg={"keep_alive_max_requests": kamax}, fam="c18/kamax/h1/%d" % kamax)
        steps = []
        for r in sc["reqs"]:
            steps += [{"s": "send", "upto": r["end"]}, {"s": "dt", "d": 0.05}]
        sc["steps"] = steps
        yield sc
        steps = []
        for i in range(1, n + 1):
            steps += [build.h2_headers(i, 2 * i - 1, "GET", toks=[["/ka%d" % i, "/ka%d" % i]]), {"s": "dt", "d": 0.05}]
        yield h2_script(steps, {"*": resp}, "c18/kamax/h2/%d" % kamax, cfg={"keep_alive_max_requests": kamax})
        # ... with a server push on the first request (a pushed stream is counted too, and twice: the counter
        # does not pass through every value) and two more requests than before
        pusher = [["recv_body"], ["send", {"type": "http.response.push", "path": "/pushed", "headers": [], "cls": "ok"}]] + \
            build.simple_resp_program(chunks=[2], read_first=False)
        steps = []
        for i in range(1, n + 3):
            steps += [build.h2_headers(i, 2 * i - 1, "GET", toks=[["/kp%d" % i, "/kp%d" % i]]), {"s": "dt", "d": 0.05}]
        yield h2_script(steps, {"1": pusher, "*": resp}, "c18/kamax/h2-push/%d" % kamax, cfg={"keep_alive_max_requests": kamax})
    # h2_max_concurrent_streams
    for conc in (1, 2, 3):
        gated = [["recv_body"], ["gate"]] + build.simple_resp_program(chunks=[2], read_first=False)
        steps = []
        for i in range(1, conc + 2):
            steps.append(build.h2_headers(i, 2 * i - 1, "GET", toks=[["/c%d" % i, "/c%d" % i]]))
        steps.append({"s": "dt", "d": 0.05})
        steps.append({"s": "go", "app": "1", "n": 1})
        steps.append({"s": "dt", "d": 0.05})
        sid = 2 * (conc + 2) - 1
        steps.append(build.h2_headers(conc + 2, sid, "GET", toks=[["/late", "/late"]]))
        steps.append({"s": "dt", "d": 0.05})
        yield h2_script(steps, {"*": gated}, "c18/h2conc/%d" % conc, cfg={"h2_max_concurrent_streams": conc})
    # h2_max_header_list_size
    for size in (200, 400):
        for over in (False, True):
            extra = [["x-big", "v" * (size + 50 if over else 20)]]
            st = build.h2_headers(1, 1, "GET", toks=[["/hl", "/hl"]], extra=extra, kind="bighdr" if over else "http")
            yield h2_script([st, {"s": "dt", "d": 0.05}], {"*": resp}, "c18/hdrlist/%d/%s" % (size, over),
                            cfg={"h2_max_header_list_size": size})
