"""Socket-level (worker-level) harness for C14, C15 and the recycling part of C18.

Runs the REAL `hypercorn.asyncio.run.worker_serve` / `hypercorn.trio.run.worker_serve`
with a real listening socket on 127.0.0.1 and plain non-blocking client sockets driven by
the script interpreter, entirely on a virtual clock:

* asyncio: an `asyncio.SelectorEventLoop` whose (real) selector is polled without blocking
  and whose `time()` is virtual; the interpreter steps the loop by hand (`_run_once`) and
  moves the clock to the next timer when nothing is runnable and no I/O is pending.
* trio: `trio.run(..., clock=MockClock(autojump_threshold=0))`; the interpreter is a trio task
  that settles with `wait_all_tasks_blocked` and sleeps from timer deadline to timer deadline.

Real time never decides a verdict: every `now` in the trace is virtual milliseconds.

Observation hooks (none of them changes behaviour; nothing under /repo is edited):
  * `config.logger_class` records `info("Running on ...")`            -> `listening`
  * the listening socket's accept is observed (asyncio: `socket._accept` of a socket
    subclass, trio: `trio.SocketListener.accept`)                      -> `c_accepted`
  * `hypercorn.<worker>.run.WorkerContext` is replaced by a subclass that reports the
    effective max_requests (jitter drawn) and the instant `terminate` is set
                                                                       -> `w_ctx`, `trigger`

Script (JSON-able dict):
  {"fam": str,
   "cfg": {"graceful": ms, "startup_to": ms, "shutdown_to": ms, "ka": ms,
           "max_requests": n | -1, "jitter": n},
   "prelisten": bool          # asyncio only: listen() before worker_serve (trio: always)
   "seed": n                  # mixed with VERIF_SEED into random.seed() (jitter draw)
   "life": {"startup": complete | failed | failed-keeps-running | raise | raise-after-recv |
                       return | return-after-recv | return-after-complete | hang | unknown,
            "shutdown": complete | complete-then-recv | failed | raise | hang | return,
            "state": [[key, val], ...]     # written into scope["state"] during startup
            "probe": [key, ...]            # read from the lifespan state at shutdown
            "gate": bool                   # wait for gate "life" before answering startup
            "sd_gate": bool},              # wait for gate "life_sd" before answering shutdown
   "apps": {rid: [op, ...]}   ops: ["gate"] ["recv"] ["start", status, content_length|-1]
                                   ["body", n, more] ["sleep", ms] ["return"] ["raise"]
                                   ["state_set", key, val] ["state_get", key]
   "steps": [{"s": "connect", "c": id} | {"s": "send", "c": id, "rid": str, "part": all|first|rest,
              "body": n, "close": bool} | {"s": "read"} | {"s": "close", "c": id} |
             {"s": "dt", "ms": n} | {"s": "tick", "to": ms} | {"s": "trigger"} |
             {"s": "go", "gate": name, "n": k}]}

Trace events (dicts; times = virtual ms; every kind has a fixed field set):
  w_open{worker,graceful,startup_to,shutdown_to,max_requests,jitter,ka,prelisten,startup,shutdown}
  w_ctx{max_eff}                 effective max_requests (config value + jitter drawn), -1 = None
  app_start{app,c,now,state_id}  app = x-rid of the request, or "life" (c = 0) for the lifespan scope
  app_state{app,c,op,key,val}    op = set | get on scope["state"]
  app_done{app,how,now,resp,bytes}   how = return|raise|cancelled|exc:<Class>; resp = complete|partial|none
  life_recv{type,now} life_send{type,outcome,now} life_done{how,now}
  listening{now}                 config.log.info("Running on ...")
  c_connect{c,now,connected,accepted}  connected = TCP handshake completed; accepted = the server's
                                 accept() call returned this connection while the step settled
  c_accepted{c,now}              the server accepted a connection that had been queued earlier
  c_send{c,n,rid,complete,now} c_recv{c,rid,status,complete,len,now}
  c_closed_by_server{c,how,now} c_close{c,now} c_garbage{c,now}
  trigger{source,now}            source = callable (script step / wind-down) | max_requests (context.terminate set)
  serve_done{outcome,now}        outcome = return | exc:<Class>
  tick{to} quiescent{now,open_conns} winddown{now} final{now} serve_cancelled_by_harness{} log{kind,text,now}
Every execution ends with a wind-down: all gates opened, all clients closed, keep-alive timeout run out,
shutdown triggered if the script did not, the clock run past every timeout, then `final`; when
worker_serve has not ended by then it is cancelled (`serve_cancelled_by_harness` follows `final`).
"""
from __future__ import annotations

import asyncio
import json
import os
import random
import selectors
import socket
import threading
import traceback
from concurrent.futures import ProcessPoolExecutor
from typing import Any, Dict, Iterator, List, Optional, Tuple

import hypercorn.config
from hypercorn.app_wrappers import ASGIWrapper
from hypercorn.config import Config, Sockets
from hypercorn.logging import Logger

from .h1parse import H1RespParser

hypercorn.config.time = lambda: 5000  # stable `date` header

CONFIRM = 0.0002  # real seconds: one extra I/O poll before a state is declared quiescent
DEFAULT_CFG = {"graceful": 3000, "startup_to": 2000, "shutdown_to": 1000, "ka": 5000,
               "max_requests": -1, "jitter": 0}
DEFAULT_LIFE = {"startup": "complete", "shutdown": "complete"}
DEFAULT_PROGRAM = [["start", 200, 2], ["body", 2, False]]


class ScriptedError(Exception):
    pass


class HarnessError(Exception):
    pass


def exc_name(exc: BaseException) -> str:
    if isinstance(exc, BaseExceptionGroup):
        return "Group[" + ",".join(sorted(exc_name(e) for e in exc.exceptions)) + "]"
    return type(exc).__name__


def build_request(rid: str, body: int = 0, close: bool = False, upgrade: str = "") -> bytes:
    head = "GET /%s HTTP/1.1\r\nhost: verif\r\nx-rid: %s\r\n" % (rid, rid)
    if upgrade == "h2c":
        # RFC 7540 3.2: the request becomes HTTP/2 stream 1 (the client side of this harness does not speak
        # HTTP/2: what comes back on such a connection is not parsed)
        head += "connection: Upgrade, HTTP2-Settings\r\nupgrade: h2c\r\nhttp2-settings: AAMAAABkAAQAAP__\r\n"
    if body:
        head += "content-length: %d\r\n" % body
    if close:
        head += "connection: close\r\n"
    head += "\r\n"
    return head.encode("ascii") + b"b" * body


# ------------------------------------------------------------------------------------------
# observation hooks
# ------------------------------------------------------------------------------------------
class WLogger(Logger):
    def __init__(self, config: Config, run: "WorkerRun") -> None:
        self.run = run
        self.access_log_format = config.access_log_format
        self.access_logger = None
        self.error_logger = None

    async def access(self, request, response, request_time) -> None:
        pass

    async def info(self, message: str, *args: Any, **kwargs: Any) -> None:
        if str(message).startswith("Running on"):
            self.run.log("listening", now=self.run.now())

    async def exception(self, message: str, *args: Any, **kwargs: Any) -> None:
        self.run.log("log", kind="exception", text=str(message)[:60], now=self.run.now())

    async def warning(self, message: str, *args: Any, **kwargs: Any) -> None:
        self.run.log("log", kind="warning", text=str(message)[:60], now=self.run.now())

    async def error(self, message: str, *args: Any, **kwargs: Any) -> None:
        self.run.log("log", kind="error", text=str(message)[:60], now=self.run.now())

    async def critical(self, message: str, *args: Any, **kwargs: Any) -> None:
        self.run.log("log", kind="critical", text=str(message)[:60], now=self.run.now())

    async def debug(self, message: str, *args: Any, **kwargs: Any) -> None:
        pass

    async def log(self, level: int, message: str, *args: Any, **kwargs: Any) -> None:
        pass


class ObsSocket(socket.socket):
    """Listening socket whose successful accepts are reported (asyncio worker)."""

    hook = None

    def _accept(self):  # called by socket.socket.accept
        fd, addr = super()._accept()
        if ObsSocket.hook is not None:
            ObsSocket.hook(addr)
        return fd, addr


def obs_context_class(base, run: "WorkerRun"):
    class ObsWorkerContext(base):  # type: ignore
        def __init__(self, max_requests: Optional[int]) -> None:
            super().__init__(max_requests)
            run.log("w_ctx", max_eff=-1 if max_requests is None else int(max_requests))

        async def mark_request(self) -> None:
            before = self.terminate.is_set()
            await super().mark_request()
            if not before and self.terminate.is_set():
                run.on_trigger("max_requests")

    return ObsWorkerContext


# ------------------------------------------------------------------------------------------
# gates, scripted application
# ------------------------------------------------------------------------------------------
class Gate:
    def __init__(self, run: "WorkerRun") -> None:
        self.run = run
        self.tokens = 0
        self.event: Any = None

    async def wait(self) -> None:
        while self.tokens <= 0 and not self.run.gates_open:
            self.event = self.run.new_event()
            await self.event.wait()
        if self.tokens > 0:
            self.tokens -= 1

    def grant(self, n: int = 1) -> None:
        self.tokens += n
        self.poke()

    def poke(self) -> None:
        if self.event is not None:
            self.event.set()


class ScriptedApp:
    """ASGI application: lifespan behaviour and per-request programs come from the script."""

    def __init__(self, run: "WorkerRun") -> None:
        self.run = run
        self.life = dict(DEFAULT_LIFE)
        self.life.update(run.script.get("life", {}))
        self.programs: Dict[str, List[Any]] = run.script.get("apps", {})
        self.states: List[Any] = []  # keeps state objects alive so ids are never reused
        self.anon = 0
        self.started: Dict[str, int] = {}

    def state_id(self, scope: Dict[str, Any]) -> int:
        st = scope.get("state")
        if st is None:
            return 0
        for i, obj in enumerate(self.states):
            if obj is st:
                return i + 1
        self.states.append(st)
        return len(self.states)

    async def __call__(self, scope, receive, send) -> None:
        if scope["type"] == "lifespan":
            await self.lifespan(scope, receive, send)
        elif scope["type"] == "http":
            await self.http(scope, receive, send)

    # ---- lifespan ----------------------------------------------------------------------
    async def _lrecv(self, receive) -> Dict[str, Any]:
        msg = await receive()
        self.run.log("life_recv", type=str(msg.get("type", "?")), now=self.run.now())
        return msg

    async def _lsend(self, send, mtype: str) -> None:
        try:
            await send({"type": mtype})
        except Exception:
            self.run.log("life_send", type=mtype, outcome="exc", now=self.run.now())
            raise
        self.run.log("life_send", type=mtype, outcome="ok", now=self.run.now())

    async def lifespan(self, scope, receive, send) -> None:
        run = self.run
        life = self.life
        st = life["startup"]
        sd = life["shutdown"]
        how = "return"
        run.log("app_start", app="life", c=0, now=run.now(), state_id=self.state_id(scope))
        try:
            if st == "raise":
                raise ScriptedError("lifespan not supported")
            if st == "return":
                return
            await self._lrecv(receive)
            for key, val in life.get("state", []):
                scope["state"][key] = val
                run.log("app_state", app="life", c=0, op="set", key=str(key), val=str(val))
            if life.get("gate"):
                await run.gate("life").wait()
            if st == "complete" or st == "return-after-complete":
                await self._lsend(send, "lifespan.startup.complete")
                if st == "return-after-complete":
                    return
            elif st == "failed":
                await self._lsend(send, "lifespan.startup.failed")
            elif st == "failed-keeps-running":
                try:
                    await self._lsend(send, "lifespan.startup.failed")
                except Exception:
                    pass
            elif st == "raise-after-recv":
                raise ScriptedError("lifespan not supported")
            elif st == "return-after-recv":
                return
            elif st == "hang":
                await run.new_event().wait()  # never set
            elif st == "unknown":
                await self._lsend(send, "lifespan.startup.bogus")
            else:
                raise HarnessError("unknown lifespan startup behaviour %r" % st)
            await self._lrecv(receive)
            for key in life.get("probe", []):
                val = scope["state"].get(key, "<unset>")
                run.log("app_state", app="life", c=0, op="get", key=str(key), val=str(val))
            if life.get("sd_gate"):
                await run.gate("life_sd").wait()
            if sd == "complete":
                await self._lsend(send, "lifespan.shutdown.complete")
            elif sd == "complete-then-recv":  # keeps listening: a second lifespan.shutdown would be seen
                await self._lsend(send, "lifespan.shutdown.complete")
                await self._lrecv(receive)
            elif sd == "failed":
                await self._lsend(send, "lifespan.shutdown.failed")
            elif sd == "raise":
                raise ScriptedError("scripted failure at shutdown")
            elif sd == "hang":
                await run.new_event().wait()
            elif sd == "return":
                return
            else:
                raise HarnessError("unknown lifespan shutdown behaviour %r" % sd)
        except BaseException as error:
            how = "cancelled" if "Cancel" in type(error).__name__ else "raise"
            raise
        finally:
            run.log("life_done", how=how, now=run.now())

    # ---- http --------------------------------------------------------------------------
    def rid_of(self, scope) -> str:
        for name, value in scope.get("headers", []):
            if bytes(name).lower() == b"x-rid":
                return bytes(value).decode("latin1")
        self.anon += 1
        return "anon%d" % self.anon

    async def http(self, scope, receive, send) -> None:
        run = self.run
        rid = self.rid_of(scope)
        k = self.started.get(rid, 0) + 1
        self.started[rid] = k
        program = self.programs.get(rid, self.programs.get("*", DEFAULT_PROGRAM))
        if k > 1:
            rid = "%s#%d" % (rid, k)
        client = scope.get("client")
        cid = run.conn_of_port(client[1]) if client else 0
        run.log("app_start", app=rid, c=cid, now=run.now(), state_id=self.state_id(scope))
        how = "return"
        started = False
        final_ok = False
        nbytes = 0
        try:
            for op in program:
                name = op[0]
                if name == "gate":
                    await run.gate(rid.split("#")[0]).wait()
                elif name == "recv":
                    await receive()
                elif name == "start":
                    headers = []
                    if op[2] >= 0:
                        headers.append((b"content-length", str(op[2]).encode()))
                    await send({"type": "http.response.start", "status": op[1], "headers": headers})
                    started = True
                elif name == "body":
                    more = bool(op[2])
                    await send({"type": "http.response.body", "body": b"x" * op[1], "more_body": more})
                    nbytes += op[1]
                    if not more:
                        final_ok = True
                elif name == "sleep":
                    await run.sleep(op[1] / 1000.0)
                elif name == "state_set":
                    scope["state"][op[1]] = op[2]
                    run.log("app_state", app=rid, c=cid, op="set", key=str(op[1]), val=str(op[2]))
                elif name == "state_get":
                    val = scope["state"].get(op[1], "<unset>")
                    run.log("app_state", app=rid, c=cid, op="get", key=str(op[1]), val=str(val))
                elif name == "return":
                    return
                elif name == "raise":
                    raise ScriptedError("scripted failure")
                else:
                    raise HarnessError("unknown op %r" % (op,))
        except ScriptedError:
            how = "raise"
            raise
        except BaseException as error:
            how = "cancelled" if "Cancel" in type(error).__name__ else "exc:" + type(error).__name__
            raise
        finally:
            resp = "complete" if (started and final_ok) else ("partial" if started else "none")
            run.log("app_done", app=rid, how=how, now=run.now(), resp=resp, bytes=nbytes)


# ------------------------------------------------------------------------------------------
# clients: plain non-blocking sockets operated by the interpreter
# ------------------------------------------------------------------------------------------
class Client:
    def __init__(self, cid: int) -> None:
        self.cid = cid
        self.sock: Optional[socket.socket] = None
        self.port = 0
        self.connected = False
        self.accepted = False
        self.logged_connect = False
        self.closed = False  # by either side
        self.parser = H1RespParser()
        self.sent_rids: List[str] = []
        self.pending: Dict[str, bytes] = {}
        self.cur_status = 0
        self.cur_len = 0
        self.in_resp = False
        self.answered = 0


class WorkerRun:
    worker = ""

    def __init__(self, script: Dict[str, Any], seed: int = 0) -> None:
        self.script = script
        self.seed = seed
        self.events: List[Dict[str, Any]] = []
        self.sealed = False
        self.cfg = dict(DEFAULT_CFG)
        self.cfg.update(script.get("cfg", {}))
        self.gates: Dict[str, Gate] = {}
        self.gates_open = False
        self.clients: Dict[int, Client] = {}
        self.by_port: Dict[int, Client] = {}
        self.triggered = False
        self.serve_finished = False
        self.app = ScriptedApp(self)
        self.lsock: Optional[socket.socket] = None
        self.addr: Tuple[str, int] = ("127.0.0.1", 0)
        self.prelisten = True
        self.loop_errors = 0

    # ---- to be provided by the environment ------------------------------------------------
    def now(self) -> int:
        raise NotImplementedError

    def new_event(self) -> Any:
        raise NotImplementedError

    async def sleep(self, seconds: float) -> None:
        raise NotImplementedError

    def fire_trigger(self) -> None:
        raise NotImplementedError

    # ---- trace ----------------------------------------------------------------------------
    def log(self, e: str, **fields: Any) -> None:
        if self.sealed:
            return
        ev: Dict[str, Any] = {"e": e}
        ev.update(fields)
        self.events.append(ev)

    def on_trigger(self, source: str) -> None:
        self.log("trigger", source=source, now=self.now())

    def on_accept(self, addr: Any) -> None:
        port = int(addr[1])
        cl = self.by_port.get(port)
        if cl is None:
            return
        cl.accepted = True
        if cl.logged_connect:
            self.log("c_accepted", c=cl.cid, now=self.now())

    def conn_of_port(self, port: int) -> int:
        cl = self.by_port.get(int(port))
        return cl.cid if cl is not None else 0

    def gate(self, name: str) -> Gate:
        if name not in self.gates:
            self.gates[name] = Gate(self)
        return self.gates[name]

    # ---- configuration ------------------------------------------------------------------
    def make_config(self) -> Config:
        cfg = self.cfg
        config = Config()
        config.accesslog = None
        config.errorlog = None
        config.graceful_timeout = cfg["graceful"] / 1000.0
        config.startup_timeout = cfg["startup_to"] / 1000.0
        config.shutdown_timeout = cfg["shutdown_to"] / 1000.0
        config.keep_alive_timeout = cfg["ka"] / 1000.0
        if cfg["max_requests"] >= 0:
            config.max_requests = cfg["max_requests"]
            config.max_requests_jitter = cfg["jitter"]
        config.logger_class = lambda c: WLogger(c, self)  # type: ignore
        return config

    def make_listener(self, cls=socket.socket) -> socket.socket:
        sock = cls(socket.AF_INET, socket.SOCK_STREAM)
        sock.setsockopt(socket.SOL_SOCKET, socket.SO_REUSEADDR, 1)
        # inherited by accepted sockets: without it Nagle + delayed ACK make the second small write
        # of a response arrive ~40 ms of REAL time later (asyncio sets TCP_NODELAY itself only when
        # the socket object was created with proto=IPPROTO_TCP)
        sock.setsockopt(socket.IPPROTO_TCP, socket.TCP_NODELAY, 1)
        sock.bind(("127.0.0.1", 0))
        sock.setblocking(False)
        if self.prelisten:
            sock.listen(100)
        self.addr = sock.getsockname()
        self.lsock = sock
        return sock

    def open_event(self) -> None:
        cfg = self.cfg
        self.log("w_open", worker=self.worker, graceful=cfg["graceful"], startup_to=cfg["startup_to"],
                 shutdown_to=cfg["shutdown_to"], max_requests=cfg["max_requests"], jitter=cfg["jitter"],
                 ka=cfg["ka"], prelisten=bool(self.prelisten),
                 startup=self.app.life["startup"], shutdown=self.app.life["shutdown"])

    # ---- client operations (synchronous) ---------------------------------------------------
    def c_connect(self, cid: int) -> None:
        cl = Client(cid)
        self.clients[cid] = cl
        s = socket.socket(socket.AF_INET, socket.SOCK_STREAM)
        s.settimeout(0.5)
        try:
            s.connect(self.addr)
            cl.connected = True
        except OSError:
            cl.connected = False
            cl.closed = True
            s.close()
        if cl.connected:
            s.setblocking(False)
            s.setsockopt(socket.IPPROTO_TCP, socket.TCP_NODELAY, 1)
            cl.sock = s
            cl.port = s.getsockname()[1]
            self.by_port[cl.port] = cl

    def c_connect_report(self, cid: int) -> None:
        """after the server had the chance to react: `connected` is the TCP handshake,
        `accepted` says the server code took the connection off the listening socket"""
        cl = self.clients[cid]
        self.log("c_connect", c=cid, now=self.now(), connected=cl.connected, accepted=cl.accepted)
        cl.logged_connect = True

    def c_send(self, st: Dict[str, Any]) -> None:
        cl = self.clients.get(st["c"])
        rid = str(st["rid"])
        part = st.get("part", "all")
        if cl is None:
            raise HarnessError("send on unknown client %r" % st["c"])
        if part == "rest":
            data = cl.pending.pop(rid, b"")
            complete = True
        else:
            full = build_request(rid, int(st.get("body", 0)), bool(st.get("close", False)), str(st.get("upgrade", "")))
            if st.get("upgrade"):
                cl.raw = True
            if part == "first":
                cut = int(st.get("cut", 0)) or (len(full) // 2)
                cut = max(1, min(cut, len(full) - 1))
                data = full[:cut]
                cl.pending[rid] = full[cut:]
                complete = False
            else:
                data = full
                complete = True
        n = 0
        if cl.sock is not None and not cl.closed and data:
            try:
                n = cl.sock.send(data)
            except (BlockingIOError, InterruptedError):
                n = 0
            except OSError:
                n = 0
                self._server_closed(cl, "reset")
        ok = n == len(data) and n > 0
        if ok and complete:
            cl.sent_rids.append(rid)
            cl.parser.expect("GET")
        self.log("c_send", c=cl.cid, n=n, rid=rid, complete=bool(ok and complete), now=self.now())

    def c_close(self, cid: int) -> None:
        cl = self.clients.get(cid)
        if cl is None or cl.closed or cl.sock is None:
            return
        self._flush_partial(cl)
        cl.closed = True
        try:
            cl.sock.close()
        except OSError:
            pass
        self.log("c_close", c=cid, now=self.now())

    def _flush_partial(self, cl: Client) -> None:
        if cl.in_resp:
            cl.in_resp = False
            self.log("c_recv", c=cl.cid, rid=self._rid_for(cl), status=cl.cur_status, complete=False,
                     len=cl.cur_len, now=self.now())

    def _rid_for(self, cl: Client) -> str:
        return cl.sent_rids[cl.answered] if cl.answered < len(cl.sent_rids) else "?"

    def _server_closed(self, cl: Client, how: str) -> None:
        if cl.closed:
            return
        if not getattr(cl, "raw", False):
            for ev in cl.parser.eof():
                self._parser_event(cl, ev)
        self._flush_partial(cl)
        cl.closed = True
        try:
            if cl.sock is not None:
                cl.sock.close()
        except OSError:
            pass
        self.log("c_closed_by_server", c=cl.cid, how=how, now=self.now())

    def _parser_event(self, cl: Client, ev: Dict[str, Any]) -> None:
        k = ev["k"]
        if k == "head":
            cl.in_resp = True
            cl.cur_status = int(ev["status"])
            cl.cur_len = 0
        elif k == "data":
            cl.cur_len += len(ev["data"])
        elif k == "end":
            if cl.in_resp:
                self.log("c_recv", c=cl.cid, rid=self._rid_for(cl), status=cl.cur_status, complete=True,
                         len=cl.cur_len, now=self.now())
                cl.in_resp = False
                cl.answered += 1
        elif k == "error":
            self.log("c_garbage", c=cl.cid, now=self.now())

    def poll_clients(self) -> bool:
        """Read whatever is available on every client socket. True when anything happened."""
        progress = False
        for cid in sorted(self.clients):
            cl = self.clients[cid]
            if cl.closed or cl.sock is None:
                continue
            while not cl.closed:
                try:
                    data = cl.sock.recv(65536)
                except (BlockingIOError, InterruptedError):
                    break
                except OSError:
                    self._server_closed(cl, "reset")
                    progress = True
                    break
                if data == b"":
                    self._server_closed(cl, "eof")
                    progress = True
                    break
                progress = True
                if getattr(cl, "raw", False):
                    continue
                for ev in cl.parser.feed(data):
                    self._parser_event(cl, ev)
        return progress

    def open_conns(self) -> int:
        return sum(1 for cl in self.clients.values() if cl.connected and not cl.closed)

    # ---- script interpreter: a generator, the environment settles after every yield --------
    def steps(self) -> Iterator[Any]:
        for st in self.script.get("steps", []):
            s = st["s"]
            if s == "dt":
                yield ("dt", int(st["ms"]))
                continue
            if s == "tick":
                yield ("to", int(st["to"]))
                continue
            if s == "connect":
                self.c_connect(int(st["c"]))
                yield ("settle", 0)
                self.c_connect_report(int(st["c"]))
                yield None
                continue
            if s == "send":
                self.c_send(st)
            elif s == "read":
                pass
            elif s == "close":
                self.c_close(int(st["c"]))
            elif s == "trigger":
                if not self.triggered and not self.serve_finished:
                    self.triggered = True
                    self.on_trigger("callable")
                    self.fire_trigger()
            elif s == "go":
                self.gate(str(st["gate"])).grant(int(st.get("n", 1)))
            else:
                raise HarnessError("unknown step %r" % (st,))
            yield None

    def winddown(self) -> Iterator[Any]:
        cfg = self.cfg
        self.log("winddown", now=self.now())
        self.gates_open = True
        for g in self.gates.values():
            g.poke()
        yield None
        for cid in sorted(self.clients):
            self.c_close(cid)
        yield None
        yield ("dt", cfg["ka"] + 1000)
        if not self.triggered and not self.serve_finished:
            self.triggered = True
            self.on_trigger("callable")
            self.fire_trigger()
            yield None
        yield ("dt", cfg["graceful"] + cfg["startup_to"] + cfg["shutdown_to"] + cfg["ka"] + 5000)


# ------------------------------------------------------------------------------------------
# asyncio environment
# ------------------------------------------------------------------------------------------
class _PollSelector(selectors.SelectSelector):
    patience = 0.0
    last_events = 0

    def select(self, timeout=None):
        events = super().select(self.patience)
        self.last_events = len(events)
        return events


class WLoop(asyncio.SelectorEventLoop):
    def __init__(self) -> None:
        self._vtime = 0.0
        self._psel = _PollSelector()
        super().__init__(self._psel)

    def time(self) -> float:
        return self._vtime

    def activate(self) -> None:
        self._thread_id = threading.get_ident()
        asyncio.events._set_running_loop(self)

    def deactivate(self) -> None:
        asyncio.events._set_running_loop(None)
        self._thread_id = None

    def _due(self) -> bool:
        return any((not h._cancelled) and h._when <= self._vtime for h in self._scheduled)

    def next_deadline(self) -> Optional[float]:
        whens = [h._when for h in self._scheduled if not h._cancelled]
        return min(whens) if whens else None

    def settle(self, limit: int = 200000) -> None:
        idle = 0
        n = 0
        while True:
            self._psel.patience = 0.0 if idle == 0 else CONFIRM
            self._run_once()
            n += 1
            if n > limit:
                raise HarnessError("asyncio loop does not become quiescent")
            if self._ready or self._due() or self._psel.last_events:
                idle = 0
                continue
            idle += 1
            if idle >= 2:
                return


class AioWorkerRun(WorkerRun):
    worker = "asyncio"

    def __init__(self, script: Dict[str, Any], seed: int = 0) -> None:
        super().__init__(script, seed)
        self.prelisten = bool(script.get("prelisten", False))
        self.loop = WLoop()
        self.serve_task: Optional[asyncio.Task] = None
        self.cancelled_by_harness = False

    def now(self) -> int:
        return int(round(self.loop._vtime * 1000))

    def new_event(self) -> Any:
        return asyncio.Event()

    async def sleep(self, seconds: float) -> None:
        await asyncio.sleep(seconds)

    def fire_trigger(self) -> None:
        self.trigger_event.set()

    def _loop_error(self, loop, context) -> None:
        self.loop_errors += 1

    def _serve_done(self, task: asyncio.Task) -> None:
        self.serve_finished = True
        if self.cancelled_by_harness:
            return
        if task.cancelled():
            outcome = "exc:CancelledError"
        else:
            exc = task.exception()
            outcome = "return" if exc is None else "exc:" + exc_name(exc)
        self.log("serve_done", outcome=outcome, now=self.now())

    def settle_and_poll(self) -> None:
        for _ in range(1000):
            self.loop.settle()
            if not self.poll_clients():
                return
        raise HarnessError("clients never become quiet")

    def advance(self, target_ms: int) -> None:
        loop = self.loop
        target = target_ms / 1000.0
        self.log("tick", to=target_ms)
        while True:
            self.settle_and_poll()
            d = loop.next_deadline()
            if d is None or d > target:
                break
            loop._vtime = max(loop._vtime, d)
        loop._vtime = max(loop._vtime, target)

    def run_steps(self, gen: Iterator[Any]) -> None:
        for item in gen:
            if item is not None:
                kind, val = item
                if kind == "settle":
                    self.settle_and_poll()
                    continue
                self.advance(val if kind == "to" else self.now() + val)
            self.settle_and_poll()
            self.log("quiescent", now=self.now(), open_conns=self.open_conns())

    def run(self) -> List[Dict[str, Any]]:
        import hypercorn.asyncio.run as arun
        from hypercorn.asyncio.worker_context import WorkerContext

        loop = self.loop
        loop.activate()
        loop.set_exception_handler(self._loop_error)
        saved_ctx = arun.WorkerContext
        ObsSocket.hook = self.on_accept
        try:
            arun.WorkerContext = obs_context_class(WorkerContext, self)
            random.seed(self.seed * 1000003 + int(self.script.get("seed", 0)))
            config = self.make_config()
            sock = self.make_listener(ObsSocket)
            self.trigger_event = asyncio.Event()
            self.open_event()
            self.serve_task = loop.create_task(
                arun.worker_serve(ASGIWrapper(self.app), config, sockets=Sockets([], [sock], []),
                                  shutdown_trigger=self.trigger_event.wait)
            )
            self.serve_task.add_done_callback(self._serve_done)
            self.settle_and_poll()
            self.log("quiescent", now=self.now(), open_conns=self.open_conns())
            self.run_steps(self.steps())
            self.run_steps(self.winddown())
            self.log("final", now=self.now())
            if not self.serve_task.done():
                self.cancelled_by_harness = True
                self.log("serve_cancelled_by_harness")
            self.sealed = True
        finally:
            arun.WorkerContext = saved_ctx
            ObsSocket.hook = None
            self.cleanup()
        return self.events

    def cleanup(self) -> None:
        loop = self.loop
        self.sealed = True
        try:
            for cl in self.clients.values():
                if cl.sock is not None and not cl.closed:
                    cl.sock.close()
                    cl.closed = True
            for _ in range(3):
                left = [t for t in asyncio.all_tasks(loop) if not t.done()]
                if not left:
                    break
                for t in left:
                    t.cancel()
                try:
                    loop.settle(limit=20000)
                except HarnessError:
                    loop._ready.clear()
                    break
            for t in asyncio.all_tasks(loop):
                if t.done() and not t.cancelled():
                    t.exception()
            if self.serve_task is not None and self.serve_task.done() and not self.serve_task.cancelled():
                self.serve_task.exception()
        finally:
            loop.deactivate()
            try:
                loop.close()
            except Exception:
                pass
            if self.lsock is not None:
                try:
                    self.lsock.close()
                except OSError:
                    pass


# ------------------------------------------------------------------------------------------
# trio environment
# ------------------------------------------------------------------------------------------
class TrioWorkerRun(WorkerRun):
    worker = "trio"

    def __init__(self, script: Dict[str, Any], seed: int = 0) -> None:
        super().__init__(script, seed)
        self.prelisten = True  # trio.SocketListener requires a listening socket
        self.cancelled_by_harness = False

    def now(self) -> int:
        import trio

        return int(round(trio.current_time() * 1000))

    def new_event(self) -> Any:
        import trio

        return trio.Event()

    async def sleep(self, seconds: float) -> None:
        import trio

        await trio.sleep(seconds)

    def fire_trigger(self) -> None:
        self.trigger_event.set()

    async def _serve(self, serve, config, sock) -> None:
        import trio

        try:
            # (script option no_trigger: the worker is started without a shutdown trigger, as hypercorn.trio.serve()
            #  does by default; only its own max_requests accounting can end it then)
            await serve(ASGIWrapper(self.app), config, sockets=Sockets([], [sock], []),
                        shutdown_trigger=None if self.script.get("no_trigger") else self.trigger_event.wait)
        except BaseException as error:
            self.serve_finished = True
            if not self.cancelled_by_harness:
                self.log("serve_done", outcome="exc:" + exc_name(error), now=self.now())
            if isinstance(error, (trio.Cancelled, KeyboardInterrupt, SystemExit)):
                raise
            if isinstance(error, BaseExceptionGroup) and error.subgroup(trio.Cancelled) is not None:
                raise
        else:
            self.serve_finished = True
            self.log("serve_done", outcome="return", now=self.now())

    async def settle(self) -> None:
        import trio.testing

        await trio.testing.wait_all_tasks_blocked()
        await trio.testing.wait_all_tasks_blocked(cushion=CONFIRM)

    async def settle_and_poll(self) -> None:
        for _ in range(1000):
            await self.settle()
            if not self.poll_clients():
                return
        raise HarnessError("clients never become quiet")

    async def advance(self, target_ms: int) -> None:
        import trio

        target = target_ms / 1000.0
        self.log("tick", to=target_ms)
        for _ in range(100000):
            await self.settle_and_poll()
            t = trio.current_time()
            nxt = trio.lowlevel.current_statistics().seconds_to_next_deadline
            if nxt == float("inf") or t + nxt > target:
                break
            if nxt <= 0:
                await trio.sleep(0)
            else:
                await trio.sleep_until(t + nxt)
        else:
            raise HarnessError("trio clock does not advance")
        if trio.current_time() < target:
            await trio.sleep_until(target)

    async def run_steps(self, gen: Iterator[Any]) -> None:
        for item in gen:
            if item is not None:
                kind, val = item
                if kind == "settle":
                    await self.settle_and_poll()
                    continue
                await self.advance(val if kind == "to" else self.now() + val)
            await self.settle_and_poll()
            self.log("quiescent", now=self.now(), open_conns=self.open_conns())

    async def _main(self) -> None:
        import trio

        import hypercorn.trio.run as trun

        config = self.make_config()
        sock = self.make_listener()
        self.trigger_event = trio.Event()
        self.open_event()
        async with trio.open_nursery() as nursery:
            nursery.start_soon(self._serve, trun.worker_serve, config, sock)
            await self.settle_and_poll()
            self.log("quiescent", now=self.now(), open_conns=self.open_conns())
            await self.run_steps(self.steps())
            await self.run_steps(self.winddown())
            self.log("final", now=self.now())
            if not self.serve_finished:
                self.cancelled_by_harness = True
                self.log("serve_cancelled_by_harness")
            self.sealed = True
            # (leftovers parked inside a shielded scope would outlive the cancellation, and with it this run)
            from .trio_env import _unshield

            for task in list(nursery.child_tasks):
                _unshield(task)
            nursery.cancel_scope.cancel()

    def run(self) -> List[Dict[str, Any]]:
        import trio
        import trio.testing

        import hypercorn.trio.run as trun
        from hypercorn.trio.worker_context import WorkerContext

        saved_ctx = trun.WorkerContext
        saved_accept = trio.SocketListener.accept
        run = self

        async def accept(listener):  # observation only
            stream = await saved_accept(listener)
            try:
                run.on_accept(stream.socket.getpeername())
            except OSError:
                pass
            return stream

        try:
            trun.WorkerContext = obs_context_class(WorkerContext, self)
            trio.SocketListener.accept = accept  # type: ignore
            random.seed(self.seed * 1000003 + int(self.script.get("seed", 0)))
            # reproducible scheduling: batches sorted by task creation order, then shuffled by the
            # seeded generator (without this, tasks woken by equal deadlines run in memory-address order)
            trio_run = trio._core._run
            saved_det = getattr(trio_run, "_ALLOW_DETERMINISTIC_SCHEDULING", None)
            if saved_det is not None:
                trio_run._ALLOW_DETERMINISTIC_SCHEDULING = True
            trio_run._r.seed(self.seed * 1000003 + int(self.script.get("seed", 0)))
            trio.run(self._main, clock=trio.testing.MockClock(autojump_threshold=0))
        finally:
            self.sealed = True
            trun.WorkerContext = saved_ctx
            trio.SocketListener.accept = saved_accept  # type: ignore
            if getattr(trio._core._run, "_ALLOW_DETERMINISTIC_SCHEDULING", None) is not None:
                trio._core._run._ALLOW_DETERMINISTIC_SCHEDULING = False
            for cl in self.clients.values():
                if cl.sock is not None and not cl.closed:
                    cl.sock.close()
                    cl.closed = True
            if self.lsock is not None:
                try:
                    self.lsock.close()
                except OSError:
                    pass
        return self.events


# ------------------------------------------------------------------------------------------
# entry points
# ------------------------------------------------------------------------------------------
def run_one(script: Dict[str, Any], worker: str, seed: int = 0) -> List[Dict[str, Any]]:
    script = json.loads(json.dumps(script))
    if worker == "asyncio":
        return AioWorkerRun(script, seed).run()
    if worker == "trio":
        return TrioWorkerRun(script, seed).run()
    raise HarnessError("unknown worker %r" % worker)


def _run_chunk(args: Tuple[List[Tuple[int, Dict[str, Any], str]], int]) -> List[Tuple[int, Any]]:
    chunk, seed = args
    out = []
    for idx, script, worker in chunk:
        try:
            out.append((idx, run_one(script, worker, seed)))
        except BaseException as error:  # harness failure, reported as such
            out.append((idx, {"harness_error": "".join(traceback.format_exception(error))[-2000:]}))
    return out


def run_many(jobs: List[Tuple[Dict[str, Any], str]], seed: int = 0, procs: int = 0) -> List[Any]:
    """jobs: (script, worker). Returns traces in job order (or {"harness_error": ...})."""
    procs = procs or min(16, os.cpu_count() or 1)
    indexed = [(i, s, w) for i, (s, w) in enumerate(jobs)]
    if len(indexed) < 24 or procs == 1:
        res = _run_chunk((indexed, seed))
    else:
        size = max(4, len(indexed) // (procs * 4))
        chunks = [(indexed[i: i + size], seed) for i in range(0, len(indexed), size)]
        res = []
        with ProcessPoolExecutor(max_workers=procs) as pool:
            for part in pool.map(_run_chunk, chunks):
                res.extend(part)
    res.sort(key=lambda x: x[0])
    return [r for _, r in res]


if __name__ == "__main__":  # python -m harness.worker_env script.json [asyncio|trio]
    import sys

    sc = json.load(open(sys.argv[1]))
    for w in sys.argv[2:] or ["asyncio", "trio"]:
        for ev in run_one(sc, w, int(os.environ.get("VERIF_SEED", "0") or 0)):
            print(json.dumps(ev, sort_keys=True))
