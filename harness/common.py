"""Shared helpers: deterministic payloads, trace log, small utilities."""
from __future__ import annotations

import json
from typing import Any, Dict, List

GUARD = "HYPERCORN_VERIF"


def pat(pid: int, off: int, length: int) -> bytes:
    """Position dependent payload: byte i of payload `pid`.

    A slice taken at a wrong offset, or from another payload id, differs
    with overwhelming probability, so loss, duplication, reordering and
    cross-request leakage all show up as a `match=false` at the expected offset.
    """
    return bytes(
        (pid * 131 + i * 7 + (i >> 8) * 13 + (i >> 16) * 17 + 1) & 0xFF
        for i in range(off, off + length)
    )


_TEXT_ALPHABET = "abcdefghijéü€中\U0001f600xyz0123"


def tpat(pid: int, off: int, length: int) -> str:
    """Position dependent text payload with 1..4 byte UTF-8 code points."""
    n = len(_TEXT_ALPHABET)
    return "".join(
        _TEXT_ALPHABET[(pid * 5 + i * 3 + (i >> 4) * 7) % n] for i in range(off, off + length)
    )


class Trace:
    """In-memory ndjson trace of one execution."""

    def __init__(self) -> None:
        self.events: List[Dict[str, Any]] = []
        self.now = 0  # virtual time in milliseconds, set by the environment
        self.sealed = False  # set after the final quiescent point: harness clean-up is not observed

    def log(self, e: str, **fields: Any) -> None:
        if self.sealed:
            return
        ev = {"e": e}
        ev.update(fields)
        self.events.append(ev)

    def dumps(self) -> str:
        return "\n".join(json.dumps(ev, sort_keys=True) for ev in self.events)


def ms(t: float) -> int:
    """Virtual seconds -> integer milliseconds (TLC works on integers)."""
    return int(round(t * 1000))


def hdrs_str(headers) -> List[List[str]]:
    out = []
    for name, value in headers:
        if isinstance(name, (bytes, bytearray)):
            name = bytes(name).decode("latin1")
        if isinstance(value, (bytes, bytearray)):
            value = bytes(value).decode("latin1")
        out.append([str(name), str(value)])
    return out
