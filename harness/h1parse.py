"""Independent, strict HTTP/1.x *response* parser used as the client-side observer.

It is deliberately not h11: the property (C02) asks for "an independent client
parser", and hand-rolled incremental parsing lets the observer follow pipelines,
1xx responses, HEAD and protocol switches without driving a client state machine.

Events produced (dicts):
  {"k":"info","status":..,"headers":[[n,v]..]}           1xx response
  {"k":"head","status":..,"headers":[..],"framing":..,"version":"1.1","close":bool}
  {"k":"data","off":..,"data":bytes}
  {"k":"end"}
  {"k":"switch","to":"websocket"|"h2c","rest":bytes}      after a 101
  {"k":"error","why":..}                                   malformed output (sticky)
"""
from __future__ import annotations

import re
from typing import Any, Dict, List, Optional

_STATUS_RE = re.compile(rb"^HTTP/1\.([01]) ([0-9]{3}) ([\t \x21-\x7e\x80-\xff]*)$")
_HDR_RE = re.compile(rb"^([!#$%&'*+\-.^_`|~0-9A-Za-z]+):[ \t]*(.*?)[ \t]*$")
_CHUNK_RE = re.compile(rb"^([0-9A-Fa-f]+)(;[^\r\n]*)?$")
_BAD_VALUE = re.compile(rb"[\x00\r\n]")


class H1RespParser:
    def __init__(self) -> None:
        self.buf = bytearray()
        self.methods: List[str] = []  # request methods the client has issued, in order
        self.upgrades: List[str] = []  # "", "websocket" or "h2c" per request
        self.resp_index = 0
        self.state = "head"  # head | body-cl | body-chunk-size | body-chunk-data | body-chunk-crlf
        #                     | trailers | body-close | switched | error | closed
        self.remaining = 0
        self.off = 0
        self.error: Optional[str] = None
        self.switched_rest = b""

    # the client tells the observer about each request it issues
    def expect(self, method: str, upgrade: str = "") -> None:
        self.methods.append(method.upper())
        self.upgrades.append(upgrade)

    def _fail(self, why: str) -> List[Dict[str, Any]]:
        self.state = "error"
        self.error = why
        return [{"k": "error", "why": why}]

    def feed(self, data: bytes) -> List[Dict[str, Any]]:
        if self.state == "switched":
            self.switched_rest += data
            return []
        if self.state == "error":
            return []
        self.buf.extend(data)
        out: List[Dict[str, Any]] = []
        while True:
            n = len(out)
            st = self.state
            self._step(out)
            if self.state in ("error", "switched"):
                break
            if len(out) == n and self.state == st:
                break
        return out

    def eof(self) -> List[Dict[str, Any]]:
        """Transport closed by the server."""
        if self.state == "body-close":
            self.state = "closed"
            return [{"k": "end"}]
        if self.state in ("head",) and len(self.buf) == 0:
            self.state = "closed"
            return []
        if self.state in ("error", "switched", "closed"):
            return []
        st = self.state
        self.state = "closed"
        return [{"k": "truncated", "in": st}]

    def _line(self) -> Optional[bytes]:
        i = self.buf.find(b"\r\n")
        if i < 0:
            return None
        line = bytes(self.buf[:i])
        del self.buf[: i + 2]
        return line

    def _step(self, out: List[Dict[str, Any]]) -> None:
        if self.state == "head":
            i = self.buf.find(b"\r\n\r\n")
            if i < 0:
                if len(self.buf) > 1 << 20:
                    out.extend(self._fail("head too long"))
                return
            block = bytes(self.buf[:i])
            del self.buf[: i + 4]
            lines = block.split(b"\r\n")
            m = _STATUS_RE.match(lines[0])
            if m is None:
                out.extend(self._fail("bad status line %r" % lines[0][:60]))
                return
            version = "1." + m.group(1).decode()
            status = int(m.group(2))
            headers = []
            for ln in lines[1:]:
                hm = _HDR_RE.match(ln)
                if hm is None or _BAD_VALUE.search(hm.group(2)):
                    out.extend(self._fail("bad header line %r" % ln[:60]))
                    return
                headers.append([hm.group(1).decode("latin1"), hm.group(2).decode("latin1")])
            lower = [(n.lower(), v) for n, v in headers]
            if 100 <= status < 200:
                if status == 101:
                    up = ""
                    for n, v in lower:
                        if n == "upgrade":
                            up = v.lower()
                    out.append({"k": "info", "status": status, "headers": headers})
                    self.state = "switched"
                    self.switched_rest = bytes(self.buf)
                    self.buf = bytearray()
                    out.append({"k": "switch", "to": up})
                    return
                out.append({"k": "info", "status": status, "headers": headers})
                return
            method = (
                self.methods[self.resp_index] if self.resp_index < len(self.methods) else ""
            )
            cl = [v for n, v in lower if n == "content-length"]
            te = [v for n, v in lower if n == "transfer-encoding"]
            conn_tokens = [
                t.strip().lower() for n, v in lower if n == "connection" for t in v.split(",")
            ]
            close = "close" in conn_tokens or (
                version == "1.0" and "keep-alive" not in conn_tokens
            )
            if method == "HEAD" or status in (204, 304):
                framing = "none"
            elif te:
                if te[-1].strip().lower() != "chunked":
                    out.extend(self._fail("transfer-encoding not chunked"))
                    return
                framing = "chunked"
            elif cl:
                if len(set(cl)) != 1 or not cl[0].isdigit():
                    out.extend(self._fail("bad content-length %r" % cl))
                    return
                framing = "cl"
            else:
                framing = "close"
            out.append(
                {
                    "k": "head",
                    "status": status,
                    "headers": headers,
                    "framing": framing,
                    "version": version,
                    "close": close,
                    "cl": int(cl[0]) if (cl and cl[0].isdigit()) else -1,
                }
            )
            self.off = 0
            if framing == "none":
                self._end(out)
            elif framing == "cl":
                self.remaining = int(cl[0])
                if self.remaining == 0:
                    self._end(out)
                else:
                    self.state = "body-cl"
            elif framing == "chunked":
                self.state = "body-chunk-size"
            else:
                self.state = "body-close"
        elif self.state == "body-cl":
            if not self.buf:
                return
            n = min(len(self.buf), self.remaining)
            data = bytes(self.buf[:n])
            del self.buf[:n]
            out.append({"k": "data", "off": self.off, "data": data})
            self.off += n
            self.remaining -= n
            if self.remaining == 0:
                self._end(out)
        elif self.state == "body-chunk-size":
            line = self._line()
            if line is None:
                return
            m = _CHUNK_RE.match(line)
            if m is None:
                out.extend(self._fail("bad chunk size line %r" % line[:40]))
                return
            self.remaining = int(m.group(1), 16)
            self.state = "trailers" if self.remaining == 0 else "body-chunk-data"
        elif self.state == "body-chunk-data":
            if not self.buf:
                return
            n = min(len(self.buf), self.remaining)
            data = bytes(self.buf[:n])
            del self.buf[:n]
            out.append({"k": "data", "off": self.off, "data": data})
            self.off += n
            self.remaining -= n
            if self.remaining == 0:
                self.state = "body-chunk-crlf"
        elif self.state == "body-chunk-crlf":
            if len(self.buf) < 2:
                return
            if bytes(self.buf[:2]) != b"\r\n":
                out.extend(self._fail("missing CRLF after chunk"))
                return
            del self.buf[:2]
            self.state = "body-chunk-size"
        elif self.state == "trailers":
            line = self._line()
            if line is None:
                return
            if line == b"":
                self._end(out)
            else:
                hm = _HDR_RE.match(line)
                if hm is None:
                    out.extend(self._fail("bad trailer line"))
                    return
                out.append(
                    {"k": "trailer", "headers": [[hm.group(1).decode(), hm.group(2).decode("latin1")]]}
                )
        elif self.state == "body-close":
            if not self.buf:
                return
            data = bytes(self.buf)
            self.buf = bytearray()
            out.append({"k": "data", "off": self.off, "data": data})
            self.off += len(data)

    def _end(self, out: List[Dict[str, Any]]) -> None:
        out.append({"k": "end"})
        self.resp_index += 1
        self.state = "head"
