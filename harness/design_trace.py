"""Design-trace validation: is a trace recorded from the real server a behaviour of the design
specification (spec/TraceH1.tla = H1Conn + logged stimuli/observations + silent server steps)?

The verdict is advisory (design drift), never a property violation: see DESIGN.md."""
from __future__ import annotations

import json
import os
import re
import shutil
import subprocess
from typing import Any, Dict, List, Optional, Tuple

from . import tlc


def project_h1(script: Dict[str, Any], trace: List[Dict[str, Any]]) -> Optional[Dict[str, Any]]:
    """Projection of a recorded trace onto the alphabet of TraceH1 (None: outside the design's scope)."""
    plan = script.get("plan")
    if not plan:
        return None
    evs: List[Dict[str, Any]] = []
    prev: Dict[str, Dict[str, Any]] = {}
    now = 0
    err_resp: set = set()
    finals: set = set()
    for ev in trace:
        e = ev["e"]
        if e == "winddown":
            break
        if e == "c_send":
            n = 0
            for p in ev.get("reqs", []):
                old = prev.get(p["app"], {"head": False, "body": 0, "done": False})
                n += int(p["head"]) - int(old["head"])
                n += (p["body"] - old["body"]) // 3
                n += int(p["done"]) - int(old["done"])
                prev[p["app"]] = {"head": p["head"], "body": p["body"], "done": p["done"]}
            if n:
                evs.append({"k": "send", "n": n})
        elif e == "c_eof":
            evs.append({"k": "eof"})
        elif e == "c_reset":
            evs.append({"k": "reset"})
        elif e == "t_fail":
            evs.append({"k": "fail"})
        elif e == "shutdown":
            evs.append({"k": "term"})
        elif e == "tick":
            steps = (ev["to"] - now) // 1000
            if (ev["to"] - now) % 1000:
                return None
            now = ev["to"]
            evs.extend({"k": "tick"} for _ in range(steps))
        elif e == "app_start":
            evs.append({"k": "start", "r": int(ev["app"])})
        elif e == "app_recv":
            if ev["type"] == "http.request":
                evs.append({"k": "recv", "r": int(ev["app"]), "m": "body" if ev.get("more") else "end"})
            elif ev["type"] == "http.disconnect":
                evs.append({"k": "recv", "r": int(ev["app"]), "m": "disc"})
            else:
                return None
        elif e == "app_call" and ev.get("op") == "recv":
            evs.append({"k": "rcall", "r": int(ev["app"])})
        elif e == "app_call" and ev.get("op") == "send":
            t = ev["m"]["type"]
            if t == "http.response.start":
                evs.append({"k": "sstart", "r": int(ev["app"])})
            elif t == "http.response.body":
                final = not ev["m"].get("more", False)
                evs.append({"k": "sbody", "r": int(ev["app"]), "final": final})
                if final:
                    finals.add(ev["app"])  # the design counts chunks of non-final sends only
            else:
                return None
        elif e == "app_ret":
            evs.append({"k": "ret", "r": int(ev["app"])})
        elif e == "app_done":
            evs.append({"k": "exit", "r": int(ev["app"])})
        elif e == "wire":
            kind = ev.get("kind")
            rid = ev.get("app", "")
            if kind == "head":
                if ev["status"] == 400:
                    err_resp.add(rid)
                    evs.append({"k": "werr"})
                else:
                    evs.append({"k": "whead", "r": int(rid), "status": ev["status"]})
            elif rid in err_resp:
                continue
            elif kind == "data":
                if ev.get("len", 0) > 0 and rid not in finals:
                    evs.append({"k": "wchunk", "r": int(rid)})
            elif kind == "end":
                evs.append({"k": "wend", "r": int(rid)})
            # truncated / error: what the client could not parse is not part of the design's alphabet
        elif e == "log" and ev.get("kind") == "access":
            evs.append({"k": "log", "r": int(ev["app"])})
        elif e == "t_close":
            evs.append({"k": "tclose"})
        elif e == "handler_done":
            evs.append({"k": "hdone"})
        elif e == "quiescent":
            if not evs or evs[-1]["k"] != "q":
                evs.append({"k": "q"})
    return {"plan": [{"body": p["body"], "close": bool(p["close"])} for p in plan], "evs": evs}


UNIT = 16384


def project_h2(script: Dict[str, Any], trace: List[Dict[str, Any]]) -> Optional[Dict[str, Any]]:
    """Projection onto the alphabet of TraceH2 (None: outside the design's scope, e.g. a frame that is
    not a whole number of units)."""
    sid_of: Dict[str, int] = {}
    for st in script.get("steps", []):
        if st.get("s") == "h2" and st.get("op") == "headers":
            sid_of[str(st["rid"])] = int(st["stream"])
    evs: List[Dict[str, Any]] = []
    begun = False
    body_call: Dict[str, bool] = {}
    for ev in trace:
        e = ev["e"]
        if e == "winddown":
            break
        if e == "app_call" and ev.get("op") == "send" and ev["m"]["type"] == "http.response.body":
            begun = True
            body_call[ev["app"]] = True
            evs.append({"k": "end" if not ev["m"].get("more", False) else "push", "s": sid_of[ev["app"]]})
        elif e == "app_call":
            body_call[ev["app"]] = False
        elif e == "app_ret" and body_call.get(ev["app"]):
            evs.append({"k": "ret", "s": sid_of[ev["app"]]})
        elif e == "c_frame" and ev.get("kind") == "wupd":
            if ev["n"] < UNIT:
                continue  # the one byte that makes the connection window a whole number of units
            if ev["n"] % UNIT:
                return None
            begun = True
            if ev["stream"] == 0:
                evs.append({"k": "wuc", "n": ev["n"] // UNIT})
            else:
                evs.append({"k": "wus", "s": int(ev["stream"]), "n": ev["n"] // UNIT})
        elif e == "c_rst":
            begun = True
            evs.append({"k": "rst", "s": int(ev["stream"])})
        elif e == "c_eof":
            begun = True
            evs.append({"k": "close"})
        elif e in ("c_reset", "t_fail", "shutdown"):
            return None
        elif e == "wire" and ev.get("kind") == "data" and ev.get("app") in sid_of:
            if ev.get("len", 0) == 0:
                continue
            if ev["len"] % UNIT:
                return None
            evs.append({"k": "wdata", "s": sid_of[ev["app"]], "n": ev["len"] // UNIT})
        elif e == "wire" and ev.get("kind") == "end" and ev.get("app") in sid_of:
            evs.append({"k": "wend", "s": sid_of[ev["app"]]})
        elif e == "quiescent" and begun:
            if not evs or evs[-1]["k"] != "q":
                evs.append({"k": "q"})
    return {"evs": evs}


def project_ws(script: Dict[str, Any], trace: List[Dict[str, Any]]) -> Optional[Dict[str, Any]]:
    """Projection onto the alphabet of TraceWS (HTTP/1.1 carrier only)."""
    if script.get("carrier", "h1") != "h1":
        return None
    unit = 10
    evs: List[Dict[str, Any]] = []
    begun = False
    for ev in trace:
        e = ev["e"]
        if e == "winddown":
            break
        if e == "app_call" and ev.get("op") == "send":
            begun = True
            t = ev["m"]["type"]
            if t == "websocket.accept":
                evs.append({"k": "accept"})
            elif t == "websocket.send":
                evs.append({"k": "sendmsg"})
            elif t == "websocket.close":
                evs.append({"k": "aclose", "code": int(ev["m"].get("code", 1000))})
            else:
                return None
        elif e == "app_recv":
            t = ev["type"]
            if t == "websocket.connect":
                evs.append({"k": "recv", "what": "connect", "arg": 0})
            elif t == "websocket.receive":
                evs.append({"k": "recv", "what": "receive", "arg": int(ev["mid"])})
            elif t == "websocket.disconnect":
                evs.append({"k": "recv", "what": "disconnect", "arg": int(ev.get("code", 0))})
            else:
                return None
        elif e == "c_frag":
            if ev["n"] % unit:
                return None
            evs.append({"k": "frag", "kind": ev["kind"], "first": ev["first"], "fin": ev["fin"], "part": ev["n"] // unit})
        elif e == "c_ws" and ev.get("early"):
            begun = True
            evs.append({"k": "early"})
        elif e == "wire" and ev.get("kind") == "head" and ev.get("status") == 400:
            evs.append({"k": "w400"})
        elif e == "c_ws" and ev.get("kind") == "close":
            evs.append({"k": "cclose", "code": 1005 if ev["size"] < 0 else int(ev["size"])})
        elif e == "c_eof":
            evs.append({"k": "lost"})
        elif e in ("c_reset", "t_fail", "shutdown"):
            return None
        elif e == "wire" and ev.get("kind") == "ws_accept":
            evs.append({"k": "w101"})
        elif e == "wire" and ev.get("kind") == "ws_close":
            evs.append({"k": "wclose", "code": int(ev["code"])})
        elif e == "handler_done" and ev.get("exc") not in ("none", "cancelled"):
            evs.append({"k": "crash"})
        elif e == "quiescent" and begun:
            if not evs or evs[-1]["k"] != "q":
                evs.append({"k": "q"})
    return {"evs": evs}


def check_ws(jobs: List[Tuple[Dict[str, Any], str]], traces: List[List[Dict[str, Any]]]) -> Dict[str, Any]:
    return check_design("TraceWS", "tlc/WSock/", project_ws, jobs, traces)


def diagnose(module: str, item: Dict[str, Any], at: int, cfg_subst: Optional[Dict[str, str]] = None) -> str:
    """The design states TLC reaches at position `at` of one projected trace (for reading, not parsed)."""
    d = tlc.scratch("dd-" + module)
    try:
        for name in os.listdir(tlc.SPEC):
            if name.endswith(".tla") or name.endswith(".cfg"):
                shutil.copy(os.path.join(tlc.SPEC, name), d)
        cfg = module + ".cfg"
        text = open(os.path.join(d, cfg)).read().replace("INVARIANT Report", "INVARIANT Diag")
        for old_, new_ in (cfg_subst or {}).items():
            text = text.replace(old_, new_)
        open(os.path.join(d, cfg), "w").write(text)
        tf = os.path.join(d, "traces.json")
        json.dump([item], open(tf, "w"))
        proc = subprocess.run(["tlc", "-workers", "1", "-metadir", os.path.join(d, "meta"), "-noGenerateSpecTE", "-config", cfg,
                               module + ".tla"], cwd=d, env=tlc.java_env({"TRACE_FILE": tf, "DIAG_L": str(at)}),
                              stdout=subprocess.PIPE, stderr=subprocess.STDOUT, text=True, timeout=600)
        return "\n".join(tlc.extract_tuples(proc.stdout, "STATE")) or proc.stdout[-2000:]
    finally:
        shutil.rmtree(d, ignore_errors=True)


def validate(module: str, items: List[Dict[str, Any]], timeout: int = 1800, progress: bool = False,
             keep: bool = False, cfg_subst: Optional[Dict[str, str]] = None) -> Dict[str, Any]:
    """Runs TLC on spec/<module>.tla over all projected traces at once.
    Returns {"accepted": set of indices, "reached": {index: highest l} (progress runs only), "states": n}."""
    d = tlc.scratch("dt-" + module)
    try:
        for name in os.listdir(tlc.SPEC):
            if name.endswith(".tla") or name.endswith(".cfg"):
                shutil.copy(os.path.join(tlc.SPEC, name), d)
        cfg = module + ".cfg"
        text = open(os.path.join(d, cfg)).read()
        if progress:
            text = text.replace("INVARIANT Report", "INVARIANT Progress")
        for old_, new_ in (cfg_subst or {}).items():
            if old_ not in text:
                raise tlc.TLCError("configuration %s has no %r to substitute" % (cfg, old_))
            text = text.replace(old_, new_)
        open(os.path.join(d, cfg), "w").write(text)
        tf = os.path.join(d, "traces.json")
        with open(tf, "w") as f:
            json.dump(items, f)
        cmd = ["tlc", "-workers", "8", "-metadir", os.path.join(d, "meta"), "-noGenerateSpecTE", "-config", cfg, module + ".tla"]
        proc = subprocess.run(cmd, cwd=d, env=tlc.java_env({"TRACE_FILE": tf}), stdout=subprocess.PIPE,
                              stderr=subprocess.STDOUT, text=True, timeout=timeout)
        out = proc.stdout
        if "Model checking completed. No error has been found" not in out:
            keep = True
            raise tlc.TLCError("design-trace validation with %s failed:\n%s\n(scratch kept: %s)"
                               % (module, "\n".join(out.splitlines()[-30:]), d))
        accepted = set(int(m) - 1 for m in re.findall(r'<<"ACCEPT", (\d+)>>', out))
        reached: Dict[int, int] = {}
        for t, l in re.findall(r'<<"AT", (\d+), (\d+)>>', out):
            reached[int(t) - 1] = max(reached.get(int(t) - 1, 0), int(l))
        m = re.search(r"(\d+) states generated, (\d+) distinct states found", out)
        return {"accepted": accepted, "reached": reached, "states": int(m.group(2)) if m else 0}
    finally:
        if not keep:
            shutil.rmtree(d, ignore_errors=True)


def check_design(module: str, prefix: str, project, jobs: List[Tuple[Dict[str, Any], str]],
                 traces: List[List[Dict[str, Any]]], cfg_subst: Optional[Dict[str, str]] = None,
                 only=None) -> Dict[str, Any]:
    items, where = [], []
    for i, ((sc, w), tr) in enumerate(zip(jobs, traces)):
        if not str(sc.get("fam", "")).startswith(prefix) or (only is not None and not only(sc)):
            continue
        it = project(sc, tr)
        if it is not None:
            items.append(it)
            where.append(i)
    if not items:
        return {"checked": 0, "accepted": 0, "drift": [], "states": 0}
    res = validate(module, items, cfg_subst=cfg_subst)
    drift = []
    rejected = [k for k in range(len(items)) if k not in res["accepted"]]
    if rejected:
        prog = validate(module, [items[k] for k in rejected], progress=True, cfg_subst=cfg_subst)
        for j, k in enumerate(rejected):
            at = prog["reached"].get(j, 1)
            evs = items[k]["evs"]
            sc, w = jobs[where[k]]
            drift.append({"family": sc.get("fam", ""), "worker": w, "matched_events": at - 1, "of": len(evs),
                          "next_event": evs[at - 1] if at - 1 < len(evs) else None, "job": where[k]})
    return {"checked": len(items), "accepted": len(items) - len(rejected), "drift": drift, "states": res["states"]}


def check_h2(jobs: List[Tuple[Dict[str, Any], str]], traces: List[List[Dict[str, Any]]]) -> Dict[str, Any]:
    """One TLC run per design instance among the executions (stream set, initial stream window, chunks per
    response are constants of the design)."""
    def inst(sc: Dict[str, Any]) -> Tuple[str, int, int]:
        d = sc.get("design") or {}
        return (d.get("streams", "TwoStreams"), int(d.get("init_win", 1)), int(d.get("max_chunks", 3)))

    insts = sorted(set(inst(sc) for sc, _ in jobs if str(sc.get("fam", "")).startswith("tlc/H2Conn/")))
    total: Dict[str, Any] = {"checked": 0, "accepted": 0, "drift": [], "states": 0}
    for it in insts:
        res = check_design("TraceH2", "tlc/H2Conn/", project_h2, jobs, traces,
                           cfg_subst={"Streams <- TwoStreams": "Streams <- %s" % it[0], "InitWin = 1": "InitWin = %d" % it[1],
                                      "MaxChunks = 3": "MaxChunks = %d" % it[2]},
                           only=lambda sc, it=it: inst(sc) == it)
        for k in ("checked", "accepted", "states"):
            total[k] += res[k]
        total["drift"] += res["drift"]
    return total


def check_h1(jobs: List[Tuple[Dict[str, Any], str]], traces: List[List[Dict[str, Any]]]) -> Dict[str, Any]:
    """Design conformance of the H1Conn-shaped executions among (jobs, traces); one TLC run per keep-alive
    timeout (a constant of the design)."""
    def ka(sc: Dict[str, Any]) -> int:
        return int((sc.get("design") or {}).get("ka", 2))

    kas = sorted(set(ka(sc) for sc, _ in jobs if str(sc.get("fam", "")).startswith("tlc/H1Conn/")))
    total: Dict[str, Any] = {"checked": 0, "accepted": 0, "drift": [], "states": 0}
    for k in kas:
        res = check_design("TraceH1", "tlc/H1Conn/", project_h1, jobs, traces,
                           cfg_subst={"KATimeout = 2": "KATimeout = %d" % k}, only=lambda sc, k=k: ka(sc) == k)
        for key in ("checked", "accepted", "states"):
            total[key] += res[key]
        total["drift"] += res["drift"]
    return total
