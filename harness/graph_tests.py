"""Stimulus words from the complete state graph of a small design instance.

TLC dumps the reachable graph (`-dump dot,actionlabels`).  The server's own steps cannot be steered in the
real code - the runtime schedules them - so the graph is folded: from a quiescent state (no server step
enabled) a stimulus is applied and the server runs until it is quiescent again, in every way the design
allows.  Every (quiescent state, enabled stimulus) pair is covered by one word: the shortest stimulus word
that can lead to the state, followed by the stimulus.  Words that are prefixes of other words are dropped.
The words are executed against the real code like the simulated behaviours (harness/from_tlc.py)."""
from __future__ import annotations

import os
import re
import shutil
import subprocess
from collections import deque
from typing import Any, Callable, Dict, List, Optional, Set, Tuple

from . import tlc

_EDGE = re.compile(r'^(-?\d+) -> (-?\d+) \[label="([^"]*)"')
_NODE = re.compile(r'^(-?\d+) \[label="')


def dump_graph(module: str, cfg_text: str, timeout: int = 1800, initials: bool = False, labels: bool = False) -> Any:
    """Returns (initial node, adjacency: node -> [(action label, node)], number of states); with `initials`
    the first component is the list of (initial node, its state text) instead."""
    d = tlc.scratch("graph-" + module)
    try:
        for name in os.listdir(tlc.SPEC):
            if name.endswith(".tla"):
                shutil.copy(os.path.join(tlc.SPEC, name), d)
        open(os.path.join(d, "G.cfg"), "w").write(cfg_text)
        dot = os.path.join(d, "graph.dot")
        proc = subprocess.run(["tlc", "-workers", "4", "-fp", "7", "-metadir", os.path.join(d, "meta"), "-noGenerateSpecTE",
                               "-dump", "dot,actionlabels", dot, "-config", "G.cfg", module + ".tla"],
                              cwd=d, env=tlc.java_env(), stdout=subprocess.PIPE, stderr=subprocess.STDOUT, text=True,
                              timeout=timeout)
        if "Model checking completed. No error has been found" not in proc.stdout:
            raise tlc.TLCError("graph dump of %s failed:\n%s" % (module, proc.stdout[-2000:]))
        adj: Dict[str, List[Tuple[str, str]]] = {}
        first: Optional[str] = None
        inits: List[Tuple[str, str]] = []
        texts: Dict[str, str] = {}
        nodes = 0
        with open(dot) as f:
            for line in f:
                m = _EDGE.match(line)
                if m:
                    adj.setdefault(m.group(1), []).append((m.group(3), m.group(2)))
                    continue
                m = _NODE.match(line)
                if m:
                    nodes += 1
                    if first is None:
                        first = m.group(1)   # TLC writes the initial state first
                    if "style = filled" in line:
                        inits.append((m.group(1), line))
                    if labels:
                        texts[m.group(1)] = line
                    adj.setdefault(m.group(1), [])
        if first is None:
            raise tlc.TLCError("empty graph for %s" % module)
        # node names are state fingerprints (stable for a given spec); the order of the lines is whatever the
        # workers happened to produce: sorted, so that the same seed derives the same words in every run
        for k in adj:
            adj[k].sort()
        adj = {k: adj[k] for k in sorted(adj)}
        inits.sort()
        if inits:
            first = inits[0][0]
        if labels:
            return inits, adj, texts
        if initials:
            return inits, adj, nodes
        return first, adj, nodes
    finally:
        shutil.rmtree(d, ignore_errors=True)


def stimulus_words(first: str, adj: Dict[str, List[Tuple[str, str]]], is_server: Callable[[str], bool],
                   max_len: int = 40) -> List[List[str]]:
    def settle(node: str) -> Set[str]:
        """quiescent states reachable by server steps only"""
        seen = {node}
        todo = [node]
        out: Set[str] = set()
        while todo:
            n = todo.pop()
            srv = [t for (a, t) in adj[n] if is_server(a) and t != n]
            if not srv:
                out.add(n)
            for t in srv:
                if t not in seen:
                    seen.add(t)
                    todo.append(t)
        return out

    word_of: Dict[str, List[str]] = {}
    queue: deque = deque()
    for q in sorted(settle(first)):
        word_of[q] = []
        queue.append(q)
    words: List[List[str]] = []
    while queue:
        q = queue.popleft()
        w = word_of[q]
        if len(w) >= max_len:
            continue
        stim = sorted(set(a for (a, t) in adj[q] if not is_server(a)))
        for a in stim:
            words.append(w + [a])
            for (a2, t) in adj[q]:
                if a2 != a:
                    continue
                for q2 in sorted(settle(t)):
                    if q2 not in word_of:
                        word_of[q2] = w + [a]
                        queue.append(q2)
    # drop proper prefixes
    keyed = sorted(set(tuple(w) for w in words))
    keep = []
    for i, w in enumerate(keyed):
        nxt = keyed[i + 1] if i + 1 < len(keyed) else ()
        if not (len(nxt) > len(w) and nxt[: len(w)] == w):
            keep.append(list(w))
    return keep


def cached_words(module: str, cfg_text: str, server: Set[str]) -> List[Tuple[str, List[List[str]]]]:
    """[(state text of an initial state, stimulus words from it)] for a design instance; computed once per
    content of the specification (a cache under .work/cache keyed by the hash of the .tla files and the cfg)."""
    import hashlib
    import json

    h = hashlib.sha1()
    for name in sorted(os.listdir(tlc.SPEC)):
        if name.endswith(".tla"):
            h.update(open(os.path.join(tlc.SPEC, name), "rb").read())
    h.update(cfg_text.encode())
    h.update(repr(sorted(server)).encode())
    cache = os.path.join(tlc.WORK, "cache")
    os.makedirs(cache, exist_ok=True)
    path = os.path.join(cache, "words-%s-%s.json" % (module, h.hexdigest()[:16]))
    if os.path.exists(path):
        try:
            return [(t, w) for t, w in json.load(open(path))]
        except Exception:  # noqa: BLE001 - a half-written cache file is recomputed
            pass
    inits, adj, _ = dump_graph(module, cfg_text, initials=True)
    out = [(text, stimulus_words(node, adj, lambda a: a.split("(")[0] in server)) for node, text in inits]
    tmp = path + ".%d.tmp" % os.getpid()
    json.dump(out, open(tmp, "w"))
    os.replace(tmp, path)
    return out


def edge_words(first: str, adj: Dict[str, List[Tuple[str, str]]], max_len: int = 60) -> List[List[Tuple[str, str]]]:
    """For designs without silent server steps (every action is a stimulus that includes the server's reaction):
    one word per edge of the graph - the shortest word to its source state followed by the edge - as
    [(action label, target node), ...]; proper prefixes dropped."""
    word_of: Dict[str, List[Tuple[str, str]]] = {first: []}
    queue: deque = deque([first])
    words: List[List[Tuple[str, str]]] = []
    while queue:
        n = queue.popleft()
        w = word_of[n]
        if len(w) >= max_len:
            continue
        for (a, t) in sorted(set(adj[n])):
            if t == n:
                continue
            words.append(w + [(a, t)])
            if t not in word_of:
                word_of[t] = w + [(a, t)]
                queue.append(t)
    keyed = sorted(set(tuple(w) for w in words))
    keep = []
    for i, w in enumerate(keyed):
        nxt = keyed[i + 1] if i + 1 < len(keyed) else ()
        if not (len(nxt) > len(w) and nxt[: len(w)] == w):
            keep.append(list(w))
    return keep
