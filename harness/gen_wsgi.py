"""C05, WSGI part: failing WSGI applications through the real WSGI adapters.

The abstract cases and their execution are those of harness/adapters/c17.py (every valid
application shape x raise position x runner); here only the failing shapes are kept and a case is
presented to the pipeline as a "script" executed by the runner `wsgi`."""
from __future__ import annotations

import random
from concurrent.futures import ProcessPoolExecutor
from typing import Any, Dict, Iterator, List, Tuple

from .adapters import c17


def gen_c05w(tier: str, rng: random.Random) -> Iterator[Dict[str, Any]]:
    reqs = c17.shape_requests()
    shapes = [a for a in c17.base_shapes() if a["raise_at"] != "none"]
    k = 0
    for app in shapes:
        for runner in c17.RUNNERS:
            k += 1
            if tier == "quick" and runner.endswith("-mw") and k % 2:
                continue
            case = c17._mk(runner, reqs[k % len(reqs)], app)
            yield {"case": case, "fam": "wsgi/%s/%s/%s/%s" % (app["raise_at"], app["start"], app["ret"], runner)}
    # the controls: the same shapes without a failure end normally (nothing may be flagged, final is sent)
    for app in [a for a in c17.base_shapes() if a["raise_at"] == "none"][: (6 if tier == "quick" else 1000)]:
        yield {"case": c17._mk("asyncio", reqs[0], app), "fam": "wsgi/none/%s/%s/asyncio" % (app["start"], app["ret"])}


def gen_c16w(tier: str, rng: random.Random) -> Iterator[Dict[str, Any]]:
    """C16, WSGI part: the same request and application shape through the asyncio and the trio adapter of the
    same kind, with sends that return at once and with sends that suspend."""
    reqs = c17.shape_requests()
    shapes = c17.base_shapes() if tier == "quick" else c17.all_shapes()
    k = 0
    for app in shapes:
        for kind in ("", "-mw"):
            for slow in (False, True):
                k += 1
                if tier == "quick" and kind == "-mw" and k % 2:
                    continue
                req = reqs[k % len(reqs)]
                pair = [dict(c17._mk(w + kind, req, app), slow_send=slow) for w in ("asyncio", "trio")]
                yield {"pair": pair, "fam": "wsgi-pair/%s/%s/%s/%s%s" % (app["raise_at"], app["start"], app["ret"],
                                                                        "worker" if not kind else "middleware",
                                                                        "/slow-sends" if slow else "")}


def _run_chunk(chunk: List[Dict[str, Any]]) -> List[Any]:
    import traceback

    out: List[Any] = []
    for sc in chunk:
        try:
            if "pair" in sc:
                out.append(c17.run_case(sc["pair"][0]) + c17.run_case(sc["pair"][1]))
                continue
            out.append(c17.run_case(sc["case"]))
        except BaseException as error:  # noqa: BLE001 - reported as a machinery failure by the pipeline
            out.append({"harness_error": "".join(traceback.format_exception(error))[-2000:]})
    return out


def run_many(jobs: List[Tuple[Dict[str, Any], str]], seed: int = 0, procs: int = 8) -> List[Any]:
    scripts = [sc for sc, _ in jobs]
    if not scripts:
        return []
    n = max(1, min(procs, len(scripts) // 8 or 1))
    chunks = [scripts[i::n] for i in range(n)]
    with ProcessPoolExecutor(max_workers=n) as pool:
        results = list(pool.map(_run_chunk, chunks))
    out: List[Any] = [None] * len(scripts)
    for ci, res in enumerate(results):
        for j, tr in enumerate(res):
            out[ci + j * n] = tr
    return out
