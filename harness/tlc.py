"""Running TLC: model checking of design specs, simulation, and batch trace validation."""
from __future__ import annotations

import json
import os
import re
import shutil
import subprocess
import tempfile
import time
from typing import Any, Dict, List, Optional, Tuple

VERIF = os.path.dirname(os.path.dirname(os.path.abspath(__file__)))
SPEC = os.path.join(VERIF, "spec")
WORK = os.path.join(VERIF, ".work")

TRACEMON = """---- MODULE TraceMon ----
EXTENDS Naturals, Sequences, TLC, Json, IOUtils
M == INSTANCE %(mon)s
Traces == JsonDeserialize(IOEnv.TRACE_FILE)
VARIABLES tid, l, m
vars == <<tid, l, m>>
Init == tid \\in 1..Len(Traces) /\\ l = 1 /\\ m = M!MInit
Next == /\\ l <= Len(Traces[tid])
        /\\ m' = M!MStep(m, Traces[tid][l])
        /\\ l' = l + 1
        /\\ UNCHANGED tid
Spec == Init /\\ [][Next]_vars
Report == (l > Len(Traces[tid])) => PrintT(<<"VERDICT", tid, l - 1, M!MFails(m)>>)
====
"""

TRACEMON_CFG = """SPECIFICATION Spec
INVARIANT Report
CHECK_DEADLOCK FALSE
"""


class TLCError(Exception):
    pass


def scratch(prefix: str = "run") -> str:
    os.makedirs(WORK, exist_ok=True)
    return tempfile.mkdtemp(prefix=prefix + "-", dir=WORK)


def _esc(value: Any) -> Any:
    """ASCII-only strings (TLC's JSON reader depends on the JVM default charset otherwise);
    ints must fit TLC's 32 bits."""
    if isinstance(value, str):
        return value.encode("unicode_escape").decode("ascii")
    if isinstance(value, bool):
        return value
    if isinstance(value, int):
        if abs(value) >= 2**31:
            raise TLCError("integer too large for TLC: %r" % value)
        return value
    if isinstance(value, float):
        raise TLCError("float in trace: %r" % value)
    if value is None:
        raise TLCError("null in trace")
    if isinstance(value, dict):
        return {k: _esc(v) for k, v in value.items()}
    if isinstance(value, (list, tuple)):
        return [_esc(v) for v in value]
    raise TLCError("unsupported value in trace: %r" % (value,))


def java_env(extra: Optional[Dict[str, str]] = None) -> Dict[str, str]:
    env = dict(os.environ)
    env.setdefault("JAVA_TOOL_OPTIONS", "-Dfile.encoding=UTF-8")
    if extra:
        env.update(extra)
    return env


_VERDICT = re.compile(r'^<<"VERDICT", (\d+), (\d+), (.*)>>$')


def extract_tuples(out: str, tag: str) -> List[str]:
    """TLC pretty-prints long values over several lines: find every `<<"tag", ...>>` by
    bracket matching and return it with whitespace normalised."""
    res = []
    pat = re.compile(r'<<\s*"%s"' % re.escape(tag))
    pos = 0
    while True:
        m = pat.search(out, pos)
        if m is None:
            break
        i = m.start()
        depth = 0
        j = i
        in_str = False
        while j < len(out):
            ch = out[j]
            if in_str:
                if ch == "\\":
                    j += 2
                    continue
                if ch == '"':
                    in_str = False
            elif ch == '"':
                in_str = True
            elif out.startswith("<<", j):
                depth += 1
                j += 2
                continue
            elif out.startswith(">>", j):
                depth -= 1
                j += 2
                if depth == 0:
                    break
                continue
            j += 1
        text = re.sub(r"\s+", " ", out[i:j])
        text = text.replace("<< ", "<<").replace(" >>", ">>")
        res.append(text)
        pos = j
    return res


def parse_fails(text: str) -> List[Tuple[str, str]]:
    """'<<<<"clause", "ctx">>, ...>>' -> [(clause, ctx)]"""
    return re.findall(r'<<"([^"]*)", "([^"]*)">>', text)


def validate_traces(
    monitor: str, traces: List[List[Dict[str, Any]]], timeout: int = 1800, keep: bool = False
) -> List[Dict[str, Any]]:
    """Check every trace against monitor module spec/props/<monitor>.tla in one JVM.
    Returns one verdict per trace: {"len": n, "fails": [(clause, ctx), ...]}."""
    if not traces:
        return []
    d = scratch("tm-" + monitor)
    try:
        for name in os.listdir(SPEC):
            if name.endswith(".tla"):
                shutil.copy(os.path.join(SPEC, name), d)
        props = os.path.join(SPEC, "props")
        for name in os.listdir(props):
            if name.endswith(".tla"):
                shutil.copy(os.path.join(props, name), d)
        with open(os.path.join(d, "TraceMon.tla"), "w") as f:
            f.write(TRACEMON % {"mon": monitor})
        with open(os.path.join(d, "TraceMon.cfg"), "w") as f:
            f.write(TRACEMON_CFG)
        tf = os.path.join(d, "traces.json")
        with open(tf, "w") as f:
            json.dump([_esc(t) for t in traces], f)
        cmd = [
            "tlc",
            "-workers",
            "1",
            "-metadir",
            os.path.join(d, "meta"),
            "-noGenerateSpecTE",
            "TraceMon.tla",
        ]
        proc = subprocess.run(
            cmd,
            cwd=d,
            env=java_env({"TRACE_FILE": tf}),
            stdout=subprocess.PIPE,
            stderr=subprocess.STDOUT,
            text=True,
            timeout=timeout,
        )
        out = proc.stdout
        verdicts: Dict[int, Dict[str, Any]] = {}
        for text in extract_tuples(out, "VERDICT"):
            mt = _VERDICT.match(text)
            if mt:
                tid = int(mt.group(1))
                verdicts[tid] = {"len": int(mt.group(2)), "fails": parse_fails(mt.group(3))}
        if len(verdicts) != len(traces) or "Model checking completed. No error has been found" not in out:
            keep = True
            raise TLCError(
                "trace validation with %s did not produce a verdict for every trace (%d of %d); "
                "TLC output tail:\n%s\n(scratch kept: %s)"
                % (monitor, len(verdicts), len(traces), "\n".join(out.splitlines()[-30:]), d)
            )
        res = []
        for i, t in enumerate(traces):
            v = verdicts[i + 1]
            if v["len"] != len(t):
                raise TLCError("verdict length mismatch for trace %d" % (i + 1))
            res.append(v)
        return res
    finally:
        if not keep:
            shutil.rmtree(d, ignore_errors=True)


_STATS = re.compile(r"(\d+) states generated, (\d+) distinct states found, (\d+) states left on queue")


def model_check(
    module: str,
    cfg: str,
    workers: int = 8,
    timeout: int = 3600,
    extra_args: Optional[List[str]] = None,
    expect_violation: bool = False,
    cfg_subst: Optional[Dict[str, str]] = None,
    coverage: bool = False,
) -> Dict[str, Any]:
    """Run TLC on spec/<module>.tla with spec/<cfg>. Returns stats.
    cfg_subst rewrites the configuration text (used to switch deviations on)."""
    d = scratch("mc-" + module)
    try:
        for name in os.listdir(SPEC):
            if name.endswith(".tla") or name.endswith(".cfg"):
                shutil.copy(os.path.join(SPEC, name), d)
        if cfg_subst:
            text = open(os.path.join(d, cfg)).read()
            for old, new in cfg_subst.items():
                if old not in text:
                    raise TLCError("cfg substitution %r not applicable to %s" % (old, cfg))
                text = text.replace(old, new)
            with open(os.path.join(d, cfg), "w") as f:
                f.write(text)
        props = os.path.join(SPEC, "props")
        for name in os.listdir(props):
            if name.endswith(".tla"):
                shutil.copy(os.path.join(props, name), d)
        cmd = [
            "tlc",
            "-workers",
            str(workers),
            "-metadir",
            os.path.join(d, "meta"),
            "-noGenerateSpecTE",
            "-config",
            cfg,
        ] + (["-coverage", "1"] if coverage else []) + (extra_args or []) + [module + ".tla"]
        t0 = time.time()
        proc = subprocess.run(
            cmd, cwd=d, env=java_env(), stdout=subprocess.PIPE, stderr=subprocess.STDOUT,
            text=True, timeout=timeout,
        )
        out = proc.stdout
        stats = {"generated": 0, "distinct": 0, "wall_s": round(time.time() - t0, 2)}
        for mt in _STATS.finditer(out):
            stats["generated"] = int(mt.group(1))
            stats["distinct"] = int(mt.group(2))
        ok = "Model checking completed. No error has been found" in out
        violated = "is violated" in out or "Error: Deadlock reached" in out or "Temporal properties were violated" in out
        stats["ok"] = ok
        stats["violated"] = violated
        mv = re.search(r"Invariant (\w+) is violated", out)
        stats["violated_invariant"] = mv.group(1) if mv else ""
        # per-action counts of the last coverage report: an action that never generated a state was
        # never enabled, i.e. the properties were not exercised against it (vacuity)
        acts: Dict[str, int] = {}
        for mt in re.finditer(r"^<(\w+) line \d+, col \d+ to line \d+, col \d+ of module \w+>: (\d+):(\d+)\s*$", out, re.M):
            acts[mt.group(1)] = int(mt.group(3))
        stats["actions"] = acts
        stats["never_enabled"] = sorted(a for a, n in acts.items() if n == 0 and a != "Init")
        stats["output_tail"] = "\n".join(out.splitlines()[-25:])
        stats["output"] = out
        if not ok and not violated:
            raise TLCError("TLC failed on %s/%s:\n%s" % (module, cfg, stats["output_tail"]))
        return stats
    finally:
        shutil.rmtree(d, ignore_errors=True)
