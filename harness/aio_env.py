"""asyncio environment: the real hypercorn.asyncio.tcp_server.TCPServer under a virtual
clock, on top of genuine asyncio stream classes and a fake transport."""
from __future__ import annotations

import asyncio
import selectors
import socket
import threading
from typing import Any, Dict, List, Optional

from hypercorn.app_wrappers import ASGIWrapper
from hypercorn.asyncio.tcp_server import TCPServer
from hypercorn.asyncio.worker_context import WorkerContext

from .common import ms


class _NullSelector(selectors.SelectSelector):
    def select(self, timeout=None):  # never blocks, never reports I/O
        return []


class VLoop(asyncio.SelectorEventLoop):
    def __init__(self) -> None:
        super().__init__(_NullSelector())
        self._vtime = 0.0
        self.iterations = 0

    def time(self) -> float:
        return self._vtime

    def activate(self) -> None:
        self._thread_id = threading.get_ident()
        asyncio.events._set_running_loop(self)

    def deactivate(self) -> None:
        asyncio.events._set_running_loop(None)
        self._thread_id = None

    def _due(self) -> bool:
        return any((not h._cancelled) and h._when <= self._vtime for h in self._scheduled)

    def settle(self, limit: int = 50000) -> int:
        n = 0
        while self._ready or self._due():
            self._run_once()
            n += 1
            if n > limit:
                raise SpinError("event loop does not become quiescent (spinning)")
        self.iterations += n
        return n

    def next_deadline(self) -> Optional[float]:
        whens = [h._when for h in self._scheduled if not h._cancelled]
        return min(whens) if whens else None


class SpinError(RuntimeError):
    pass


class FakeSocket:
    family = socket.AF_INET

    def getpeername(self):
        return ("10.1.2.3", 45678)

    def getsockname(self):
        return ("10.9.8.7", 8080)


class FakeSSLObject:
    def __init__(self, alpn: Optional[str]) -> None:
        self._alpn = alpn

    def selected_alpn_protocol(self) -> Optional[str]:
        return self._alpn


class FakeTransport(asyncio.Transport):
    """Mirrors _SelectorSocketTransport's observable contract (write/close/eof/flow control)."""

    HIGH = 64 * 1024
    LOW = 16 * 1024

    def __init__(self, loop: VLoop, protocol, env: "AioEnv", extra: Dict[str, Any]) -> None:
        super().__init__(extra)
        self.loop = loop
        self.protocol = protocol
        self.env = env
        self._closing = False
        self._conn_lost = 0
        self._eof = False
        self.buffer = bytearray()  # accepted by write(), not yet taken by the client
        # how much a client that does not read lets the server write before writing is paused (the kernel's
        # and the transport's buffers together); scripts may make it small: script["transport_high"]
        high = env.sess.script.get("transport_high")
        if high is not None:
            self.HIGH = int(high)
            self.LOW = int(high) // 4
        self.client_paused = False
        self.proto_paused = False
        self.write_fails = False
        self.reading_paused = False
        self.inbound: List[Any] = []  # client data held while reading is paused
        self.lost_called = False

    # ---- server-facing API ------------------------------------------------------------
    def is_closing(self) -> bool:
        return self._closing

    def get_write_buffer_size(self) -> int:
        return len(self.buffer)

    def get_write_buffer_limits(self):
        return (self.LOW, self.HIGH)

    def set_write_buffer_limits(self, high=None, low=None) -> None:
        pass

    def can_write_eof(self) -> bool:
        return True

    def write(self, data) -> None:
        if self._eof:
            raise RuntimeError("Cannot call write() after write_eof()")
        if not data:
            return
        if self._conn_lost:
            self._conn_lost += 1
            return
        if self.write_fails:
            self._fatal_error(BrokenPipeError(32, "Broken pipe"))
            return
        self.env.written += len(data)
        if self.client_paused:
            self.buffer.extend(data)
            if len(self.buffer) > self.HIGH and not self.proto_paused:
                self.proto_paused = True
                self.protocol.pause_writing()
        else:
            self.env.deliver(bytes(data))

    def writelines(self, list_of_data) -> None:
        self.write(b"".join(list_of_data))

    def write_eof(self) -> None:
        if self._closing or self._eof:
            return
        self._eof = True
        if not self.buffer:
            self.env.on_server_eof()

    def close(self) -> None:
        if self._closing:
            return
        self._closing = True
        self.env.on_server_close()
        if not self.buffer:
            self._conn_lost += 1
            self.loop.call_soon(self._call_connection_lost, None)

    def abort(self) -> None:
        self._force_close(None)

    def _fatal_error(self, exc: BaseException) -> None:
        self._force_close(exc)

    def _force_close(self, exc: Optional[BaseException]) -> None:
        if self._conn_lost:
            return
        self.buffer.clear()
        if not self._closing:
            self._closing = True
            self.env.on_server_close()
        self._conn_lost += 1
        self.loop.call_soon(self._call_connection_lost, exc)

    def _call_connection_lost(self, exc: Optional[BaseException]) -> None:
        if self.lost_called:
            return
        self.lost_called = True
        self.protocol.connection_lost(exc)

    def pause_reading(self) -> None:
        self.reading_paused = True

    def resume_reading(self) -> None:
        self.reading_paused = False
        pending, self.inbound = self.inbound, []
        for item in pending:
            self._inbound(item)

    def is_reading(self) -> bool:
        return not self.reading_paused and not self._closing

    # ---- client-facing API ------------------------------------------------------------
    def _inbound(self, item) -> None:
        if self._closing or self._conn_lost:
            return
        if self.reading_paused:
            self.inbound.append(item)
            return
        if item is None:  # EOF
            keep_open = self.protocol.eof_received()
            if not keep_open:
                self.close()
        else:
            self.protocol.data_received(item)

    def client_send(self, data: bytes) -> None:
        self._inbound(data)

    def client_eof(self) -> None:
        self._inbound(None)

    def client_reset(self) -> None:
        self.inbound = []
        self._fatal_error(ConnectionResetError(104, "Connection reset by peer"))

    def client_pause(self) -> None:
        self.client_paused = True

    def client_resume(self) -> None:
        self.client_paused = False
        if self.buffer:
            data = bytes(self.buffer)
            self.buffer.clear()
            self.env.deliver(data)
        if self.proto_paused:
            self.proto_paused = False
            self.protocol.resume_writing()
        if self._eof and not self._closing:
            self.env.on_server_eof()
        if self._closing and not self._conn_lost:
            self._conn_lost += 1
            self.loop.call_soon(self._call_connection_lost, None)


class AioGate:
    def __init__(self, env: "AioEnv", rid: str) -> None:
        self.env = env
        self.rid = rid
        self.event = asyncio.Event()

    async def wait(self) -> None:
        while not self.env.take_token(self.rid):
            self.event.clear()
            await self.event.wait()

    def poke(self) -> None:
        self.event.set()


class AioEnv:
    worker = "asyncio"

    def __init__(self, sess) -> None:
        self.sess = sess
        sess.env = self
        self.loop = VLoop()
        self.tokens: Dict[str, int] = {}
        self.open_gates = False
        self.gates: Dict[str, AioGate] = {}
        self.written = 0  # bytes accepted by the transport
        self.delivered = 0  # bytes that reached the client
        self.server_closed = False
        self.client_is_gone = False
        self.handler_done = False
        self.loop_errors = 0

    # ---- gates ------------------------------------------------------------------------
    def new_gate(self, rid: str) -> AioGate:
        gate = AioGate(self, rid)
        self.gates[rid] = gate
        return gate

    def take_token(self, rid: str) -> bool:
        if self.open_gates:
            return True
        base = rid.split("#")[0]
        if self.tokens.get(base, 0) > 0:
            self.tokens[base] -= 1
            return True
        return False

    def grant(self, rid: str, n: int) -> None:
        self.tokens[rid] = self.tokens.get(rid, 0) + n
        for key, gate in self.gates.items():
            if key.split("#")[0] == rid:
                gate.poke()

    def grant_all(self) -> None:
        self.open_gates = True
        for gate in self.gates.values():
            gate.poke()

    async def sleep(self, dt: float) -> None:
        await asyncio.sleep(dt)

    async def cancel_self(self) -> bool:
        asyncio.current_task().cancel()
        await asyncio.sleep(0)
        return True

    # ---- wiring -----------------------------------------------------------------------
    def start(self) -> None:
        sess = self.sess
        loop = self.loop
        loop.activate()
        loop.set_exception_handler(self._loop_error)
        reader = asyncio.StreamReader(limit=2**16, loop=loop)
        protocol = asyncio.StreamReaderProtocol(reader, loop=loop)
        extra: Dict[str, Any] = {"socket": FakeSocket(), "peername": ("10.1.2.3", 45678)}
        if sess.carrier == "h2":
            extra["ssl_object"] = FakeSSLObject("h2")
        elif sess.script.get("tls"):
            extra["ssl_object"] = FakeSSLObject(sess.script.get("alpn"))
        self.transport = FakeTransport(loop, protocol, self, extra)
        protocol.connection_made(self.transport)
        writer = asyncio.StreamWriter(self.transport, protocol, reader, loop)
        self.context = WorkerContext(sess.script.get("max_requests"))
        self.server = TCPServer(
            ASGIWrapper(sess.puppet), loop, sess.config, self.context, {}, reader, writer
        )
        sess.open_event()
        self.task = loop.create_task(self.server.run(), name="handler")
        self.task.add_done_callback(self._handler_done)

    def _loop_error(self, loop, context) -> None:
        self.loop_errors += 1
        exc = context.get("exception")
        self.sess.trace.log(
            "loop_error",
            text=str(context.get("message", ""))[:100],
            exc=type(exc).__name__ if exc is not None else "",
        )

    def _handler_done(self, task: asyncio.Task) -> None:
        self.handler_done = True
        exc = None
        if task.cancelled():
            name = "cancelled"
        else:
            exc = task.exception()
            name = "none" if exc is None else _exc_name(exc)
        self.sess.trace.log("handler_done", exc=name, now=ms(self.loop.time()))

    # ---- transport callbacks ------------------------------------------------------------
    def deliver(self, data: bytes) -> None:
        self.delivered += len(data)
        self.sess.client.on_wire(data)

    def on_server_eof(self) -> None:
        self.sess.trace.log("t_eof", now=ms(self.loop.time()))

    def on_server_close(self) -> None:
        if not self.server_closed:
            self.server_closed = True
            self.sess.trace.log("t_close", now=ms(self.loop.time()))
            self.sess.client.on_close()

    # ---- stimuli ------------------------------------------------------------------------
    def feed(self, data: bytes) -> None:
        self.transport.client_send(data)

    def c_eof(self) -> None:
        self.client_is_gone = True
        self.transport.client_eof()

    def c_reset(self) -> None:
        self.client_is_gone = True
        self.transport.client_reset()

    def t_pause(self) -> None:
        self.transport.client_pause()

    def t_resume(self) -> None:
        self.transport.client_resume()

    def t_fail(self) -> None:
        self.transport.write_fails = True

    def shutdown(self) -> None:
        self.context.terminated._event.set()

    def client_paused(self) -> bool:
        return self.transport.client_paused

    def client_gone(self) -> bool:
        return self.client_is_gone or self.server_closed

    # ---- running ------------------------------------------------------------------------
    def quiescent(self, steps: int) -> None:
        live = sorted(
            t.get_name() if t.get_name() == "handler" else "task"
            for t in asyncio.all_tasks(self.loop)
            if not t.done()
        )
        self.sess.trace.log(
            "quiescent",
            now=ms(self.loop.time()),
            live=len(live),
            handler=("handler" in live),
            held=self.sess.accepted_bytes() - self.written,
            tbuf=len(self.transport.buffer),
            steps=steps,
        )

    def run_steps(self, gen) -> None:
        loop = self.loop
        for item in gen:
            steps = 0
            if item is not None:
                kind, val = item
                target = val if kind == "tick" else loop.time() + val
                # the clock moves on a millisecond grid, and a deadline computed as "now + timeout" in floating
                # point is not missed by 1e-16 at the instant the monitors (integer milliseconds) call it due
                target = round(target * 1000) / 1000
                self.sess.trace.log("tick", to=ms(target))
                while True:
                    d = loop.next_deadline()
                    if d is None or d > target + 1e-7:
                        break
                    loop._vtime = max(loop._vtime, d)
                    steps += loop.settle()
                loop._vtime = max(loop._vtime, target)
            steps += loop.settle()
            self.quiescent(steps)

    def run(self) -> None:
        try:
            self.start()
            steps = self.loop.settle()
            self.quiescent(steps)
            self.run_steps(self.sess.steps())
            self.run_steps(self.sess.finish_steps())
            self.sess.trace.sealed = True
        except SpinError:
            # the server never became quiescent: recorded as an observation, judged by the monitors
            self.sess.trace.log("spin", now=ms(self.loop.time()))
            self.sess.trace.sealed = True
        finally:
            self.cleanup()

    def cleanup(self) -> None:
        loop = self.loop
        try:
            leftovers = [t for t in asyncio.all_tasks(loop) if not t.done()]
            for t in leftovers:
                t.cancel()
            loop.set_exception_handler(lambda l, c: None)
            try:
                loop.settle(limit=10000)
            except RuntimeError:
                loop._ready.clear()
            for t in leftovers:
                if t.done() and not t.cancelled():
                    t.exception()
        finally:
            loop.deactivate()
            loop.close()


def _exc_name(exc: BaseException) -> str:
    if isinstance(exc, BaseExceptionGroup):
        return "Group[" + ",".join(sorted(_exc_name(e) for e in exc.exceptions)) + "]"
    return type(exc).__name__
