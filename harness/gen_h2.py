"""Driver-side stimulus enumeration for HTTP/2 connections."""
from __future__ import annotations

import random
from typing import Any, Dict, Iterator, List, Optional

import hyperframe.frame as hf

from . import build
from .gen_h1 import RESP_HEADER_SETS, gated_app, resp_program, std_ops, target_variants


def h2_script(steps: List[Dict[str, Any]], apps: Dict[str, Any], fam: str, cfg: Optional[Dict[str, Any]] = None,
              settings: Optional[Dict[str, int]] = None, autoack: bool = True, maxchunk: int = 16384,
              bodies: Optional[Dict[str, List[int]]] = None, carrier: str = "h2") -> Dict[str, Any]:
    sc: Dict[str, Any] = {"carrier": carrier, "cfg": cfg or {}, "apps": apps, "steps": steps, "fam": fam,
                          "autoack": autoack, "maxchunk": maxchunk, "bodies": bodies or {}}
    if settings:
        sc["h2_settings"] = {str(k): v for k, v in settings.items()}
    return sc


def big_resp(rid: int, total: int, chunk: int, status: int = 200, read: bool = True) -> List[Any]:
    sizes = []
    left = total
    while left > 0:
        sizes.append(min(chunk, left))
        left -= sizes[-1]
    prog: List[Any] = [["recv_body"]] if read else []
    prog.append(["send", {"type": "http.response.start", "status": status, "headers": []}])
    off = 0
    for i, size in enumerate(sizes):
        prog.append(["send", {"type": "http.response.body", "pat": [100 + rid, off, size], "more": i < len(sizes) - 1}])
        off += size
    if not sizes:
        prog.append(["send", {"type": "http.response.body", "more": False}])
    prog.append(["recv_disc"])
    return prog


def gen_flow(tier: str, rng: random.Random) -> Iterator[Dict[str, Any]]:
    """C09/C08: initial windows x response sizes x chunkings x credit plans x number of streams."""
    windows = [0, 1, 100, 16384, 65535, 1000000]
    shapes = [(10, 10), (5000, 1000), (40000, 16384), (70000, 70000), (200000, 20000), (100, 1)]
    for nstreams in (1, 2, 3):
        for W in windows:
            for total, chunk in shapes:
                if tier == "quick" and rng.random() < (0.75 if nstreams > 1 else 0.5):
                    continue
                for plan in ("stream-then-conn", "conn-then-stream", "dribble", "settings-grow", "none-then-flood"):
                    if tier == "quick" and rng.random() < 0.6:
                        continue
                    steps: List[Dict[str, Any]] = []
                    apps = {}
                    for i in range(nstreams):
                        sid = 1 + 2 * i
                        steps.append(build.h2_headers(i + 1, sid, "GET", toks=[["/s%d" % sid, "/s%d" % sid]]))
                        apps[str(i + 1)] = big_resp(i + 1, total + i * 7, chunk)
                    need = sum(total + i * 7 for i in range(nstreams))
                    steps.append({"s": "dt", "d": 0.01})
                    sids = [1 + 2 * i for i in range(nstreams)]
                    if plan == "stream-then-conn":
                        for sid in sids:
                            steps.append({"s": "h2", "op": "wupd", "stream": sid, "n": total + 100})
                        steps.append({"s": "h2", "op": "wupd", "stream": 0, "n": need + 100})
                    elif plan == "conn-then-stream":
                        steps.append({"s": "h2", "op": "wupd", "stream": 0, "n": need + 100})
                        for sid in reversed(sids):
                            steps.append({"s": "h2", "op": "wupd", "stream": sid, "n": total + 100})
                    elif plan == "dribble":
                        for k in range(6):
                            sid = sids[k % len(sids)]
                            steps.append({"s": "h2", "op": "wupd", "stream": sid, "n": rng.choice([1, 7, 1000, 16384, 40000])})
                            steps.append({"s": "h2", "op": "wupd", "stream": 0, "n": rng.choice([1, 9, 1000, 20000, 50000])})
                    elif plan == "settings-grow":
                        steps.append({"s": "h2", "op": "wupd", "stream": 0, "n": need + 100})
                        steps.append({"s": "h2", "op": "settings", "values": {"4": max(W, 1) + total + 100}})
                    elif plan == "none-then-flood":
                        steps.append({"s": "dt", "d": 1.0})
                        steps.append({"s": "h2", "op": "wupd", "stream": 0, "n": need + 70000})
                        for sid in sids:
                            steps.append({"s": "h2", "op": "wupd", "stream": sid, "n": total + 70000})
                    steps.append({"s": "dt", "d": 0.01})
                    yield h2_script(steps, apps, "h2/flow/%d/%d/%d-%d/%s" % (nstreams, W, total, chunk, plan),
                                    settings={4: W}, autoack=False, maxchunk=chunk)
    # SETTINGS_INITIAL_WINDOW_SIZE lowered below what the stream has already used: the stream window goes
    # negative (RFC 7540 6.9.2); the rest follows once WINDOW_UPDATEs make it positive again
    for W0, first, shrink_to, rest in ((40000, 40000, 39900, 5000), (10, 10, 4, 20), (30000, 20000, 100, 30000)):
        prog = [["recv_body"], ["send", {"type": "http.response.start", "status": 200, "headers": []}],
                ["send", {"type": "http.response.body", "pat": [105, 0, first], "more": True}], ["gate"],
                ["send", {"type": "http.response.body", "pat": [105, first, rest], "more": False}], ["recv_disc"]]
        steps = [build.h2_headers(1, 1, "GET", toks=[["/shrink", "/shrink"]]), {"s": "dt", "d": 0.01},
                 {"s": "h2", "op": "settings", "values": {"4": shrink_to}}, {"s": "dt", "d": 0.01},
                 {"s": "go", "app": "1", "n": 1}, {"s": "dt", "d": 0.01},
                 {"s": "h2", "op": "wupd", "stream": 0, "n": first + rest + 100},
                 {"s": "h2", "op": "wupd", "stream": 1, "n": (first - shrink_to) + rest + 100}, {"s": "dt", "d": 0.05}]
        yield h2_script(steps, {"1": prog}, "h2/flow-shrink/%d/%d/%d" % (W0, shrink_to, rest), settings={4: W0}, autoack=False,
                        maxchunk=max(first, rest))
    # boundary: the response fits the window exactly (no credit ever arrives), empty bodies at window 0,
    # body-less statuses at window 0, end-of-body sent separately after the data has been flushed
    for W in (0, 1, 100, 16384, 65535):
        for total in sorted(set([0, W, max(W - 1, 0)])):
            if total > 65535:
                continue
            for style in ("final-with-data", "separate-empty-final", "no-body-204"):
                if style == "no-body-204" and total:
                    continue
                for exact_credit in (False, True):
                    if W == 0 and total == 0 and exact_credit:
                        continue
                    prog: List[Any] = [["recv_body"]]
                    status = 204 if style == "no-body-204" else 200
                    prog.append(["send", {"type": "http.response.start", "status": status, "headers": []}])
                    if style == "final-with-data":
                        prog.append(["send", {"type": "http.response.body", "pat": [101, 0, total], "more": False}])
                    elif style == "separate-empty-final":
                        if total:
                            prog.append(["send", {"type": "http.response.body", "pat": [101, 0, total], "more": True}])
                        prog.append(["gate"])
                        prog.append(["send", {"type": "http.response.body", "more": False}])
                    else:
                        prog.append(["send", {"type": "http.response.body", "more": False}])
                    prog.append(["recv_disc"])
                    iw = 0 if exact_credit else W
                    steps = [build.h2_headers(1, 1, "GET", toks=[["/exact", "/exact"]]), {"s": "dt", "d": 0.01}]
                    if exact_credit and W:
                        steps.append({"s": "h2", "op": "wupd", "stream": 1, "n": W})
                        steps.append({"s": "dt", "d": 0.01})
                    steps.append({"s": "go", "app": "1", "n": 1})
                    steps.append({"s": "dt", "d": 0.01})
                    yield h2_script(steps, {"1": prog}, "h2/flow-exact/%d/%d/%s/%s" % (W, total, style, exact_credit),
                                    settings={4: iw}, autoack=False, maxchunk=max(total, 1))
    yield from gen_priority(tier, rng)


def gen_priority(tier: str, rng: random.Random) -> Iterator[Dict[str, Any]]:
    """PRIORITY before HEADERS, dependencies, exclusive, reprioritisation while blocked - including making a
    stream depend on its own dependent (RFC 7540 5.3.3), which is legal."""
    for variant in range(6 if tier == "quick" else 24):
        steps = []
        W = rng.choice([0, 100, 65535])
        steps.append({"s": "h2", "op": "prio", "stream": 3, "weight": rng.choice([1, 16, 256]), "depends_on": rng.choice([0, 1]),
                      "exclusive": rng.random() < 0.5})
        steps.append(build.h2_headers(1, 1, "GET", toks=[["/p1", "/p1"]], weight=rng.choice([1, 200]), depends_on=0, exclusive=False))
        steps.append(build.h2_headers(2, 3, "GET", toks=[["/p2", "/p2"]]))
        steps.append(build.h2_headers(3, 5, "GET", toks=[["/p3", "/p3"]], weight=10, depends_on=1, exclusive=variant % 2 == 0))
        steps.append({"s": "h2", "op": "prio", "stream": 1, "weight": 5, "depends_on": 5, "exclusive": variant % 3 == 0})
        steps.append({"s": "h2", "op": "prio", "stream": 7, "weight": 5, "depends_on": 3, "exclusive": False})
        steps.append({"s": "h2", "op": "wupd", "stream": 0, "n": 300000})
        for sid in rng.sample([1, 3, 5], 3):
            steps.append({"s": "h2", "op": "wupd", "stream": sid, "n": 100000})
        steps.append({"s": "dt", "d": 0.01})
        apps = {str(i): big_resp(i, 30000 + i, 9000) for i in (1, 2, 3)}
        sc = h2_script(steps, apps, "h2/priority/%d" % variant, settings={4: W}, autoack=False, maxchunk=9000)
        sc["unusual"] = "priority-dependency-cycle"
        yield sc


def gen_priority_idle(tier: str, rng: random.Random) -> Iterator[Dict[str, Any]]:
    """PRIORITY frames for streams that do not exist yet (the placeholders some browsers create at the start of a
    connection), each in a read of its own, well before - or never followed by - the HEADERS of that stream;
    no dependency cycles here."""
    for vi, (dep, excl, later) in enumerate(((0, False, True), (0, True, True), (5, False, True), (0, False, False),
                                             (7, True, False))):
        steps: List[Dict[str, Any]] = [
            {"s": "h2", "op": "prio", "stream": 3, "weight": 16, "depends_on": dep, "exclusive": excl},
            {"s": "dt", "d": 0.01},
            {"s": "h2", "op": "ping"},
            {"s": "dt", "d": 0.01},
            build.h2_headers(1, 1, "GET", toks=[["/i1", "/i1"]]),
            {"s": "dt", "d": 0.01},
        ]
        apps = {"1": big_resp(1, 39000, 7000)}
        if later:
            steps += [build.h2_headers(2, 3, "GET", toks=[["/i2", "/i2"]]), {"s": "dt", "d": 0.01}]
            apps["2"] = big_resp(2, 20000, 7000)
        steps += [{"s": "h2", "op": "wupd", "stream": 0, "n": 300000}, {"s": "h2", "op": "wupd", "stream": 1, "n": 100000}]
        if later:
            steps.append({"s": "h2", "op": "wupd", "stream": 3, "n": 100000})
        steps.append({"s": "dt", "d": 0.05})
        yield h2_script(steps, apps, "h2/priority-idle/%d" % vi, settings={4: 4000}, autoack=False, maxchunk=7000)


def gen_release(tier: str, rng: random.Random) -> Iterator[Dict[str, Any]]:
    """C08: a send is made to wait (mid-body on the buffer, or on the final drain), then the
    stream is reset / the peer goes away / the server closes / credit arrives."""
    causes = ["rst", "eof", "reset", "fail-then-credit", "credit", "shutdown", "idle-other-stream"]
    for where, total, chunk in (("mid-body", 200000, 20000), ("final-drain", 10, 10), ("mid-body-big-chunk", 2000000, 500000)):
        for W in (0, 5):
            for nstreams in (1, 2):
                for cause in causes:
                    if tier == "quick" and rng.random() < 0.35:
                        continue
                    steps = []
                    apps = {}
                    for i in range(nstreams):
                        sid = 1 + 2 * i
                        steps.append(build.h2_headers(i + 1, sid, "GET", toks=[["/r%d" % sid, "/r%d" % sid]]))
                        apps[str(i + 1)] = big_resp(i + 1, total, chunk)
                    steps.append({"s": "dt", "d": 0.01})
                    if cause == "rst":
                        steps.append({"s": "h2", "op": "rst", "stream": 1})
                    elif cause == "eof":
                        steps.append({"s": "eof"})
                    elif cause == "reset":
                        steps.append({"s": "reset"})
                    elif cause == "fail-then-credit":
                        steps.append({"s": "fail"})
                        steps.append({"s": "h2", "op": "wupd", "stream": 0, "n": 100000})
                        steps.append({"s": "h2", "op": "wupd", "stream": 1, "n": 100000})
                    elif cause == "credit":
                        steps.append({"s": "h2", "op": "wupd", "stream": 0, "n": nstreams * total + 100000})
                        for i in range(nstreams):
                            steps.append({"s": "h2", "op": "wupd", "stream": 1 + 2 * i, "n": total + 100000})
                    elif cause == "shutdown":
                        steps.append({"s": "shutdown"})
                    steps.append({"s": "dt", "d": 0.5})
                    yield h2_script(steps, apps, "h2/release/%s/%d/%d/%s" % (where, W, nstreams, cause),
                                    settings={4: W}, autoack=False, maxchunk=chunk)
    # the stream object is gone but its buffer is still waited on when the connection closes: (a) the
    # application abandons a response larger than the window (the server flushes before it resets), (b) a
    # WebSocket over HTTP/2 whose close send waits for credit while the client's own close frame arrives
    for cause in ("eof", "reset", "shutdown", "expire", "credit"):
        prog = [["recv_body"], ["send", {"type": "http.response.start", "status": 200, "headers": []}],
                ["send", {"type": "http.response.body", "pat": [106, 0, 20000], "more": True}], ["return"]]
        steps = [build.h2_headers(1, 1, "GET", toks=[["/abandon", "/abandon"]]), {"s": "dt", "d": 0.01}]
        if cause == "expire":
            steps.append({"s": "dt", "d": 6.0})
        elif cause == "credit":
            steps += [{"s": "h2", "op": "wupd", "stream": 0, "n": 100000}, {"s": "h2", "op": "wupd", "stream": 1, "n": 100000}]
        else:
            steps.append({"s": cause})
        steps.append({"s": "dt", "d": 0.5})
        yield h2_script(steps, {"1": prog}, "h2/release/abandoned-at-window-0/%s" % cause, settings={4: 100}, autoack=False,
                        maxchunk=20000)
    from .gen_ws import ws_session
    for cause in ("eof", "reset", "shutdown"):
        prog = [["recv"], ["send", {"type": "websocket.accept"}], ["send", {"type": "websocket.send", "pat": [74, 0, 70000]}],
                ["send", {"type": "websocket.close", "code": 1000}], ["recv_disc"]]
        ws_steps = [{"s": "dt", "d": 0.01}, {"s": "ws", "op": "close", "code": 1000}, {"s": "dt", "d": 0.01}, {"s": cause},
                    {"s": "dt", "d": 0.5}]
        sc = ws_session("h2", 1, ws_steps, prog, "h2/release/ws-close-parked/%s" % cause)
        sc["autoack"] = False
        yield sc
    # HTTP/2 with wide-open windows and a client that stops reading: the send task waits in the transport's
    # drain, the application behind it on the stream buffer; then each cause
    for total, chunk in ((600000, 16384), (600000, 100000)):
        for cause in ("resume", "eof", "eof-then-resume", "reset", "shutdown", "rst", "rst-then-resume", "expire"):
            steps = [{"s": "h2", "op": "wupd", "stream": 0, "n": 2000000},
                     build.h2_headers(1, 1, "GET", toks=[["/hp", "/hp"]]),
                     {"s": "dt", "d": 0.01}, {"s": "pause"},
                     {"s": "go", "app": "1", "n": 1}, {"s": "dt", "d": 0.01}]
            if cause.startswith("eof"):
                steps.append({"s": "eof"})
            elif cause.startswith("rst"):
                steps.append({"s": "h2", "op": "rst", "stream": 1})
            elif cause == "expire":
                steps.append({"s": "dt", "d": 6.0})
            elif cause != "resume":
                steps.append({"s": cause})
            if cause.endswith("resume"):
                steps += [{"s": "dt", "d": 0.01}, {"s": "resume"}]
            steps.append({"s": "dt", "d": 0.5})
            yield h2_script(steps, {"1": [["gate"]] + big_resp(1, total, chunk)}, "h2/release/paused-transport/%d/%s" % (chunk, cause),
                            settings={4: 2000000}, maxchunk=chunk)
    # the frame that uses up the client's window is still being written (the client has stopped reading and
    # lets little through) when its WINDOW_UPDATE arrives; then the transport drains
    for W, total, chunk in ((20000, 60000, 20000), (16384, 50000, 16384), (20000, 20010, 20010)):
        for order in ("credit-during-pause", "credit-after-resume"):
            steps = [{"s": "h2", "op": "wupd", "stream": 0, "n": 1000000},
                     build.h2_headers(1, 1, "GET", toks=[["/stale", "/stale"]]), {"s": "dt", "d": 0.01}, {"s": "pause"},
                     {"s": "go", "app": "1", "n": 1}, {"s": "dt", "d": 0.01}]
            credit = {"s": "h2", "op": "wupd", "stream": 1, "n": 1000000}
            steps += ([credit, {"s": "dt", "d": 0.01}, {"s": "resume"}] if order == "credit-during-pause"
                      else [{"s": "resume"}, {"s": "dt", "d": 0.01}, credit])
            steps.append({"s": "dt", "d": 0.5})
            sc = h2_script(steps, {"1": [["gate"]] + big_resp(1, total, chunk)},
                           "h2/release/window-spent-while-paused/%d/%d/%s" % (W, total, order),
                           settings={4: W}, autoack=False, maxchunk=chunk)
            sc["transport_high"] = 1000
            yield sc
    # HTTP/1: transport paused while the application writes, then released by each cause
    from .gen_h1 import base_script
    for total, chunk in ((400000, 50000), (10, 10)):
        for cause in ("resume", "eof", "reset", "shutdown"):
            req = [{"rid": 1, "method": "GET", "target": "/h1p"}]
            sc = base_script(req, {"1": big_resp(1, total, chunk)}, fam="h1/release/%d/%s" % (total, cause))
            sc["maxchunk"] = chunk
            steps = [{"s": "pause"}, {"s": "send"}, {"s": "dt", "d": 0.01}]
            steps.append({"s": cause} if cause != "resume" else {"s": "resume"})
            steps.append({"s": "dt", "d": 0.5})
            sc["steps"] = steps
            yield sc


def gen_h2_basic(tier: str, rng: random.Random) -> Iterator[Dict[str, Any]]:
    """HTTP/2 counterparts of the HTTP/1 request/response families (C01, C02)."""
    targets = target_variants()
    bodies = [0, 1, 10, 70000, 200000]
    n = 0
    for toks in targets:
        for blen in bodies:
            n += 1
            if tier == "quick" and n % 3 and blen not in (70000,):
                continue
            extra = [["x-mixed", "Value"], ["x-repeat", "1"], ["x-repeat", "2"], ["x-empty", ""]] if n % 2 else []
            steps = [build.h2_headers(1, 1, "POST" if blen else "GET", toks=toks, extra=extra, end=(blen == 0), total=blen,
                                      authority="example.org:8443" if n % 3 == 0 else "hypercorn",
                                      host_header="ignored.example" if n % 4 == 0 else None)]
            if blen:
                pieces = [blen] if blen < 1000 else [blen // 3, blen - blen // 3]
                off = 0
                for i, p in enumerate(pieces):
                    steps.append({"s": "h2", "op": "data", "stream": 1, "pat": [1, off, p], "end": i == len(pieces) - 1,
                                  "pad": 5 if (n % 5 == 0 and p < 60000) else None})
                    off += p
            for timing in ("read", "asleep"):
                prog = build.simple_resp_program(chunks=[3]) if timing == "read" else [["gate"]] + build.simple_resp_program(chunks=[3])
                st2 = [dict(s) for s in steps]
                if timing == "asleep":
                    st2.append({"s": "go", "app": "1", "n": 1})
                st2.append({"s": "dt", "d": 0.05})
                cuts = None
                if blen <= 10 and tier == "thorough":
                    cuts = "bytewise"
                if cuts:
                    for s_ in st2:
                        if s_["s"] == "h2":
                            s_["cuts"] = cuts
                yield h2_script(st2, {"*": prog}, "h2/c01/%d/%d/%s" % (n, blen, timing), bodies={"1": [1, blen]})
    # upload framings whose flow-controlled size differs from their payload: many small frames, padding
    # (every padded frame costs payload + padding + 1), with and without an application that keeps up
    for frame, pad, total in ((100, 255, 40000), (1, 0, 300), (1000, None, 150000), (16384, 200, 100000)):
        for timing in ("read", "asleep"):
            if tier == "quick" and timing == "asleep" and frame != 100:
                continue
            steps = [build.h2_headers(1, 1, "POST", toks=[["/framed", "/framed"]], end=False, total=total),
                     {"s": "h2", "op": "data", "stream": 1, "pat": [1, 0, total], "end": True, "frame": frame, "pad": pad}]
            prog = build.simple_resp_program(chunks=[3]) if timing == "read" else [["gate"]] + build.simple_resp_program(chunks=[3])
            if timing == "asleep":
                steps.append({"s": "go", "app": "1", "n": 1})
            steps.append({"s": "dt", "d": 0.05})
            yield h2_script(steps, {"*": prog}, "h2/c01/framed/%d/%s/%d/%s" % (frame, pad, total, timing),
                            bodies={"1": [1, total]})
    # responses: statuses x chunkings x HEAD, larger than window / frame
    from .gen_h1 import CHUNKINGS, STATUSES
    combos = [(st, ci, m) for st in STATUSES for ci in range(len(CHUNKINGS)) for m in ("GET", "HEAD")]
    picked = combos if tier == "thorough" else rng.sample(combos, 40)
    for st, ci, method in picked:
        chunks = CHUNKINGS[ci] + ([200000] if ci % 4 == 0 else [])
        steps = [build.h2_headers(1, 1, method, toks=[["/resp", "/resp"]]), {"s": "dt", "d": 0.05}]
        prog = resp_program(st, RESP_HEADER_SETS[ci % len(RESP_HEADER_SETS)], chunks, with_cl=(ci % 3 == 0 and st not in (204, 304)))
        yield h2_script(steps, {"*": prog}, "h2/c02/%d/%d/%s" % (st, ci, method), maxchunk=max(chunks + [1]))
    # trailers: only with te: trailers
    for te in (True, False):
        steps = [build.h2_headers(1, 1, "GET", toks=[["/tr", "/tr"]], extra=[["te", "trailers"]] if te else []), {"s": "dt", "d": 0.05}]
        prog = [["recv_body"],
                ["send", {"type": "http.response.start", "status": 200, "headers": [["x-a", "1"]], "trailers": True}],
                ["send", {"type": "http.response.body", "pat": [9, 0, 5], "more": False}],
                ["send", {"type": "http.response.trailers", "headers": [["x-trailer", "t"]], "more": False}],
                ["recv_disc"]]
        yield h2_script(steps, {"*": prog}, "h2/c02/trailers/%s" % te)
        # ... after several chunks with pauses between them (the earlier ones already flushed when the later
        # ones are handed over; the trailers follow the last chunk at once)
        progc = [["recv_body"],
                 ["send", {"type": "http.response.start", "status": 200, "headers": [["x-a", "1"]], "trailers": True}],
                 ["send", {"type": "http.response.body", "pat": [9, 0, 112], "more": True}], ["gate"],
                 ["send", {"type": "http.response.body", "pat": [9, 112, 113], "more": True}], ["gate"],
                 ["send", {"type": "http.response.body", "pat": [9, 225, 40], "more": False}],
                 ["send", {"type": "http.response.trailers", "headers": [["x-trailer", "t"]], "more": False}],
                 ["recv_disc"]]
        stepsc = steps[:-1] + [{"s": "dt", "d": 0.01}, {"s": "go", "app": "1", "n": 1}, {"s": "dt", "d": 0.01},
                               {"s": "go", "app": "1", "n": 1}, {"s": "dt", "d": 0.05}]
        yield h2_script(stepsc, {"*": progc}, "h2/c02/trailers-after-paced-chunks/%s" % te)
        # ... on a response that contributes no DATA at all: empty body messages only, a suppressed body (HEAD,
        # 204) - nothing but the trailers wakes the sending task
        for name, method, status, bodies in (("one-empty", "GET", 200, [(0, False)]), ("two-empty", "GET", 200, [(0, True), (0, False)]),
                                             ("head", "HEAD", 200, [(5, False)]), ("no-content", "GET", 204, [(0, False)])):
            stepsn = [build.h2_headers(1, 1, method, toks=[["/tr0", "/tr0"]], extra=[["te", "trailers"]] if te else []),
                      {"s": "dt", "d": 0.05}]
            progn: List[Any] = [["recv_body"]]
            if bodies is not None:
                progn.append(["send", {"type": "http.response.start", "status": status, "headers": [["x-a", "1"]], "trailers": True}])
                off = 0
                for ln, more in bodies:
                    progn.append(["send", {"type": "http.response.body", "pat": [9, off, ln], "more": more}])
                    off += ln
            progn += [["send", {"type": "http.response.trailers", "headers": [["x-trailer", "t"]], "more": False}], ["recv_disc"]]
            yield h2_script(stepsn, {"*": progn}, "h2/c02/trailers-without-data/%s/%s" % (name, te))
        # ... followed by another request on the same connection (its header block must still decode)
        steps2 = steps[:-1] + [{"s": "dt", "d": 0.01}, build.h2_headers(2, 3, "GET", toks=[["/after-trailers", "/after-trailers"]]),
                               {"s": "dt", "d": 0.05}]
        yield h2_script(steps2, {"1": prog, "2": build.simple_resp_program(chunks=[4], headers=[["x-b", "2"]])},
                        "h2/c02/trailers-then-next/%s" % te)


def gen_h2c_trailers(tier: str, rng: random.Random) -> Iterator[Dict[str, Any]]:
    """A request upgraded from HTTP/1.1 (h2c) carries its HTTP/1.1 headers into stream 1 unvalidated: TE may say
    anything there.  Trailers go only to a client whose TE offered `trailers`."""
    from .gen_h1 import base_script, stream_len

    prog = [["recv_body"],
            ["send", {"type": "http.response.start", "status": 200, "headers": [["x-a", "1"]], "trailers": True}],
            ["send", {"type": "http.response.body", "pat": [9, 0, 5], "more": False}],
            ["send", {"type": "http.response.trailers", "headers": [["x-trailer", "t"]], "more": False}],
            ["recv_disc"]]
    for name, te in (("trailers", "trailers"), ("none", None), ("gzip", "gzip"), ("deflate-q", "deflate;q=0.5"), ("empty", "")):
        hdrs = [["Host", "hypercorn"], ["Connection", "Upgrade, HTTP2-Settings" + (", TE" if te is not None else "")],
                ["Upgrade", "h2c"], ["HTTP2-Settings", "AAMAAABkAAQAAP__"]]
        if te is not None:
            hdrs.append(["TE", te])
        rq = {"rid": 1, "method": "GET", "target": "/h2c-te", "version": "1.1", "kind": "http", "upgrade": "h2c", "headers": hdrs}
        sc = base_script([rq], {"*": prog}, fam="h2/c02/h2c-upgrade-trailers/te=%s" % name)
        sc["creqs"][0]["ver"] = "2"
        sc["opening"] = "h2c"
        sc["steps"] = [{"s": "send", "upto": stream_len(sc)}, {"s": "dt", "d": 0.05}]
        yield sc


def _frame_hex(frame) -> str:
    return frame.serialize().hex()


def gen_unusual(tier: str, rng: random.Random) -> Iterator[Dict[str, Any]]:
    """C04: legal-but-rare HTTP/2 sequences next to a well-behaved sibling stream."""
    sibling = lambda: build.h2_headers(9, 1, "GET", toks=[["/sib", "/sib"]])  # noqa: E731
    sib_prog = [["recv_body"], ["gate"]] + build.simple_resp_program(chunks=[4, 4], read_first=False)
    tail = [{"s": "dt", "d": 0.05}, {"s": "go", "app": "9", "n": 1}, {"s": "dt", "d": 0.05}]

    def script(mid: List[Dict[str, Any]], name: str, apps: Optional[Dict[str, Any]] = None, unusual: str = "") -> Dict[str, Any]:
        a = {"9": sib_prog, "*": build.simple_resp_program(chunks=[2])}
        a.update(apps or {})
        steps = [sibling()] + mid + tail
        sc = h2_script(steps, a, "h2/unusual/" + name)
        sc["unusual"] = unusual or name
        return sc

    # DATA after the response completed (request left open by the client)
    for empty in (True, False):
        mid = [build.h2_headers(1, 3, "POST", toks=[["/late", "/late"]], end=False, total=5),
               {"s": "dt", "d": 0.05},
               {"s": "h2", "op": "data", "stream": 3, "pat": [1, 0, 0 if empty else 5], "end": True}]
        sc = script(mid, "late-data-%s" % ("empty" if empty else "5"),
                    apps={"1": build.simple_resp_program(chunks=[2], read_first=False)[:-1] + [["return"]]})
        sc["bodies"] = {"1": [1, 5]}
        yield sc
    # ... as much of it as the windows allow, then an upload on a new stream: what the server discards
    # must be credited back like what it delivers
    mid = [build.h2_headers(1, 3, "POST", toks=[["/late", "/late"]], end=False, total=70000),
           {"s": "dt", "d": 0.05},
           {"s": "h2", "op": "data", "stream": 3, "pat": [1, 0, 65535], "end": False},
           {"s": "dt", "d": 0.05},
           build.h2_headers(2, 5, "POST", toks=[["/up", "/up"]], end=False, total=3000),
           {"s": "h2", "op": "data", "stream": 5, "pat": [2, 0, 3000], "end": True}]
    sc = script(mid, "late-data-fills-window",
                apps={"1": build.simple_resp_program(chunks=[2], read_first=False)[:-1] + [["return"]]})
    sc["bodies"] = {"1": [1, 70000], "2": [2, 3000]}
    yield sc
    # an upload in more DATA frames than the application queue holds, to an endpoint that answers without reading
    # it (an early 401 / 413) - the frames arrive while the request is still in progress; then a sibling is used
    for nframes, ends in ((15, "return"), (15, "recv_disc"), (4, "return")):
        mid = [build.h2_headers(1, 3, "POST", toks=[["/early", "/early"]], end=False, total=nframes * 100)]
        for i in range(nframes):
            mid.append({"s": "h2", "op": "data", "stream": 3, "pat": [1, i * 100, 100], "end": i == nframes - 1})
        mid += [{"s": "dt", "d": 0.05}, {"s": "go", "app": "1", "n": 1}, {"s": "dt", "d": 0.05},
                build.h2_headers(2, 5, "GET", toks=[["/after", "/after"]]), {"s": "dt", "d": 0.05}]
        early = [["gate"]] + build.simple_resp_program(chunks=[2], read_first=False)[:-1] + [[ends]]
        sc = script(mid, "upload-unread-when-answered/%d-frames/%s" % (nframes, ends), apps={"1": early},
                    unusual="upload-unread-when-answered" if nframes > 10 else "short-upload-unread-when-answered")
        sc["bodies"] = {"1": [1, nframes * 100]}
        yield sc
    # frames for a stream whose response has completed while the client's side is still open
    for frame in ("wupd", "rst", "prio", "wupd-then-data", "trailers"):
        mid = [build.h2_headers(1, 3, "POST", toks=[["/half", "/half"]], end=False, total=5),
               {"s": "dt", "d": 0.05}]
        if frame.startswith("wupd"):
            mid.append({"s": "h2", "op": "wupd", "stream": 3, "n": 1000})
        if frame == "rst":
            mid.append({"s": "h2", "op": "rst", "stream": 3})
        if frame == "prio":
            mid.append({"s": "h2", "op": "prio", "stream": 3, "weight": 9, "depends_on": 1, "exclusive": False})
        if frame == "wupd-then-data":
            mid.append({"s": "h2", "op": "data", "stream": 3, "pat": [1, 0, 5], "end": True})
        if frame == "trailers":
            mid.append({"s": "h2", "op": "trailers", "stream": 3, "hdrs": [["x-t", "1"]]})
        sc = script(mid, "half-open-after-response-%s" % frame,
                    apps={"1": build.simple_resp_program(chunks=[2], read_first=False)[:-1] + [["return"]]})
        sc["bodies"] = {"1": [1, 5]}
        yield sc
    # plain CONNECT without :path
    hdrs = [[":method", "CONNECT"], [":authority", "hypercorn:443"], ["x-rid", "1"]]
    mid = [{"s": "h2", "op": "headers", "stream": 3, "rid": "1", "method": "CONNECT", "hdrs": hdrs, "end": False}]
    yield script(mid, "connect-no-path")
    # non-ASCII :path
    st = build.h2_headers(1, 3, "GET", toks=[["/caf\xe9", "/caf\xe9"]])
    st["creq"]["kind"] = "odd"
    yield script([st], "non-ascii-path")
    # PRIORITY before HEADERS, on idle and on closed streams; RST / WINDOW_UPDATE on closed streams
    rst = hf.RstStreamFrame(3)
    rst.error_code = 8
    wu = hf.WindowUpdateFrame(3)
    wu.window_increment = 1000
    mid = [{"s": "h2", "op": "prio", "stream": 3, "weight": 7, "depends_on": 0, "exclusive": False},
           build.h2_headers(1, 3, "GET", toks=[["/pri", "/pri"]]),
           {"s": "dt", "d": 0.05},
           {"s": "h2", "op": "raw", "hex": _frame_hex(wu), "legal": True, "stream": 1},
           {"s": "h2", "op": "raw", "hex": _frame_hex(rst), "legal": True, "stream": 1},
           {"s": "h2", "op": "prio", "stream": 3, "weight": 3, "depends_on": 1, "exclusive": True}]
    yield script(mid, "frames-on-closed-stream")
    # CONTINUATION and padded HEADERS
    for ncont in (1, 3):
        hdrs = build.h2_headers(1, 3, "GET", toks=[["/cont", "/cont"]], extra=[["x-long-%d" % i, "v" * 50] for i in range(6)])
        hdrs["continuations"] = ncont
        mid = [hdrs]
        yield script(mid, "continuation-%d" % ncont)
    # request trailers
    mid = [build.h2_headers(1, 3, "POST", toks=[["/trl", "/trl"]], end=False, total=4),
           {"s": "h2", "op": "data", "stream": 3, "pat": [1, 0, 4], "end": False},
           {"s": "h2", "op": "trailers", "stream": 3, "hdrs": [["x-t", "1"]]}]
    sc = script(mid, "request-trailers")
    sc["bodies"] = {"1": [1, 4]}
    yield sc
    # protocol violations end with GOAWAY / close: garbage frame, DATA on idle stream, bad preface follow-up
    bad = hf.DataFrame(11)
    bad.data = b"xx"
    for name, hexs in (("data-on-idle-stream", _frame_hex(bad)), ("data-on-stream-0", "000001000000000000" + "78"),
                       ("settings-bad-length", "000005040000000000" + "0000000000")):
        mid = [{"s": "h2", "op": "raw", "hex": hexs, "legal": False}]
        yield script(mid, "violation-" + name)


def gen_refused_start(tier: str, rng: random.Random) -> Iterator[Dict[str, Any]]:
    """The application's response start is refused before anything is written (a Content-Length that is not a
    number, a status that is not one, a status outside the range) and the application fails on the error:
    no response had been started, the client is owed the 500.  First and second request of a connection,
    HTTP/1.1 and HTTP/2 (with a sibling stream that behaves)."""
    from .gen_h1 import base_script

    kinds = [("content-length-not-a-number", {"headers": [["content-length", "abc"]]}, ("h1",)),
             ("status-not-a-number", {"status_raw": "200 OK"}, ("h1", "h2")),
             ("status-out-of-range", {"status": 1000}, ("h1",))]
    for name, extra, carriers in kinds:
        start = dict({"type": "http.response.start", "status": 200, "headers": [["x-a", "1"]]}, **extra)
        for end in ("raise", "return"):
            bad = [["recv_body"], ["send", start], [end]]
            for carrier in carriers:
                if carrier == "h1":
                    for pos in ("first", "second"):
                        reqs = [{"rid": 1, "method": "GET", "target": "/r1"}, {"rid": 2, "method": "GET", "target": "/r2"}]
                        apps = {"1": bad, "2": build.simple_resp_program(chunks=[2])} if pos == "first" else \
                               {"1": build.simple_resp_program(chunks=[2]), "2": bad}
                        sc = base_script(reqs if pos == "second" else reqs[:1], apps, fam="c05/refused-start/h1/%s/%s/%s" % (name, end, pos))
                        sc["steps"] = [{"s": "send"}, {"s": "dt", "d": 0.05}]
                        yield sc
                else:
                    steps = [build.h2_headers(1, 1, "GET", toks=[["/bad", "/bad"]]), build.h2_headers(2, 3, "GET", toks=[["/ok", "/ok"]]),
                             {"s": "dt", "d": 0.05}]
                    yield h2_script(steps, {"1": bad, "2": build.simple_resp_program(chunks=[2])},
                                    "c05/refused-start/h2/%s/%s" % (name, end))


def gen_failed_upload(tier: str, rng: random.Random) -> Iterator[Dict[str, Any]]:
    """An application that fails (or answers) before it has read its upload; the rest of the upload - a whole
    connection window of it - arrives afterwards; then another stream uploads: what the server throws away for
    the failed request must not cost the connection its flow-control credit."""
    for end in ("raise", "return", "answer-early"):
        prog1: List[Any] = [[end]] if end != "answer-early" else build.simple_resp_program(chunks=[2], read_first=False)[:-1] + [["return"]]
        for late in (65535, 40000):
            steps = [build.h2_headers(1, 1, "POST", toks=[["/fail", "/fail"]], end=False, total=70000),
                     {"s": "dt", "d": 0.05},
                     {"s": "h2", "op": "data", "stream": 1, "pat": [1, 0, late], "end": False},
                     {"s": "dt", "d": 0.05},
                     build.h2_headers(2, 3, "POST", toks=[["/up", "/up"]], end=False, total=30000),
                     {"s": "h2", "op": "data", "stream": 3, "pat": [2, 0, 30000], "end": True},
                     {"s": "dt", "d": 0.05}]
            sc = h2_script(steps, {"1": prog1, "2": build.simple_resp_program(chunks=[2])},
                           "h2/c05/failed-upload-then-sibling/%s/%d" % (end, late))
            sc["bodies"] = {"1": [1, 70000], "2": [2, 30000]}
            yield sc


def gen_h2_faults(tier: str, rng: random.Random) -> Iterator[Dict[str, Any]]:
    """C03/C05/C07 on HTTP/2: two streams, faults and crash points."""
    chunks = [3, 4]
    nops = len(std_ops(1, chunks))
    ends: List[Any] = [("disc", nops)] + [(e, c) for c in range(nops + 1) for e in ("return", "raise", "cancel", "raise_group")]
    for end, cut in ends:
        for fault in ("none", "eof", "reset", "fail", "shutdown", "rst1", "expire"):
            if tier == "quick" and rng.random() < 0.5 and fault != "none":
                continue
            apps = {"1": gated_app(std_ops(1, chunks)[:cut], end), "2": gated_app(std_ops(2, chunks), "disc")}
            base: List[Dict[str, Any]] = [
                build.h2_headers(1, 1, "POST", toks=[["/f1", "/f1"]], end=False, total=6),
                build.h2_headers(2, 3, "GET", toks=[["/f2", "/f2"]]),
                {"s": "h2", "op": "data", "stream": 1, "pat": [1, 0, 6], "end": True},
            ]
            base += [{"s": "go", "app": "1", "n": 1} for _ in range(cut + 1)]
            base += [{"s": "go", "app": "2", "n": 1} for _ in range(nops + 1)]
            positions = range(len(base) + 1) if tier == "thorough" else sorted(set(rng.sample(range(len(base) + 1), 2)))
            for pos in ([len(base)] if fault == "none" else positions):
                steps = list(base[:pos])
                if fault == "rst1":
                    steps.append({"s": "h2", "op": "rst", "stream": 1})
                elif fault == "expire":
                    steps.append({"s": "dt", "d": 5.0})
                elif fault != "none":
                    steps.append({"s": fault})
                steps += base[pos:]
                steps.append({"s": "dt", "d": 0.1})
                yield h2_script(steps, apps, "h2/faults/%s@%d/%s" % (end, cut, fault), bodies={"1": [1, 6], "2": [2, 0]})
    # one stream stays in progress for longer than the keep-alive timeout while its sibling ends in every
    # way (completes, fails, is reset by the client before / while / after answering, answers a reset
    # stream late); then the last stream completes and the idle rule applies from that moment
    nops1 = len(std_ops(1, chunks))
    for how in ("completes", "raises", "returns-early", "rst-then-completes", "rst-then-returns", "rst-mid-response",
                "completes-then-rst"):
        for ka in (5.0, 0.5):
            end = {"raises": "raise", "returns-early": "return", "rst-then-returns": "return"}.get(how, "disc")
            cut = {"raises": 2, "returns-early": 1, "rst-then-returns": 1}.get(how, nops1)
            apps = {"1": gated_app(std_ops(1, chunks)[:cut], end), "2": gated_app(std_ops(2, chunks), "disc")}
            steps = [build.h2_headers(1, 1, "POST", toks=[["/b1", "/b1"]], end=False, total=6),
                     build.h2_headers(2, 3, "GET", toks=[["/b2", "/b2"]]),
                     {"s": "h2", "op": "data", "stream": 1, "pat": [1, 0, 6], "end": True},
                     {"s": "go", "app": "2", "n": 2}]
            if how.startswith("rst-then"):
                steps.append({"s": "h2", "op": "rst", "stream": 1})
            if how == "rst-mid-response":
                steps += [{"s": "go", "app": "1", "n": 2}, {"s": "h2", "op": "rst", "stream": 1}]
            steps += [{"s": "go", "app": "1", "n": 1} for _ in range(cut + 2)]
            if how == "completes-then-rst":
                steps.append({"s": "h2", "op": "rst", "stream": 1})
            # stream 3 is still in progress: nothing may close the connection
            steps += [{"s": "dt", "d": ka - 0.001}, {"s": "dt", "d": 0.001}, {"s": "dt", "d": 2 * ka}]
            steps += [{"s": "go", "app": "2", "n": 1} for _ in range(nops1 + 1)]
            steps += [{"s": "dt", "d": ka - 0.001}, {"s": "dt", "d": 0.001}, {"s": "dt", "d": 1.0}]
            yield h2_script(steps, apps, "h2/busy-sibling/%s/%s" % (how, ka), bodies={"1": [1, 6], "2": [2, 0]},
                            cfg={"keep_alive_timeout": ka})
    # a single request in progress for longer than the timeout on each way into HTTP/2 (ALPN; cleartext prior
    # knowledge with the first HEADERS in the same read as the preface, and in a later read), then the idle rule
    for carrier in ("h2", "h2prior"):
        for first in ("same-read", "later-read"):
            for ka in (5.0, 0.5):
                steps: List[Dict[str, Any]] = []
                if first == "later-read":
                    steps += [{"s": "h2", "op": "preface"}, {"s": "dt", "d": 0.01}]
                steps += [build.h2_headers(1, 1, "GET", toks=[["/slow", "/slow"]], scheme="https" if carrier == "h2" else "http"),
                          {"s": "dt", "d": ka - 0.011 if first == "later-read" else ka - 0.001}, {"s": "dt", "d": 0.001}, {"s": "dt", "d": 2 * ka}]
                steps += [{"s": "go", "app": "1", "n": 1} for _ in range(nops1 + 1)]
                steps += [{"s": "dt", "d": ka - 0.001}, {"s": "dt", "d": 0.001}, {"s": "dt", "d": 1.0}]
                sc = h2_script(steps, {"1": gated_app(std_ops(1, chunks), "disc")}, "h2/busy-single/%s/%s/%s" % (carrier, first, ka),
                               carrier=carrier, cfg={"keep_alive_timeout": ka}, bodies={"1": [1, 0]})
                sc["manual_preface"] = True   # the first step carries the preface (same-read: together with HEADERS)
                yield sc
    # idle expiry with no stream, after streams closed; prior-knowledge cleartext connection
    for carrier in ("h2", "h2prior"):
        for history in ("fresh", "after-stream"):
            steps = []
            if history == "after-stream":
                steps.append(build.h2_headers(1, 1, "GET", toks=[["/i", "/i"]], scheme="https" if carrier == "h2" else "http"))
                steps.append({"s": "dt", "d": 0.01})
            steps += [{"s": "dt", "d": 4.999}, {"s": "dt", "d": 0.001}, {"s": "dt", "d": 10.0}]
            sc = h2_script(steps, {"*": build.simple_resp_program(chunks=[2])}, "h2/idle/%s/%s" % (carrier, history), carrier=carrier)
            yield sc
