"""Concretisation: abstract client requests -> bytes, with the layout metadata the
observers and monitors need (where each head ends, where body payload bytes sit)."""
from __future__ import annotations

from typing import Any, Dict, List, Tuple


HS_NONE = {"domain": False, "ver": "", "method": "", "key": False, "wsver": "", "subprotos": [], "deflate": False,
           "protocol": ""}


def ws_h1_request(rid, key: str = "dGhlIHNhbXBsZSBub25jZQ==", wsver: str = "13", subprotos=None, deflate: bool = False,
                  method: str = "GET", version: str = "1.1", upgrade: str = "websocket", connection: str = "Upgrade",
                  target: str = "/ws", extra=None, toks=None) -> Dict[str, Any]:
    """An HTTP/1 WebSocket opening handshake (possibly deliberately incomplete)."""
    hdrs = [["host", "hypercorn"]]
    if upgrade is not None:
        hdrs.append(["upgrade", upgrade])
    if connection is not None:
        hdrs.append(["connection", connection])
    if key is not None:
        hdrs.append(["sec-websocket-key", key])
    if wsver is not None:
        hdrs.append(["sec-websocket-version", wsver])
    if subprotos:
        hdrs.append(["sec-websocket-protocol", ", ".join(subprotos)])
    if deflate:
        hdrs.append(["sec-websocket-extensions", "permessage-deflate"])
    hdrs += [list(h) for h in (extra or [])]
    conn_tokens = [t.strip().lower() for t in (connection or "").split(",")]
    domain = method.upper() == "GET" and (upgrade or "").lower() == "websocket" and "upgrade" in conn_tokens
    rq = {"rid": rid, "method": method, "version": version, "headers": hdrs,
          "upgrade": "websocket" if domain else "", "kind": "ws" if domain else "http",
          "hs": {"domain": domain, "ver": version, "method": method.upper(), "key": key is not None,
                 "wsver": wsver if wsver is not None else "", "subprotos": list(subprotos or []), "deflate": deflate,
                 "protocol": ""},
          "wskey": key or ""}
    if toks is not None:
        rq["toks"] = toks
    else:
        rq["target"] = target
    return rq


def h1_session(requests: List[Dict[str, Any]]) -> Dict[str, Any]:
    """Build script fields `stream`, `reqs`, `bodies` for a pipeline of HTTP/1 requests.

    request spec: rid, method, target, version ("1.1"/"1.0"), headers [[n,v]..],
    body: None | {"framing": "cl"|"chunked", "len": N, "chunks": [sizes], "short": k}
    upgrade: "" | "websocket" | "h2c"; raw_head: optional literal head (malformed input)
    """
    parts: List[Dict[str, Any]] = []
    reqs: List[Dict[str, Any]] = []
    creqs: List[Dict[str, Any]] = []
    bodies: Dict[str, List[int]] = {}
    pos = 0

    def add_raw(text: str) -> None:
        nonlocal pos
        if parts and "raw" in parts[-1]:
            parts[-1]["raw"] += text
        else:
            parts.append({"raw": text})
        pos += len(text)

    for n, rq in enumerate(requests):
        rid = str(rq["rid"])
        pid = int(rq.get("pid", n + 1))
        start = pos
        method = rq.get("method", "GET")
        body = rq.get("body")
        toks = rq.get("toks")
        if toks is None:
            toks = [[rq.get("target", "/"), rq.get("target", "/")]]
        target = "".join(t[0] for t in toks)
        hdrs = []
        if "raw_head" in rq:
            add_raw(rq["raw_head"])
        else:
            lines = ["%s %s HTTP/%s" % (method, target, rq.get("version", "1.1"))]
            hdrs = list(rq.get("headers", [["host", "hypercorn"]]))
            if not rq.get("no_rid"):
                hdrs.append(["x-rid", rid])
            if body is not None:
                if body["framing"] == "cl":
                    hdrs.append(["content-length", str(body.get("declared", body["len"]))])
                else:
                    hdrs.append(["transfer-encoding", "chunked"])
            for name, value in hdrs:
                lines.append("%s: %s" % (name, value))
            add_raw("\r\n".join(lines) + "\r\n\r\n")
        head_end = pos
        segs: List[List[int]] = []
        if body is not None:
            total = body["len"]
            sent = body.get("sent", total)  # client may stop short of the declared length
            if body["framing"] == "cl":
                if sent:
                    parts.append({"pat": [pid, 0, sent]})
                    segs.append([pos, pos + sent, 0])
                    pos += sent
            else:
                off = 0
                sizes = body.get("chunks") or ([total] if total else [])
                for size in sizes:
                    if off >= sent:
                        break
                    size = min(size, sent - off)
                    ext = body.get("ext", "")
                    add_raw("%x%s\r\n" % (size, ext))
                    parts.append({"pat": [pid, off, size]})
                    segs.append([pos, pos + size, off])
                    pos += size
                    add_raw("\r\n")
                    off += size
                if body.get("bad_chunk"):
                    # a chunk-size line that is not hexadecimal: the message is malformed from here on
                    bad_at = pos
                    add_raw("ZZ\r\n")
                elif sent >= total and not body.get("no_last_chunk"):
                    add_raw("0\r\n\r\n")
            bodies[rid] = [pid, sent]
            complete = sent >= total and not body.get("no_last_chunk") and not body.get("bad_chunk")
        else:
            bodies[rid] = [pid, 0]
            complete = True
        creqs.append(
            {
                "app": rid,
                "idx": n + 1,
                "method": method,
                "toks": [[t[0], t[1]] for t in toks],
                "headers": [[h[0], h[1].strip(), h[0].lower()] for h in hdrs],
                "ver": rq.get("version", "1.1"),
                "wantclose": bool(rq.get("wantclose", False)),
                "bad": bool(rq.get("bad", False)),
                "total": 0 if body is None else body["len"],
                "kind": rq.get("kind", "http"),
                "stream": 0,
                # (matters only for a request that is upgraded to HTTP/2: there the offer gates the trailers)
                "te": any(h[0].lower() == "te" and h[1].strip().lower() == "trailers" for h in hdrs),
                "hs": rq.get("hs", HS_NONE),
                "badbody": bool(body is not None and body.get("bad_chunk")),
            }
        )
        reqs.append(
            {
                "rid": rid,
                "method": method,
                "upgrade": rq.get("upgrade", ""),
                "start": start,
                "head_end": head_end,
                "segs": segs,
                "end": pos if complete else 1 << 30,
                "version": rq.get("version", "1.1"),
                "wantclose": bool(rq.get("wantclose", False)),
                "bad": bool(rq.get("bad", False)),
                "bad_at": bad_at if (body is not None and body.get("bad_chunk")) else -1,
            }
        )
    cerr_at = 1 << 30
    for r, c in zip(reqs, creqs):
        if c["bad"]:
            cerr_at = min(cerr_at, r["start"])
        elif r["bad_at"] >= 0:
            cerr_at = min(cerr_at, r["bad_at"])
        elif c["wantclose"] or c["ver"] == "1.0":
            cerr_at = min(cerr_at, r["end"])
    ws = {str(rq["rid"]): {"key": rq["wskey"]} for rq in requests if "wskey" in rq}
    return {"stream": parts, "reqs": reqs, "bodies": bodies, "creqs": creqs, "cerr_at": cerr_at, "ws": ws}


def simple_resp_program(
    status: int = 200,
    headers: List[List[str]] = None,
    chunks: List[int] = (5,),
    pid: int = 50,
    read_first: bool = True,
    gated: bool = False,
) -> List[Any]:
    prog: List[Any] = []
    if read_first:
        prog.append(["recv_body"])
    if gated:
        prog.append(["gate"])
    prog.append(["send", {"type": "http.response.start", "status": status, "headers": headers or []}])
    off = 0
    for i, size in enumerate(chunks):
        if gated:
            prog.append(["gate"])
        prog.append(
            ["send", {"type": "http.response.body", "pat": [pid, off, size], "more": i < len(chunks) - 1}]
        )
        off += size
    if not chunks:
        prog.append(["send", {"type": "http.response.body", "more": False}])
    prog.append(["recv_disc"])
    return prog


def h2_headers(rid, stream: int, method: str = "GET", toks=None, authority: str = "hypercorn",
               extra=None, end: bool = True, scheme: str = "https", idx: int = 0, total: int = 0,
               protocol: str = None, host_header: str = None, kind: str = "http", **kw) -> Dict[str, Any]:
    """One HEADERS step of an HTTP/2 client plus the c_req description the monitors use."""
    toks = toks or [["/", "/"]]
    path = "".join(t[0] for t in toks)
    hdrs = [[":method", method], [":path", path], [":scheme", scheme]]
    if authority is not None:
        hdrs.append([":authority", authority])
    if protocol:
        hdrs.append([":protocol", protocol])
    if host_header is not None:
        hdrs.append(["host", host_header])
    hdrs += [list(h) for h in (extra or [])]
    hdrs.append(["x-rid", str(rid)])
    step = {"s": "h2", "op": "headers", "stream": stream, "rid": str(rid), "method": method, "hdrs": hdrs, "end": end}
    step["creq"] = {
        "app": str(rid), "idx": idx or (stream + 1) // 2, "method": method,
        "toks": [[t[0], t[1]] for t in toks],
        "headers": [[h[0], h[1], h[0].lower()] for h in hdrs],
        "ver": "2", "wantclose": False, "bad": False, "total": total, "kind": kind, "stream": stream,
        "te": any(h[0].lower() == "te" and h[1] == "trailers" for h in hdrs),
        "hs": kw.pop("hs", None) or HS_NONE,
    }
    step.update(kw)
    return step


def ws_h2_connect(rid, stream: int, wsver: str = "13", subprotos=None, deflate: bool = False, protocol: str = "websocket",
                  toks=None, scheme: str = "https", extra=None) -> Dict[str, Any]:
    """RFC 8441 extended CONNECT opening a WebSocket on an HTTP/2 stream."""
    hdrs = []
    if wsver is not None:
        hdrs.append(["sec-websocket-version", wsver])
    if subprotos:
        hdrs.append(["sec-websocket-protocol", ", ".join(subprotos)])
    if deflate:
        hdrs.append(["sec-websocket-extensions", "permessage-deflate"])
    hdrs += [list(h) for h in (extra or [])]
    hs = {"domain": True, "ver": "2", "method": "CONNECT", "key": False, "wsver": wsver if wsver is not None else "",
          "subprotos": list(subprotos or []), "deflate": deflate, "protocol": protocol or ""}
    return h2_headers(rid, stream, "CONNECT", toks=toks or [["/ws", "/ws"]], extra=hdrs, end=False, scheme=scheme,
                      protocol=protocol, kind="ws", hs=hs)
