"""Execute stimulus scripts against /repo's working tree and collect traces."""
from __future__ import annotations

import json
import os
import sys
import traceback
from concurrent.futures import ProcessPoolExecutor
from typing import Any, Dict, List, Tuple


def run_one(script: Dict[str, Any], worker: str, seed: int = 0) -> List[Dict[str, Any]]:
    if "variants" in script:
        # the same session executed with several segmentations; one trace, `variant` separators
        out: List[Dict[str, Any]] = []
        for i, steps in enumerate(script["variants"]):
            sub = {k: v for k, v in script.items() if k != "variants"}
            sub["steps"] = steps
            if i:
                out.append({"e": "variant", "n": i})
            out.extend(run_one(sub, worker, seed))
        return out
    if script.get("pair_workers") and worker == "pair":
        sub = {k: v for k, v in script.items() if k != "pair_workers"}
        return run_one(sub, "asyncio", seed) + [{"e": "variant", "n": 1}] + run_one(sub, "trio", seed)
    if script.get("earlier_connections"):
        # connections served by the same worker process before this one (what they leave behind in the
        # process must not matter); their traces are not part of the execution under test
        for earlier in script["earlier_connections"]:
            run_one(earlier, worker, seed)
        script = {k: v for k, v in script.items() if k != "earlier_connections"}
    from .session import Session

    sess = Session(json.loads(json.dumps(script)), worker)
    if worker == "asyncio":
        from .aio_env import AioEnv

        AioEnv(sess).run()
    else:
        from .trio_env import TrioEnv

        TrioEnv(sess, seed).run()
    return sess.trace.events


WATCHDOG_S = 600   # real seconds for one execution (they take milliseconds): only ever ends a hung harness


class HarnessWatchdog(BaseException):
    pass


def _watchdog(signum: int, frame: Any) -> None:
    raise HarnessWatchdog("execution did not end within %d s of real time" % WATCHDOG_S)


def _run_chunk(args: Tuple[List[Tuple[int, Dict[str, Any], str]], int]) -> List[Tuple[int, Any]]:
    import signal
    import threading

    chunk, seed = args
    out = []
    armed = threading.current_thread() is threading.main_thread()
    if armed:
        signal.signal(signal.SIGALRM, _watchdog)
    for idx, script, worker in chunk:
        try:
            if armed:
                signal.alarm(WATCHDOG_S)
            out.append((idx, run_one(script, worker, seed)))
        except BaseException as error:  # harness failure, reported as such
            out.append((idx, {"harness_error": "".join(traceback.format_exception(error))[-2000:]}))
        finally:
            if armed:
                signal.alarm(0)
    return out


def run_many(
    jobs: List[Tuple[Dict[str, Any], str]], seed: int = 0, procs: int = 0
) -> List[Any]:
    """jobs: (script, worker). Returns traces in job order (or {"harness_error": ...})."""
    procs = procs or min(16, os.cpu_count() or 1)
    indexed = [(i, s, w) for i, (s, w) in enumerate(jobs)]
    if len(indexed) < 40 or procs == 1:
        res = _run_chunk((indexed, seed))
    else:
        size = max(10, len(indexed) // (procs * 4))
        chunks = [(indexed[i : i + size], seed) for i in range(0, len(indexed), size)]
        res = []
        with ProcessPoolExecutor(max_workers=procs) as pool:
            for part in pool.map(_run_chunk, chunks):
                res.extend(part)
    res.sort(key=lambda x: x[0])
    return [r for _, r in res]
