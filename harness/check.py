"""bin/check entry point:  check <Cxx> [--tier quick|thorough] [--replay FILE]

Pipeline of one run (DESIGN.md section 8):
  1. TLC model checking of the design specification instances registered for the property
  2. stimulus generation: TLC behaviours of the design spec + driver-side enumerations
  3. execution of every stimulus on /repo's working tree (asyncio and trio workers)
  4. TLC batch validation of the recorded traces against the property monitor
  5. binding self-test (corrupted traces must be rejected)
  6. known-findings classification, VIOLATION / KNOWN-FINDING lines, evidence file
Exit status: 0 property held on everything explored, 1 violation, 2 machinery failure.
"""
from __future__ import annotations

import argparse
import hashlib
import json
import os
import random
import sys
import time
import traceback
from concurrent.futures import ThreadPoolExecutor
from typing import Any, Dict, List, Optional, Tuple

from . import registry, run, tlc
from .known import KnownFindings

VERIF = tlc.VERIF
REPLAYS = os.path.join(VERIF, "replays")
EVIDENCE = os.path.join(VERIF, "evidence")


def chunked(seq: List[Any], size: int) -> List[List[Any]]:
    return [seq[i : i + size] for i in range(0, len(seq), size)]


def validate_parallel(monitor: str, traces: List[Any], batch: int = 150, par: int = 8) -> List[Dict[str, Any]]:
    batches = chunked(traces, batch)
    with ThreadPoolExecutor(max_workers=par) as pool:
        parts = list(pool.map(lambda b: tlc.validate_traces(monitor, b), batches))
    out: List[Dict[str, Any]] = []
    for p in parts:
        out.extend(p)
    return out


def script_key(script: Dict[str, Any]) -> str:
    return hashlib.sha1(json.dumps(script, sort_keys=True).encode()).hexdigest()[:12]


def nontrivial(trace: List[Dict[str, Any]]) -> bool:
    """A trace counts as non-trivial when the server reacted (application started, bytes
    written, or transport closed) before the wind-down."""
    for ev in trace:
        if ev["e"] == "winddown":
            return False
        if ev["e"] in ("app_start", "wire", "t_close", "life_recv", "c_connect", "result"):
            return True
    return False


def main(argv: Optional[List[str]] = None) -> int:
    ap = argparse.ArgumentParser()
    ap.add_argument("prop")
    ap.add_argument("--tier", default=os.environ.get("VERIF_TIER", "quick"))
    ap.add_argument("--replay", default=None)
    ap.add_argument("--max", type=int, default=0, help="cap on the number of stimulus scripts")
    args = ap.parse_args(argv)
    seed = int(os.environ.get("VERIF_SEED", "0") or 0)
    tier = "thorough" if args.tier == "thorough" else "quick"
    prop = args.prop
    try:
        if args.replay:
            return replay(prop, args.replay)
        return check(prop, tier, seed, args.max)
    except tlc.TLCError as error:
        print("MACHINERY-FAILURE: %s" % error)
        return 2
    except Exception:
        traceback.print_exc()
        print("MACHINERY-FAILURE: unexpected exception in the checker")
        return 2


def _runner(name: str):
    if name == "worker":
        from . import worker_env

        return worker_env.run_many
    if name == "wsgi":
        from . import gen_wsgi

        return gen_wsgi.run_many
    return run.run_many


def check(prop: str, tier: str, seed: int, cap: int = 0) -> int:
    t0 = time.time()
    spec = registry.PROPS[prop]
    if spec.get("adapter"):
        return check_cases(prop, tier, seed, spec)
    rng = random.Random(seed * 1000003 + int(prop[1:]))
    known = KnownFindings.load()
    parts = spec.get("parts") or [spec]

    # 1. design-level model checking --------------------------------------------------------
    mc_stats = []
    dev_stats = []
    for part in parts:
        for inst in part.get("design", []):
            if tier == "quick" and inst.get("tier") == "thorough":
                continue
            if any(m["module"] == inst["module"] and m["cfg"] == inst["cfg"] for m in mc_stats):
                continue
            st = tlc.model_check(inst["module"], inst["cfg"], workers=inst.get("workers", 16),
                                 timeout=inst.get("timeout", 3600), coverage=bool(inst.get("coverage")))
            if not st["ok"]:
                print("MACHINERY-FAILURE: design spec %s/%s does not satisfy its properties:\n%s"
                      % (inst["module"], inst["cfg"], st["output_tail"]))
                return 2
            if inst.get("coverage") == "strict" and st["never_enabled"]:
                print("MACHINERY-FAILURE: design spec %s/%s is vacuous: actions never enabled: %s"
                      % (inst["module"], inst["cfg"], st["never_enabled"]))
                return 2
            mc_stats.append({"module": inst["module"], "cfg": inst["cfg"], "generated": st["generated"],
                             "distinct": st["distinct"], "wall_s": st["wall_s"],
                             "actions_never_enabled": st["never_enabled"] if inst.get("coverage") else "not measured"})
        # 1'. the design with a deviation switched on must exhibit the recorded finding
        for dv in part.get("deviations", []):
            st = tlc.model_check(dv["module"], dv["cfg"], workers=16, timeout=600,
                                 cfg_subst={"Dev <- NoDev": "Dev <- %s" % dv["dev"]})
            if not st["violated"] or st["violated_invariant"] != dv["expect"]:
                print("MACHINERY-FAILURE: design spec %s with %s should violate %s but TLC reported: %s\n%s"
                      % (dv["module"], dv["dev"], dv["expect"], st["violated_invariant"] or "no violation",
                         st["output_tail"][-1500:]))
                return 2
            dev_stats.append({"module": dv["module"], "dev": dv["dev"], "violates": dv["expect"],
                              "distinct": st["distinct"], "wall_s": st["wall_s"]})

    all_jobs: List[Any] = []
    all_traces: List[Any] = []
    violations = []
    known_hits: Dict[str, int] = {}
    selftests = []
    monitors = []
    nscripts = 0
    fams = set()
    for part in parts:
        # 2. stimuli ---------------------------------------------------------------------------
        scripts: List[Dict[str, Any]] = []
        for gen in part["generators"]:
            scripts.extend(gen(tier, rng))
        seen = set()
        uniq = []
        for sc in scripts:
            k = script_key(sc)
            if k not in seen:
                seen.add(k)
                uniq.append(sc)
        scripts = uniq
        if cap and len(scripts) > cap:
            scripts = rng.sample(scripts, cap)
        nscripts += len(scripts)
        fams |= set(sc.get("fam", "") for sc in scripts)
        workers = part.get("workers", ["asyncio", "trio"])
        jobs = [(sc, w) for sc in scripts for w in workers]

        # 3. executions ------------------------------------------------------------------------
        traces = _runner(part.get("runner", "conn"))(jobs, seed=seed)
        for (sc, w), tr in zip(jobs, traces):
            if isinstance(tr, dict):
                print("MACHINERY-FAILURE: harness error on %s (%s):\n%s" % (sc.get("fam"), w, tr["harness_error"]))
                return 2

        # 4. monitor validation ----------------------------------------------------------------
        monitor = part["monitor"]
        monitors.append(monitor)
        verdicts = validate_parallel(monitor, traces)

        # 5. binding self-test -----------------------------------------------------------------
        selftest = registry.selftest(part.get("selftest", prop), monitor, jobs, traces, verdicts)
        if selftest["failed"]:
            print("MACHINERY-FAILURE: binding self-test: corrupted traces were accepted: %s" % selftest["failed"])
            return 2
        selftests.append(selftest["summary"])

        # 6. classification --------------------------------------------------------------------
        for (sc, w), tr, v in zip(jobs, traces, verdicts):
            for clause, ctx in sorted(set(v["fails"])):
                sig = "%s/%s" % (clause, ctx)
                entry = known.match(prop, sig, w)
                if entry is not None:
                    known_hits[entry["line"]] = known_hits.get(entry["line"], 0) + 1
                else:
                    violations.append((sc, w, tr, clause, ctx))
        all_jobs.extend(jobs)
        all_traces.extend(traces)
    jobs, traces = all_jobs, all_traces
    # 6'. design conformance: the executions driven along TLC behaviours of H1Conn must be behaviours of
    # H1Conn (spec/TraceH1.tla).  Advisory: a rejected trace is design drift, not a property violation.
    from . import design_trace

    conformance = design_trace.check_h1(jobs, traces)
    conformance2 = design_trace.check_h2(jobs, traces)
    conformance3 = design_trace.check_ws(jobs, traces)
    for name, conf in (("H1Conn", conformance), ("H2Conn", conformance2), ("WSock", conformance3)):
        for d in conf["drift"][:5]:
            print("DESIGN-DRIFT: %s does not explain an execution (family %s, worker %s): %d of %d events matched, next %s"
                  % (name, d["family"], d["worker"], d["matched_events"], d["of"], json.dumps(d["next_event"])))
    for line, n in sorted(known_hits.items()):
        print("KNOWN-FINDING: property=%s %s  [seen in %d executions]" % (prop, line, n))
    rc = 0
    if violations:
        os.makedirs(REPLAYS, exist_ok=True)
        by_sig: Dict[str, Any] = {}
        for sc, w, tr, clause, ctx in violations:
            by_sig.setdefault("%s/%s" % (clause, ctx), (sc, w, tr, clause, ctx))
        for sig, (sc, w, tr, clause, ctx) in sorted(by_sig.items()):
            path = os.path.join(REPLAYS, "%s-%s-%s.json" % (prop, clause, script_key(sc)))
            with open(path, "w") as f:
                json.dump({"property": prop, "clause": clause, "ctx": ctx, "worker": w, "seed": seed,
                           "script": sc, "trace": tr}, f)
            print("VIOLATION property=%s replay=%s clause=%s ctx=%s worker=%s family=%s"
                  % (prop, path, clause, ctx, w, sc.get("fam", "")))
        rc = 1

    # 7. evidence ------------------------------------------------------------------------------
    nontriv = set()
    for (sc, w), tr in zip(jobs, traces):
        if nontrivial(tr):
            nontriv.add((script_key(sc), w))
    sample_idx = [0, len(jobs) // 2] if len(jobs) > 1 else [0]
    samples = []
    for i in sample_idx:
        sc, w = jobs[i]
        samples.append({"family": sc.get("fam", ""), "worker": w, "steps": sc.get("steps", sc.get("variants", [[]])[0])[:12],
                        "trace_events": len(traces[i]),
                        "trace_head": traces[i][:6]})
    ev = {
        "property_id": prop,
        "tier": tier,
        "seed": seed,
        "level": "model_checking",
        "coverage": {
            "states": max(1, sum(m["distinct"] for m in mc_stats)),
            "transitions": max(1, sum(m["generated"] for m in mc_stats)),
            "traces_validated_against_impl": len(traces),
            "samples": samples,
            "evaluations": len(traces),
            "distinct_nontrivial": len(nontriv),
            "rule": "one evaluation = one stimulus script executed on one worker class of /repo's working "
                    "tree and validated by TLC against monitor(s) %s; distinct = distinct (script hash, worker); "
                    "non-trivial = the server reacted (application started, bytes written, transport "
                    "closed, lifespan message delivered or connection accepted) before the wind-down" % ", ".join(monitors),
            "design_model_checking": mc_stats,
            "design_deviation_counterexamples": dev_stats,
            "design_trace_conformance": {
                "spec": "spec/TraceH1.tla, spec/TraceH2.tla, spec/TraceWS.tla (H1Conn / H2Conn with Dev = CodeDev, WSock "
                        "with Dev = {}; logged stimuli and observations, silent ServerNext steps, quiescence and "
                        "agreement at every settle point)",
                "executions_checked": conformance["checked"] + conformance2["checked"] + conformance3["checked"],
                "accepted_as_design_behaviours": conformance["accepted"] + conformance2["accepted"] + conformance3["accepted"],
                "h1": {"checked": conformance["checked"], "accepted": conformance["accepted"]},
                "h2": {"checked": conformance2["checked"], "accepted": conformance2["accepted"]},
                "ws": {"checked": conformance3["checked"], "accepted": conformance3["accepted"]},
                "drift": [{k: v for k, v in d.items() if k != "job"}
                          for d in (conformance["drift"] + conformance2["drift"] + conformance3["drift"])[:20]],
                "note": "advisory: design drift never decides the property",
            },
            "stimulus_families": len(fams),
            "events_validated": sum(len(t) for t in traces),
            "known_findings_hit": sorted(known_hits),
            "binding_selftest": "; ".join(selftests),
            "exhaustive": False,
            "monitor": ", ".join("spec/props/%s.tla" % m for m in monitors),
        },
        "assumptions": spec.get("assumptions", registry.COMMON_ASSUMPTIONS),
        "wall_s": round(time.time() - t0, 2),
        "violations": len(set((c, x) for _, _, _, c, x in violations)),
    }
    os.makedirs(EVIDENCE, exist_ok=True)
    with open(os.path.join(EVIDENCE, "%s.json" % prop), "w") as f:
        json.dump(ev, f, indent=1)
    print("%s %s: %d scripts, %d executions, %d events, %d design states, %d known-finding signatures, "
          "%d new violation signatures, %.1fs"
          % (prop, tier, nscripts, len(traces), ev["coverage"]["events_validated"],
             ev["coverage"]["states"], len(known_hits), ev["violations"], ev["wall_s"]))
    return rc


def _run_cases_chunk(args):
    modname, chunk = args
    import importlib

    mod = importlib.import_module(modname)
    out = []
    for case in chunk:
        try:
            out.append(mod.run_case(case))
        except BaseException as error:
            out.append({"harness_error": "".join(traceback.format_exception(error))[-2000:]})
    return out


def check_cases(prop: str, tier: str, seed: int, spec: Dict[str, Any]) -> int:
    """Properties of pure adapters: the TLA+ module is the oracle (transcribed function), TLC
    model-checks its own theorems exhaustively, the bounded input space is enumerated as
    abstract cases, every case is executed on the real code and the (input, observed) pair is
    validated by TLC against the monitor."""
    import importlib
    from concurrent.futures import ProcessPoolExecutor

    t0 = time.time()
    rng = random.Random(seed * 1000003 + int(prop[1:]))
    known = KnownFindings.load()
    mc_stats = []
    for inst in spec.get("design", []):
        if tier == "quick" and inst.get("tier") == "thorough":
            continue
        st = tlc.model_check(inst["module"], inst["cfg"], workers=inst.get("workers", 8), timeout=inst.get("timeout", 1800))
        if not st["ok"]:
            print("MACHINERY-FAILURE: design spec %s/%s does not satisfy its properties:\n%s"
                  % (inst["module"], inst["cfg"], st["output_tail"]))
            return 2
        mc_stats.append({"module": inst["module"], "cfg": inst["cfg"], "generated": st["generated"],
                         "distinct": st["distinct"], "wall_s": st["wall_s"]})
    modname = "harness.adapters." + spec["adapter"]
    mod = importlib.import_module(modname)
    cases = mod.cases(tier, rng)
    procs = spec.get("procs", 8)
    if procs > 1 and len(cases) > 200:
        size = max(50, len(cases) // (procs * 4))
        chunks = [(modname, cases[i:i + size]) for i in range(0, len(cases), size)]
        traces: List[Any] = []
        with ProcessPoolExecutor(max_workers=procs) as pool:
            for part in pool.map(_run_cases_chunk, chunks):
                traces.extend(part)
    else:
        traces = _run_cases_chunk((modname, cases))
    for case, tr in zip(cases, traces):
        if isinstance(tr, dict):
            print("MACHINERY-FAILURE: harness error on case %s:\n%s" % (json.dumps(case)[:300], tr["harness_error"]))
            return 2
    verdicts = validate_parallel(spec["monitor"], traces, batch=spec.get("batch", 1500))
    violations = []
    known_hits: Dict[str, int] = {}
    for case, tr, v in zip(cases, traces, verdicts):
        for clause, ctx in sorted(set(v["fails"])):
            entry = known.match(prop, "%s/%s" % (clause, ctx), "any")
            if entry is not None:
                known_hits[entry["line"]] = known_hits.get(entry["line"], 0) + 1
            else:
                violations.append((case, tr, clause, ctx))
    for line, n in sorted(known_hits.items()):
        print("KNOWN-FINDING: property=%s %s  [seen in %d cases]" % (prop, line, n))
    rc = 0
    if violations:
        os.makedirs(REPLAYS, exist_ok=True)
        by_sig: Dict[str, Any] = {}
        for case, tr, clause, ctx in violations:
            by_sig.setdefault("%s/%s" % (clause, ctx), (case, tr, clause, ctx))
        for sig, (case, tr, clause, ctx) in sorted(by_sig.items()):
            path = os.path.join(REPLAYS, "%s-%s-%s.json" % (prop, clause, script_key(case)))
            with open(path, "w") as f:
                json.dump({"property": prop, "clause": clause, "ctx": ctx, "case": case, "trace": tr}, f)
            print("VIOLATION property=%s replay=%s clause=%s ctx=%s" % (prop, path, clause, ctx))
        rc = 1
    distinct = len(set(script_key(c) for c in cases))
    ev = {
        "property_id": prop, "tier": tier, "seed": seed, "level": "model_checking",
        "coverage": {
            "states": max(1, sum(m["distinct"] for m in mc_stats)),
            "transitions": max(1, sum(m["generated"] for m in mc_stats)),
            "traces_validated_against_impl": len(traces),
            "samples": [{"case": cases[i], "trace": traces[i]} for i in sorted(set([0, len(cases) // 2]))],
            "evaluations": len(traces),
            "distinct_nontrivial": distinct,
            "rule": "one evaluation = one abstract case (input of the adapter, enumerated from the bounded space "
                    "the TLA+ module quantifies over) executed on /repo's working tree; TLC computes the expected "
                    "result from the case inside monitor %s and compares; distinct = distinct case (hash); every "
                    "case exercises the adapter, so all are non-trivial" % spec["monitor"],
            "design_model_checking": mc_stats,
            "events_validated": sum(len(t) for t in traces),
            "known_findings_hit": sorted(known_hits),
            "exhaustive": tier == "thorough",
            "monitor": "spec/props/%s.tla" % spec["monitor"],
        },
        "assumptions": spec.get("assumptions", registry.ADAPTER_ASSUMPTIONS),
        "wall_s": round(time.time() - t0, 2),
        "violations": len(set((c, x) for _, _, c, x in violations)),
    }
    os.makedirs(EVIDENCE, exist_ok=True)
    with open(os.path.join(EVIDENCE, "%s.json" % prop), "w") as f:
        json.dump(ev, f, indent=1)
    print("%s %s: %d cases, %d events, %d design states, %d known-finding signatures, %d new violation signatures, %.1fs"
          % (prop, tier, len(cases), ev["coverage"]["events_validated"], ev["coverage"]["states"], len(known_hits),
             ev["violations"], ev["wall_s"]))
    return rc


def replay(prop: str, path: str) -> int:
    with open(path) as f:
        rep = json.load(f)
    spec = registry.PROPS[prop]
    if spec.get("adapter"):
        import importlib

        mod = importlib.import_module("harness.adapters." + spec["adapter"])
        tr = mod.run_case(rep["case"])
        v = tlc.validate_traces(spec["monitor"], [tr])[0]
        print(json.dumps({"case": rep["case"], "trace": tr, "fails": v["fails"]}, indent=1))
        if v["fails"]:
            print("VIOLATION property=%s replay=%s" % (prop, path))
            return 1
        return 0
    parts = spec.get("parts") or [spec]
    part = parts[0]
    for p_ in parts:
        if rep.get("clause") and p_.get("runner", "conn") == ("worker" if "ms" in json.dumps(rep["script"].get("cfg", {})) or "graceful" in rep["script"].get("cfg", {}) else "conn"):
            part = p_
    if part.get("runner") == "worker":
        from . import worker_env

        tr = worker_env.run_one(rep["script"], rep["worker"], rep.get("seed", 0))
    else:
        tr = run.run_one(rep["script"], rep["worker"], rep.get("seed", 0))
    v = tlc.validate_traces(part["monitor"], [tr])[0]
    print(json.dumps({"worker": rep["worker"], "fails": v["fails"]}, indent=1))
    for ev in tr:
        print(json.dumps(ev, sort_keys=True))
    if v["fails"]:
        print("VIOLATION property=%s replay=%s" % (prop, path))
        return 1
    return 0


if __name__ == "__main__":
    sys.exit(main())
