"""Binding self-test: recorded good traces are corrupted in ways that break a specific clause
of the monitor; TLC must reject each corrupted trace with that clause.  A corruption that
is accepted means the monitor (or the binding between harness and monitor) is vacuous for
that clause: the check stops with a machinery failure."""
from __future__ import annotations

import copy
from typing import Any, Callable, Dict, List, Optional, Tuple

from . import tlc

Trace = List[Dict[str, Any]]


def _find(tr: Trace, pred, nth: int = 0) -> int:
    k = 0
    for i, ev in enumerate(tr):
        if pred(ev):
            if k == nth:
                return i
            k += 1
    return -1


def _before_winddown(tr: Trace, i: int) -> bool:
    w = _find(tr, lambda e: e["e"] == "winddown")
    return w < 0 or i < w


def flip(pred, field, value=None, func=None):
    def f(tr: Trace) -> Optional[Trace]:
        i = _find(tr, pred)
        if i < 0:
            return None
        tr = copy.deepcopy(tr)
        tr[i][field] = func(tr[i][field]) if func else value
        return tr
    return f


def delete(pred, nth: int = 0):
    def f(tr: Trace) -> Optional[Trace]:
        i = _find(tr, pred, nth)
        if i < 0:
            return None
        return tr[:i] + tr[i + 1:]
    return f


def duplicate(pred):
    def f(tr: Trace) -> Optional[Trace]:
        i = _find(tr, pred)
        if i < 0:
            return None
        return tr[: i + 1] + [copy.deepcopy(tr[i])] + tr[i + 1:]
    return f


def only_if(cond, inner):
    def f(tr: Trace) -> Optional[Trace]:
        return inner(tr) if cond(tr) else None
    return f


def _is(e, **kw):
    return lambda ev: ev["e"] == e and all(ev.get(k) == v for k, v in kw.items())


def _no_fault(tr: Trace) -> bool:
    return not any(ev["e"] in ("c_eof", "c_reset", "t_fail", "shutdown", "t_pause") and _before_winddown(tr, i)
                   for i, ev in enumerate(tr)) and not any(ev["e"] == "c_send" and ev.get("cerr") for ev in tr)


def _set_scope(field, value):
    def f(tr: Trace) -> Optional[Trace]:
        i = _find(tr, lambda e: e["e"] == "app_start" and e["sc"].get("type") == "http")
        if i < 0:
            return None
        tr = copy.deepcopy(tr)
        tr[i]["sc"][field] = value
        return tr
    return f


def _second_variant(inner):
    def f(tr: Trace) -> Optional[Trace]:
        v = _find(tr, lambda e: e["e"] == "variant")
        if v < 0:
            return None
        tail = inner(tr[v + 1:])
        return None if tail is None else tr[: v + 1] + tail
    return f


def _flip_ret_of_invalid(tr: Trace) -> Optional[Trace]:
    """the raise of an unknown message type (or a non-bytes header) turned into an acceptance"""
    for i, ev in enumerate(tr):
        if ev["e"] == "app_call" and ev.get("op") == "send" and (
                ev["m"].get("cls") in ("hdr-nonbytes", "hdr-pseudo", "text-nonstr", "path-nonstr")
                or ev["m"]["type"] in ("not.a.real.type", "websocket.bogus")):
            for j in range(i + 1, len(tr)):
                if tr[j]["e"] == "app_ret" and tr[j].get("app") == ev["app"]:
                    if tr[j].get("outcome") != "exc" or any(e["e"] in ("c_eof", "c_reset") for e in tr[:j]):
                        break
                    out = copy.deepcopy(tr)
                    out[j]["outcome"] = "ok"
                    return out
                if tr[j]["e"] == "app_recv" and tr[j].get("type", "").endswith("disconnect"):
                    break
    return None


CORRUPTIONS: Dict[str, List[Tuple[str, Callable[[Trace], Optional[Trace]], str]]] = {
    "C01": [
        ("body bytes differ", flip(lambda e: e["e"] == "app_recv" and e.get("type") == "http.request" and e.get("len", 0) > 0, "match", False), "body-bytes"),
        ("final http.request dropped", only_if(_no_fault, delete(lambda e: e["e"] == "app_recv" and e.get("type") == "http.request" and e.get("more") is False)), "body-"),
        ("scope path altered", _set_scope("path", "/somewhere-else"), "scope-path"),
        ("scope query altered", _set_scope("query_string", "zz=1"), "scope-query_string"),
        ("second instance", duplicate(_is("app_start")), "one-instance"),
    ],
    "C02": [
        ("status altered", only_if(_no_fault, flip(lambda e: e["e"] == "wire" and e.get("kind") == "head" and e.get("status") == 200, "status", 203)), "status"),
        ("body bytes differ", only_if(_no_fault, flip(lambda e: e["e"] == "wire" and e.get("kind") == "data" and e.get("len", 0) > 0, "match", False)), "body-bytes"),
        ("offset shifted", only_if(_no_fault, flip(lambda e: e["e"] == "wire" and e.get("kind") == "data" and e.get("len", 0) > 0, "off", 7777)), "body-order"),
        ("second end", only_if(_no_fault, duplicate(lambda e: e["e"] == "wire" and e.get("kind") == "end")), "end-once"),
    ],
    "C03": [
        ("second disconnect", duplicate(lambda e: e["e"] == "app_recv" and e.get("type") in ("http.disconnect", "websocket.disconnect")), "second-disconnect"),
        ("second access record", duplicate(_is("log", kind="access")), "second-access-record"),
        ("access record dropped", only_if(lambda tr: sum(1 for e in tr if e["e"] == "log" and e.get("kind") == "access") == 1,
                                          delete(_is("log", kind="access"))), "missing-access-record"),
    ],
    "C04": [
        ("handler ended with an exception", flip(_is("handler_done"), "exc", "Group[KeyError]"), "internal-error"),
    ],
    "C05": [
        ("exception log dropped", only_if(lambda tr: any(e["e"] == "app_done" and e.get("how") == "raise" for e in tr) and _no_fault(tr),
                                          delete(_is("log", kind="exception"))), "not-logged"),
        ("500 altered", only_if(_no_fault, flip(lambda e: e["e"] == "wire" and e.get("kind") == "head" and e.get("status") == 500, "status", 200)), "no-500"),
    ],
    "C06": [
        ("previous response end dropped", only_if(lambda tr: _no_fault(tr) and sum(1 for e in tr if e["e"] == "app_start") >= 2,
                                                  delete(lambda e: e["e"] == "wire" and e.get("kind") == "end")), "overlap"),
        ("body leak", flip(lambda e: e["e"] == "app_recv" and e.get("type") == "http.request" and e.get("len", 0) > 0, "match", False), "leak"),
        ("close not announced", only_if(_no_fault, flip(lambda e: e["e"] == "wire" and e.get("kind") == "head" and e.get("close") is True, "close", False)), "close-not-announced"),
    ],
    "C07": [
        ("closed earlier", only_if(lambda tr: _no_fault(tr) and not any(e["e"] == "app_start" for e in tr) and
                                   any(e["e"] == "t_close" and e.get("now", 0) >= 400 and _before_winddown(tr, i) for i, e in enumerate(tr)),
                                   flip(lambda e: e["e"] == "t_close" and e.get("now", 0) >= 400, "now", 3)), "closed-early"),
        ("never closed", only_if(lambda tr: _no_fault(tr) and not any(e["e"] == "app_start" for e in tr) and
                                 any(e["e"] == "t_close" and e.get("now", 0) >= 400 and _before_winddown(tr, i) for i, e in enumerate(tr)),
                                 delete(_is("t_close"))), "not-closed-when-idle"),
    ],
    "C05W": [
        ("terminating message after the failure", lambda tr: (
            None if not (tr[0].get("app", {}).get("raise_at", "none") != "none" and tr[1].get("called", 0) > 0
                         and tr[1]["resp"]["start_count"] >= 1) else
            [tr[0], dict(tr[1], resp=dict(tr[1]["resp"], final=True))]), "falsely-complete"),
        ("failure not handed on", lambda tr: (
            None if not (tr[0].get("app", {}).get("raise_at", "none") != "none" and tr[1].get("called", 0) > 0) else
            [tr[0], dict(tr[1], exc="")]), "failure-swallowed"),
    ],
    "C16W": [
        ("second worker's response one byte longer", lambda tr: (
            None if len(tr) != 4 else
            tr[:3] + [dict(tr[3], resp=dict(tr[3]["resp"], total=tr[3]["resp"]["total"] + 1))]), "pair-differs"),
        ("second worker's sends overlapped", lambda tr: (
            None if len(tr) != 4 or not tr[3]["resp"]["serial"] else
            tr[:3] + [dict(tr[3], resp=dict(tr[3]["resp"], serial=False))]), "pair-differs"),
    ],
    "C08": [
        ("huge amount held", flip(lambda e: e["e"] == "quiescent" and e.get("now", 0) >= 0, "held", 900000000), "held-unbounded"),
    ],
    "C09": [
        ("frame exceeds window", flip(lambda e: e["e"] == "wire" and e.get("kind") == "data" and "flow" in e and e.get("len", 0) > 0, "flow", 2000000000), "window-overrun"),
        ("second END_STREAM", duplicate(lambda e: e["e"] == "wire" and e.get("kind") == "end"), "end-once"),
        ("offset shifted", flip(lambda e: e["e"] == "wire" and e.get("kind") == "data" and "flow" in e and e.get("len", 0) > 0, "off", 12345), "data-order"),
    ],
    "C10": [
        ("message reordered", flip(lambda e: e["e"] == "app_recv" and e.get("type") == "websocket.receive", "mid", 9), "order"),
        ("pong payload differs", flip(lambda e: e["e"] == "wire" and e.get("kind") == "ws_pong", "match", False), "pong"),
        ("sent message altered", flip(lambda e: e["e"] == "wire" and e.get("kind") == "ws_msg", "idx", -1), "send-fidelity"),
    ],
    "C11": [
        ("accept token wrong", flip(lambda e: e["e"] == "wire" and e.get("kind") == "ws_accept", "token_ok", False), "accept-rendering"),
        ("first message not connect", flip(lambda e: e["e"] == "app_recv" and e.get("type") == "websocket.connect", "type", "websocket.receive-bogus"), "connect-first"),
    ],
    "C12": [
        ("invalid message accepted", _flip_ret_of_invalid, "accepted-invalid"),
        ("control character on the wire", flip(lambda e: e["e"] == "wire" and e.get("kind") == "head" and "ctl" in e, "ctl", True), "ctl-on-wire"),
    ],
    "C13": [
        ("http version altered", _set_scope("http_version", "1.0"), "wrong-protocol"),
        ("second split variant loses the response end", _second_variant(delete(lambda e: e["e"] == "wire" and e.get("kind") == "end")), "split-dependent"),
    ],
    "C16": [
        ("trio run loses a wire event", _second_variant(delete(lambda e: e["e"] == "wire" and e.get("kind") in ("data", "head", "ws_msg"))), "wire-differs"),
        ("trio run delivers a different message", _second_variant(flip(lambda e: e["e"] == "app_recv" and e.get("type") == "http.request", "len", 4242)), "app-seq-differs"),
    ],
    "C18": [
        ("oversize head reached an application", lambda tr: (
            None if not any(e["e"] == "c_req" and e.get("kind") == "oversize" for e in tr) else
            tr[: _find(tr, _is("quiescent"))] + [{"e": "app_start", "app": "1", "conn": 1, "dup": False,
                                                  "sc": {"type": "http", "http_version": "1.1"}}] + tr[_find(tr, _is("quiescent")):]),
         "incomplete-limit"),
    ],
}


def run_selftest(prop: str, monitor: str, traces: List[Trace], verdicts: List[Dict[str, Any]], per: int = 3) -> Dict[str, Any]:
    corruptions = CORRUPTIONS.get(prop, [])
    clean = [t for t, v in zip(traces, verdicts) if not v["fails"]]
    batch: List[Trace] = []
    meta: List[Tuple[str, str]] = []
    exercised: Dict[str, int] = {}
    for name, func, expect in corruptions:
        n = 0
        for tr in clean:
            if n >= per:
                break
            bad = func(tr)
            if bad is None:
                continue
            batch.append(bad)
            meta.append((name, expect))
            n += 1
        exercised[name] = n
    failed: List[str] = []
    if batch:
        res = tlc.validate_traces(monitor, batch)
        for (name, expect), v in zip(meta, res):
            if not any(c.startswith(expect) for c, _ in v["fails"]):
                failed.append("%s (expected clause %s*, got %s)" % (name, expect, sorted(set(c for c, _ in v["fails"]))))
    summary = "%d corrupted traces over %d corruption kinds rejected; not exercised on this run's traces: %s" % (
        len(batch) - len(failed), len(corruptions), sorted(k for k, n in exercised.items() if n == 0))
    return {"failed": sorted(set(failed)), "summary": summary, "corrupted": len(batch)}
