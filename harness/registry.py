"""Which monitor, design instances and stimulus generators decide each property."""
from __future__ import annotations

import copy
from typing import Any, Dict, List

from . import gen_h1

COMMON_ASSUMPTIONS = [
    "h11/h2/wsproto/priority libraries behave as documented (their server roles are exercised, not re-verified)",
    "the fake transport mirrors the asyncio selector transport / trio SocketStream contract (write, close, EOF, flow control)",
    "virtual time: timers fire exactly at their deadlines; real time never decides a verdict",
    "design-level results hold for the stated small constants; conformance runs use real sizes on the schedules the scripts force",
]

PROPS: Dict[str, Dict[str, Any]] = {
    "C01": {"monitor": "C01", "generators": [gen_h1.gen_c01]},
    "C02": {"monitor": "C02", "generators": [gen_h1.gen_c02]},
    "C06": {"monitor": "C06", "generators": [gen_h1.gen_c06]},
}


def selftest(prop: str, monitor: str, jobs, traces, verdicts) -> Dict[str, Any]:
    return {"failed": [], "summary": "not yet implemented"}
