"""Which monitor, design instances and stimulus generators decide each property."""
from __future__ import annotations

import copy
import random
from typing import Any, Dict, List

from . import from_tlc, gen_asgi, gen_h1, gen_h2, gen_limits, gen_proto, gen_shutdown, gen_worker, gen_ws, gen_wsgi

COMMON_ASSUMPTIONS = [
    "h11/h2/wsproto/priority libraries behave as documented (their server roles are exercised, not re-verified)",
    "the fake transport mirrors the asyncio selector transport / trio SocketStream contract (write, close, EOF, flow control)",
    "virtual time: timers fire exactly at their deadlines; real time never decides a verdict",
    "design-level results hold for the stated small constants; conformance runs use real sizes on the schedules the scripts force",
]

def sampled(gen, n: int):
    """quick tier: a seeded sample of another property's family; thorough: all of it"""
    def g(tier, rng):
        scripts = list(gen(tier, rng))
        if tier == "quick" and len(scripts) > n:
            scripts = rng.sample(scripts, n)
        return scripts
    return g


def always(gen, prefixes):
    """the families of another property's generator that must not be left to sampling"""
    def g(tier, rng):
        return [sc for sc in gen(tier, random.Random(0)) if str(sc.get("fam", "")).startswith(tuple(prefixes))]
    return g


C06_FIXED = always(gen_h1.gen_c06, ("c06/ignored-upgrade", "c06/message-goes-wrong"))


H1_DESIGN = [
    {"module": "MC_H1Conn", "cfg": "MC_H1Conn_quick.cfg"},
    {"module": "MC_H1Conn", "cfg": "MC_H1Conn_thorough.cfg", "tier": "thorough", "timeout": 7200},
]


def _dev(dev: str, expect: str) -> Dict[str, Any]:
    return {"module": "MC_H1Conn", "cfg": "MC_H1Conn_quick.cfg", "dev": dev, "expect": expect}


H1_GEN = [from_tlc.gen_h1_from_spec]
# thorough tier: every (quiescent state, stimulus) pair of the small H1Conn instances (faults one kind at a time)
H1_GRAPH = [from_tlc.gen_h1_from_graph]

PROPS: Dict[str, Dict[str, Any]] = {
    "C01": {"monitor": "C01", "generators": [gen_h1.gen_c01, gen_h2.gen_h2_basic, sampled(gen_h1.gen_c06, 400), C06_FIXED] + H1_GEN, "design": H1_DESIGN},
    "C02": {"monitor": "C02", "generators": [gen_h1.gen_c02, gen_h2.gen_h2_basic, sampled(gen_h1.gen_c06, 400), C06_FIXED, gen_h2.gen_flow, gen_h2.gen_h2c_trailers] + H1_GEN, "design": H1_DESIGN},
    "C03": {"monitor": "C03", "generators": [gen_h1.gen_c03, gen_h2.gen_h2_faults, sampled(gen_h2.gen_release, 150), sampled(gen_ws.gen_c11, 120),
                                               from_tlc.gen_ws_from_graph] + H1_GEN + H1_GRAPH, "design": H1_DESIGN,
            "deviations": [_dev("DevDoubleLog", "AtMostOneAccess"), _dev("DevParked", "Released")]},
    "C05": {"parts": [
        {"monitor": "C05", "generators": [gen_h1.gen_c05, gen_h2.gen_h2_faults, gen_h2.gen_refused_start, gen_h2.gen_failed_upload] + H1_GEN, "design": H1_DESIGN},
        # a WSGI application is an application too: the adapter must hand its failure on unfinished
        {"monitor": "C05W", "generators": [gen_wsgi.gen_c05w], "runner": "wsgi", "workers": ["wsgi"], "selftest": "C05W"},
    ]},
    "C06": {"monitor": "C06", "generators": [gen_h1.gen_c06] + H1_GEN + H1_GRAPH, "design": [dict(H1_DESIGN[0], coverage=True)] + H1_DESIGN[1:],
            "deviations": [_dev("DevDiscPutBlocks", "Released")]},
    "C07": {"monitor": "C07", "generators": [gen_h1.gen_c07, gen_h2.gen_h2_faults, sampled(gen_h1.gen_c06, 400), C06_FIXED] + H1_GEN + H1_GRAPH, "design": H1_DESIGN,
            "deviations": [_dev("DevParked", "Released"), _dev("DevIdleKeeps", "Released"),
                           _dev("DevDiscPutBlocks", "Released")]},
}


def flat_c13(tier, rng):
    """the openings of C13, each segmentation as a script of its own"""
    for sc in gen_proto.gen_c13(tier, rng):
        if "variants" not in sc:
            yield sc
            continue
        for i, steps in enumerate(sc["variants"]):
            sub = {k: v for k, v in sc.items() if k != "variants"}
            sub["steps"] = steps
            sub["fam"] = sc["fam"] + "/split%d" % i
            yield sub


PROPS["C04"] = {"monitor": "C04", "generators": [gen_h2.gen_unusual, gen_h2.gen_priority, gen_h2.gen_priority_idle, gen_h2.gen_h2_faults, gen_h1.gen_c06, gen_ws.gen_c10,
                                                 gen_ws.gen_c11, flat_c13, gen_proto.gen_h2c_odd_settings, gen_limits.gen_c18] + H1_GEN}
H2_DESIGN = [
    {"module": "MC_H2Conn", "cfg": "MC_H2Conn_quick.cfg"},
    {"module": "MC_H2Conn", "cfg": "MC_H2Conn_grow.cfg"},
    {"module": "MC_H2Conn", "cfg": "MC_H2Conn_thorough.cfg", "tier": "thorough", "timeout": 7200},
]


H2UP_DESIGN = [{"module": "MC_H2Up", "cfg": "MC_H2Up.cfg"}]


def _updev(dev: str, expect: str) -> Dict[str, Any]:
    # (one configuration per invariant: with several, which one TLC reports first depends on its workers)
    cfg = {"CreditConserved": "MC_H2Up_credit.cfg", "ReaderNeverStuck": "MC_H2Up_reader.cfg",
           "FinalSendReturns": "MC_H2Up_final.cfg"}[expect]
    return {"module": "MC_H2Up", "cfg": cfg, "dev": dev, "expect": expect}


def _h2dev(dev: str, expect: str, cfg: str = "MC_H2Conn_quick.cfg") -> Dict[str, Any]:
    return {"module": "MC_H2Conn", "cfg": cfg, "dev": dev, "expect": expect}


PROPS["C08"] = {"monitor": "C08", "generators": [gen_h2.gen_release, gen_h2.gen_flow, from_tlc.gen_h2_from_spec, from_tlc.gen_h2_from_graph],
                "design": H2_DESIGN,
                "deviations": [_h2dev("DevLowWater", "Bounded", "MC_H2Conn_grow.cfg"), _h2dev("DevCloseNoRelease", "NoStuckSend"),
                               _h2dev("DevResetNoRelease", "NoStuckSend")]}
# (action coverage of the design instance is measured where the property is about that design: C06, C09)
PROPS["C09"] = {"monitor": "C09", "generators": [gen_h2.gen_flow, gen_h2.gen_release, gen_h2.gen_h2_basic, gen_h2.gen_unusual, gen_h2.gen_priority_idle,
                                                 from_tlc.gen_h2_from_spec, from_tlc.gen_h2_from_graph, from_tlc.gen_h2up_from_graph],
                "design": [dict(H2_DESIGN[0], coverage="strict")] + H2_DESIGN[1:] + H2UP_DESIGN,
                "deviations": [_updev("DevNoAckGone", "CreditConserved"), _updev("DevAckBody", "CreditConserved")]}
WS_DESIGN = [{"module": "MC_WSock", "cfg": "MC_WSock_quick.cfg", "coverage": "strict"}]


def _wsdev(dev: str, expect: str) -> Dict[str, Any]:
    return {"module": "MC_WSock", "cfg": "MC_WSock_quick.cfg", "dev": dev, "expect": expect}


PROPS["C10"] = {"monitor": "C10", "generators": [gen_ws.gen_c10, from_tlc.gen_ws_from_graph, gen_proto.gen_ws_early], "design": WS_DESIGN,
                "deviations": [_wsdev("DevAfterClose", "NoCrash"), _wsdev("DevClosedLate", "NoCrash")]}
PROPS["C11"] = {"monitor": "C11", "generators": [gen_ws.gen_c11, from_tlc.gen_ws_from_graph], "design": WS_DESIGN,
                "deviations": [_wsdev("DevCodeLost", "DisconnectCode"), _wsdev("DevConnectedEarly", "NoStrayFrames")]}
PROPS["C12"] = {"monitor": "C12", "generators": [gen_asgi.gen_c12],
                "design": [{"module": "Asgi", "cfg": "MC_Asgi.cfg"}]}
PROPS["C13"] = {"monitor": "C13", "generators": [gen_proto.gen_c13]}


def gen_c16(tier, rng):
    """The sessions of C01-C13 (a seeded sample in the quick tier), each executed on both workers."""
    pools = [gen_h1.gen_c01, gen_h1.gen_c02, gen_h1.gen_c06, gen_h1.gen_c03, gen_h1.gen_c07, gen_h2.gen_h2_basic,
             gen_h2.gen_flow, gen_h2.gen_release, gen_h2.gen_unusual, gen_h2.gen_h2_faults, gen_ws.gen_c10, gen_ws.gen_c11,
             gen_asgi.gen_c12, from_tlc.gen_h1_from_spec, gen_proto.gen_ws_early]
    for gen in pools:
        # (the self-cancel ending exists on asyncio only: not the "same application behaviour")
        scripts = [s for s in gen(tier, rng) if "variants" not in s and "/cancel@" not in s.get("fam", "")]
        if tier == "quick" and len(scripts) > 45:
            scripts = rng.sample(scripts, 45)
        for sc in scripts:
            sc = dict(sc)
            sc["pair_workers"] = True
            sc["fam"] = "pair/" + sc.get("fam", "")
            yield sc


PROPS["C16"] = {"parts": [
    {"monitor": "C16", "generators": [gen_c16], "workers": ["pair"]},
    # an application script may be a WSGI application: the two adapters of each kind, side by side
    {"monitor": "C16W", "generators": [gen_wsgi.gen_c16w], "runner": "wsgi", "workers": ["wsgi"], "selftest": "C16W"},
]}


def gen_everything_else(tier, rng):
    """C04 quantifies over every client input: the families written for the other connection-level properties
    are client inputs too (a crash in one of them went unnoticed until the worker comparison happened to show
    it - F04e).  Quick tier: a seeded sample of each family; thorough: all of them."""
    pools = [gen_h1.gen_c01, gen_h1.gen_c02, gen_h1.gen_c03, gen_h1.gen_c07, gen_h2.gen_h2_basic, gen_h2.gen_flow,
             gen_h2.gen_release, gen_asgi.gen_c12, from_tlc.gen_h2_from_spec, from_tlc.gen_h2_from_graph,
             from_tlc.gen_ws_from_graph]
    for gen in pools:
        scripts = [s for s in gen(tier, rng) if "variants" not in s]
        if tier == "quick" and len(scripts) > 60:
            scripts = rng.sample(scripts, 60)
        yield from scripts


PROPS["C04"]["generators"] = PROPS["C04"]["generators"] + [gen_everything_else]
# (the WebSocket design's NoCrash is C04's statement for that stream: "no client input makes the handler raise")
# the receive side of HTTP/2 (H2Up): credit for everything consumed or discarded (C01 upload-starved, C05
# collateral), an application's final send returns (C05)
PROPS["C01"]["design"] = PROPS["C01"]["design"] + H2UP_DESIGN
PROPS["C01"]["deviations"] = [_updev("DevAckBody", "CreditConserved")]
PROPS["C01"]["generators"] = PROPS["C01"]["generators"] + [from_tlc.gen_h2up_from_graph]
PROPS["C05"]["parts"][0]["design"] = PROPS["C05"]["parts"][0]["design"] + H2UP_DESIGN
PROPS["C05"]["parts"][0]["deviations"] = [_updev("CodeDev", "FinalSendReturns"), _updev("DevNoAckGone", "CreditConserved")]
PROPS["C04"]["design"] = [{"module": "MC_WSock", "cfg": "MC_WSock_quick.cfg"}] + H2UP_DESIGN
# (... and H2Up's ReaderNeverStuck is "a request on one stream affects at most its own stream" for the one reader
#  all streams share; CodeDev is the behaviour of the pinned code, finding F06c)
PROPS["C04"]["deviations"] = [_wsdev("DevAfterClose", "NoCrash"), _wsdev("DevClosedLate", "NoCrash"),
                              _updev("CodeDev", "ReaderNeverStuck")]
PROPS["C17"] = {"monitor": "C17", "adapter": "c17",
                "design": [{"module": "Wsgi", "cfg": "MC_Wsgi.cfg"}],
                "technique": "TLA+ oracle (Wsgi.tla) model-checked by TLC + TLC validation of real executions of every enumerated case"}
WORKER_DESIGN = [
    {"module": "MC_Worker", "cfg": "MC_Worker_quick.cfg"},
    {"module": "MC_Worker", "cfg": "MC_Worker_thorough.cfg", "tier": "thorough", "timeout": 3600},
]


def _wdev(dev: str, expect: str) -> Dict[str, Any]:
    return {"module": "MC_Worker", "cfg": "MC_Worker_quick.cfg", "dev": dev, "expect": expect}


PROPS["C14"] = {"monitor": "C14", "generators": [gen_worker.gen_c14], "runner": "worker", "design": WORKER_DESIGN,
                "deviations": [_wdev("DevFailedSwallowed", "NothingServedAfterFailure")]}
PROPS["C15"] = {"parts": [
    {"monitor": "C15", "generators": [gen_worker.gen_c15], "runner": "worker", "design": WORKER_DESIGN,
     "deviations": [_wdev("DevWaitClosed", "BoundedShutdown"), _wdev("DevShutdownStartTO", "BoundedShutdown")], "selftest": "C15"},
    {"monitor": "C15C", "generators": [gen_shutdown.gen_c15c, gen_h2.gen_h2_faults], "selftest": "C15C"},
]}
PROPS["C18"] = {"parts": [
    {"monitor": "C18", "generators": [gen_limits.gen_c18, gen_h1.gen_c06], "selftest": "C18"},
    {"monitor": "C18W", "generators": [gen_worker.gen_c18w], "runner": "worker", "design": WORKER_DESIGN,
     "deviations": [_wdev("DevMarkGe", "RecycleWindow")], "selftest": "C18W"},
]}
PROPS["C19"] = {"monitor": "C19", "adapter": "c19", "procs": 4, "batch": 400,
                "design": [{"module": "Config", "cfg": "MC_Config.cfg"}],
                "technique": "TLA+ oracle (Config.tla, tables transcribed from the documentation) model-checked by TLC + TLC validation of real executions of every enumerated case"}
PROPS["C20"] = {"monitor": "C20", "adapter": "c20",
                "design": [{"module": "Middleware", "cfg": "MC_Middleware.cfg"}],
                "technique": "TLA+ oracle (Middleware.tla) model-checked by TLC + TLC validation of real executions of every enumerated case"}

ADAPTER_ASSUMPTIONS = [
    "the abstract case alphabet (value pools, header shapes, path segments) is representative of the unbounded input space",
    "concretisation (building the real strings / files / argv from the abstract case) is faithful",
    "TLC evaluates the oracle operators as specified",
]


def selftest(prop: str, monitor: str, jobs, traces, verdicts) -> Dict[str, Any]:
    from .selftest import run_selftest

    return run_selftest(prop, monitor, traces, verdicts)


NOT_APPLICABLE: Dict[str, str] = {}
SOURCE_COMMITS: List[str] = []
DEFAULT_LEVEL_TEXT = (
    "The property is restated once as a deterministic TLA+ monitor over the observation alphabet (spec/Obs.tla, "
    "spec/props); TLC validates, event by event, every trace recorded from the real server classes (both worker "
    "classes, virtual time, scripted applications and client) against it, and exhaustively model-checks the "
    "implementation-shaped design specification for small constants. Stimuli are TLC-generated behaviours of the "
    "design specification plus driver-side enumerations (segmentations, fault and crash-point placement)."
)
DEFAULT_LEVEL_NOTE = (
    "Trusted: TLC, the sans-io libraries' client roles used as independent parsers, the fake transports' fidelity "
    "to the asyncio/trio stream contracts. Bounded: design constants (2-3 requests/streams), the schedules the "
    "scripts force. Verdicts come only from monitor clauses on traces of /repo's working tree."
)
DEFAULT_TECHNIQUE = "TLA+ monitor + TLC trace validation of real executions; TLC model checking of the design spec"
