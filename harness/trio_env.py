"""trio environment: the real hypercorn.trio.tcp_server.TCPServer under trio's MockClock,
with a fake stream mirroring trio.SocketStream's observable contract."""
from __future__ import annotations

import socket
from typing import Any, Dict, List, Optional

import trio
import trio.testing

from hypercorn.app_wrappers import ASGIWrapper
from hypercorn.trio.tcp_server import TCPServer
from hypercorn.trio.worker_context import WorkerContext

from .common import ms


class FakeSocket:
    family = socket.AF_INET

    def getpeername(self):
        return ("10.1.2.3", 45678)

    def getsockname(self):
        return ("10.9.8.7", 8080)


class FakeStream:
    """Plain (non-TLS) stream: has `.socket` and no `do_handshake`."""

    HIGH = 64 * 1024  # pretend kernel send buffer when the client is not reading

    def __init__(self, env: "TrioEnv") -> None:
        self.env = env
        high = env.sess.script.get("transport_high")
        if high is not None:
            self.HIGH = int(high)
        self.socket = FakeSocket()
        self.inbox = bytearray()
        self.in_eof = False
        self.in_error: Optional[BaseException] = None
        self.readable = trio.Event()
        self.closed = False
        self.sent_eof = False
        self.client_paused = False
        self.buffer = bytearray()
        self.writable = trio.Event()
        self.write_fails = False
        self.sending = False

    # ---- server-facing ----------------------------------------------------------------
    async def receive_some(self, max_bytes: Optional[int] = None) -> bytes:
        await trio.lowlevel.checkpoint_if_cancelled()
        while True:
            if self.closed:
                raise trio.ClosedResourceError("stream closed")
            if self.in_error is not None:
                raise trio.BrokenResourceError() from self.in_error
            if self.inbox:
                n = len(self.inbox) if max_bytes is None else min(max_bytes, len(self.inbox))
                data = bytes(self.inbox[:n])
                del self.inbox[:n]
                await trio.lowlevel.cancel_shielded_checkpoint()
                return data
            if self.in_eof:
                await trio.lowlevel.cancel_shielded_checkpoint()
                return b""
            self.readable = trio.Event()
            await self.readable.wait()

    async def send_all(self, data) -> None:
        if self.sending:
            raise trio.BusyResourceError("another task is sending")
        self.sending = True
        try:
            await trio.lowlevel.checkpoint()
            if self.closed:
                raise trio.ClosedResourceError("stream closed")
            if self.sent_eof:
                raise trio.ClosedResourceError("can't send after send_eof")
            if self.write_fails or self.in_error is not None:
                raise trio.BrokenResourceError("Broken pipe")
            data = bytes(data)
            self.env.written += len(data)
            if not self.client_paused:
                self.env.deliver(data)
                return
            self.buffer.extend(data)
            while self.client_paused and len(self.buffer) > self.HIGH:
                self.writable = trio.Event()
                await self.writable.wait()
                if self.closed:
                    raise trio.ClosedResourceError("stream closed")
                if self.write_fails or self.in_error is not None:
                    raise trio.BrokenResourceError("Broken pipe")
        finally:
            self.sending = False

    async def wait_send_all_might_not_block(self) -> None:
        await trio.lowlevel.checkpoint()

    async def send_eof(self) -> None:
        if self.sending:
            raise trio.BusyResourceError("another task is sending")
        await trio.lowlevel.checkpoint()
        if self.closed:
            raise trio.ClosedResourceError("stream closed")
        if self.sent_eof:
            return
        if self.in_error is not None or self.write_fails:
            raise trio.BrokenResourceError("Broken pipe")
        self.sent_eof = True
        self.env.on_server_eof()

    async def aclose(self) -> None:
        if not self.closed:
            self.closed = True
            self.env.on_server_close()
            self.readable.set()
            self.writable.set()
        await trio.lowlevel.checkpoint()

    # ---- client-facing ------------------------------------------------------------------
    def client_send(self, data: bytes) -> None:
        if self.closed:
            return
        self.inbox.extend(data)
        self.readable.set()

    def client_eof(self) -> None:
        self.in_eof = True
        self.readable.set()

    def client_reset(self) -> None:
        self.in_error = ConnectionResetError(104, "Connection reset by peer")
        self.inbox.clear()
        self.buffer.clear()  # a reset connection delivers nothing more to the client
        self.readable.set()
        self.writable.set()

    def client_pause(self) -> None:
        self.client_paused = True

    def client_resume(self) -> None:
        self.client_paused = False
        if self.buffer:
            data = bytes(self.buffer)
            self.buffer.clear()
            self.env.deliver(data)
        self.writable.set()


class FakeTLSStream(FakeStream):
    """Looks like trio.SSLStream to TCPServer.run: do_handshake, selected_alpn_protocol,
    transport_stream.socket."""

    def __init__(self, env: "TrioEnv", alpn: Optional[str]) -> None:
        super().__init__(env)
        self._alpn = alpn
        self.transport_stream = self

    async def do_handshake(self) -> None:
        await trio.lowlevel.checkpoint()

    def selected_alpn_protocol(self) -> Optional[str]:
        return self._alpn

    async def send_eof(self) -> None:
        # SSLStream cannot half-close: TCPServer._close tolerates the error and goes on to aclose()
        raise trio.BusyResourceError("send_eof is not supported on TLS streams") if False else AttributeError("send_eof")


class StepCounter(trio.abc.Instrument):
    """Counts task steps between quiescent points; a server that spins is cut off."""

    LIMIT = 200000

    def __init__(self, env: "TrioEnv") -> None:
        self.env = env
        self.count = 0

    def before_task_step(self, task) -> None:
        self.count += 1
        if self.count > self.LIMIT and not self.env.spinning:
            self.env.spinning = True
            self.env.sess.trace.log("spin", now=ms(self.env.now()))
            self.env.sess.trace.sealed = True
            if self.env.root_scope is not None:
                self.env.root_scope.cancel()


class TrioGate:
    def __init__(self, env: "TrioEnv", rid: str) -> None:
        self.env = env
        self.rid = rid
        self.event = trio.Event()

    async def wait(self) -> None:
        while not self.env.take_token(self.rid):
            self.event = trio.Event()
            await self.event.wait()

    def poke(self) -> None:
        self.event.set()


class TrioEnv:
    worker = "trio"

    def __init__(self, sess, seed: int = 0) -> None:
        self.sess = sess
        sess.env = self
        self.seed = seed
        self.tokens: Dict[str, int] = {}
        self.open_gates = False
        self.gates: Dict[str, TrioGate] = {}
        self.written = 0
        self.delivered = 0
        self.server_closed = False
        self.client_is_gone = False
        self.handler_done = False
        self.clock = trio.testing.MockClock()
        self.iterations = 0
        self.spinning = False
        self.root_scope = None
        self.counter = StepCounter(self)

    # ---- gates ------------------------------------------------------------------------
    def new_gate(self, rid: str) -> TrioGate:
        gate = TrioGate(self, rid)
        self.gates[rid] = gate
        return gate

    def take_token(self, rid: str) -> bool:
        if self.open_gates:
            return True
        base = rid.split("#")[0]
        if self.tokens.get(base, 0) > 0:
            self.tokens[base] -= 1
            return True
        return False

    def grant(self, rid: str, n: int) -> None:
        self.tokens[rid] = self.tokens.get(rid, 0) + n
        for key, gate in self.gates.items():
            if key.split("#")[0] == rid:
                gate.poke()

    def grant_all(self) -> None:
        self.open_gates = True
        for gate in self.gates.values():
            gate.poke()

    async def sleep(self, dt: float) -> None:
        await trio.sleep(dt)

    async def cancel_self(self) -> bool:
        return False  # a trio task cannot cancel itself from the inside: treated as an early return

    # ---- transport callbacks ------------------------------------------------------------
    def now(self) -> float:
        return self.clock.current_time() - self.t0

    def deliver(self, data: bytes) -> None:
        self.delivered += len(data)
        self.sess.client.on_wire(data)

    def on_server_eof(self) -> None:
        self.sess.trace.log("t_eof", now=ms(self.now()))

    def on_server_close(self) -> None:
        if not self.server_closed:
            self.server_closed = True
            self.sess.trace.log("t_close", now=ms(self.now()))
            self.sess.client.on_close()

    # ---- stimuli ------------------------------------------------------------------------
    def feed(self, data: bytes) -> None:
        self.stream.client_send(data)

    def c_eof(self) -> None:
        self.client_is_gone = True
        self.stream.client_eof()

    def c_reset(self) -> None:
        self.client_is_gone = True
        self.stream.client_reset()

    def t_pause(self) -> None:
        self.stream.client_pause()

    def t_resume(self) -> None:
        self.stream.client_resume()

    def t_fail(self) -> None:
        self.stream.write_fails = True
        self.stream.writable.set()

    def shutdown(self) -> None:
        self.context.terminated._event.set()

    def client_paused(self) -> bool:
        return self.stream.client_paused

    def client_gone(self) -> bool:
        return self.client_is_gone or self.server_closed

    # ---- running ------------------------------------------------------------------------
    def quiescent(self, steps: int) -> None:
        live = 0
        if self.nursery is not None:
            live = sum(_count_tasks(t) for t in self.nursery.child_tasks)
        self.sess.trace.log(
            "quiescent",
            now=ms(self.now()),
            live=live,
            handler=not self.handler_done,
            held=self.sess.accepted_bytes() - self.written,
            tbuf=len(self.stream.buffer),
            steps=steps,
        )

    async def _handler(self) -> None:
        exc_name = "none"
        try:
            await self.server.run()
        except BaseException as error:
            exc_name = _exc_name(error)
            if not isinstance(error, Exception) and not isinstance(error, BaseExceptionGroup):
                raise
        finally:
            self.handler_done = True
            self.sess.trace.log("handler_done", exc=exc_name, now=ms(self.now()))

    async def _settle(self) -> int:
        self.counter.count = 0
        await trio.testing.wait_all_tasks_blocked()
        return self.counter.count

    async def _run_steps(self, gen) -> None:
        for item in gen:
            if item is not None:
                kind, val = item
                target = val if kind == "tick" else self.now() + val
                target = round(target * 1000) / 1000   # as in aio_env: millisecond grid, deadlines within 1e-7 count
                self.sess.trace.log("tick", to=ms(target))
                while True:
                    await self._settle()
                    nxt = trio.lowlevel.current_statistics().seconds_to_next_deadline
                    remaining = target - self.now()
                    if nxt == float("inf") or nxt > remaining + 1e-7 or remaining < -1e-7:
                        break
                    self.clock.jump(max(nxt, 0.0))
                    await self._settle()
                remaining = target - self.now()
                if remaining > 0:
                    self.clock.jump(remaining)
            n = await self._settle()
            self.quiescent(n)

    async def _main(self) -> None:
        sess = self.sess
        self.t0 = self.clock.current_time()
        trio._core._run._r.seed(self.seed)
        if sess.carrier == "h2":
            self.stream = FakeTLSStream(self, "h2")
        elif sess.script.get("tls"):
            self.stream = FakeTLSStream(self, sess.script.get("alpn"))
        else:
            self.stream = FakeStream(self)
        self.context = WorkerContext(sess.script.get("max_requests"))
        self.server = TCPServer(ASGIWrapper(sess.puppet), sess.config, self.context, {}, self.stream)
        self.nursery = None
        sess.open_event()
        try:
            async with trio.open_nursery() as nursery:
                self.nursery = nursery
                self.root_scope = nursery.cancel_scope
                nursery.start_soon(self._handler)
                await self._settle()
                self.quiescent(0)
                await self._run_steps(sess.steps())
                await self._run_steps(sess.finish_steps())
                sess.trace.sealed = True
                # leftovers inside a shielded scope (the idle timer's server close parked on a full application
                # queue) would outlive the cancellation and with it this run: the trace is sealed, take the
                # shields down
                for task in list(nursery.child_tasks):
                    _unshield(task)
                self.nursery = None
                nursery.cancel_scope.cancel()
        except BaseException as error:  # leftovers cancelled at the end of the execution
            if isinstance(error, (KeyboardInterrupt, SystemExit)):
                raise

    def run(self) -> None:
        trio.run(self._main, clock=self.clock, instruments=[self.counter])


def _unshield(task) -> None:
    try:
        status = task._cancel_status
        while status is not None:
            if getattr(status._scope, "shield", False):
                status._scope.shield = False
            status = status._parent
    except AttributeError:   # another trio: the run then ends only when the leftovers do
        pass
    for nursery in task.child_nurseries:
        for child in nursery.child_tasks:
            _unshield(child)


def _count_tasks(task) -> int:
    n = 1
    for nursery in task.child_nurseries:
        for child in nursery.child_tasks:
            n += _count_tasks(child)
    return n


def _exc_name(exc: BaseException) -> str:
    if isinstance(exc, BaseExceptionGroup):
        return "Group[" + ",".join(sorted(_exc_name(e) for e in exc.exceptions)) + "]"
    return type(exc).__name__
