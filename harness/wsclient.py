"""WebSocket client side (after a 101 on HTTP/1.1 or a 200 to an extended CONNECT on HTTP/2).

Frames are built by a small framer of our own (so that fragmentation can split a UTF-8 code
point, and malformed frames can be produced); compressed messages are produced by wsproto's
client.  Everything the server writes is parsed by an independent wsproto *client*."""
from __future__ import annotations

import base64
import hashlib
import struct
from typing import Any, Callable, Dict, List, Optional, Tuple

from wsproto.connection import Connection, ConnectionType
from wsproto.events import BytesMessage, CloseConnection, Ping, Pong, TextMessage
from wsproto.extensions import PerMessageDeflate
from wsproto.utilities import RemoteProtocolError

from .common import pat, tpat

GUID = b"258EAFA5-E914-47DA-95CA-C5AB0DC85B11"
OP = {"cont": 0, "text": 1, "bytes": 2, "close": 8, "ping": 9, "pong": 10}


def accept_token(key: str) -> str:
    return base64.b64encode(hashlib.sha1(key.encode("latin1") + GUID).digest()).decode()


def frame(opcode: int, payload: bytes, fin: bool = True, mask: bytes = b"\x11\x22\x33\x44", rsv: int = 0) -> bytes:
    b0 = (0x80 if fin else 0) | (rsv << 4) | opcode
    n = len(payload)
    if n < 126:
        head = struct.pack("!BB", b0, 0x80 | n)
    elif n < 65536:
        head = struct.pack("!BBH", b0, 0x80 | 126, n)
    else:
        head = struct.pack("!BBQ", b0, 0x80 | 127, n)
    masked = bytes(b ^ mask[i % 4] for i, b in enumerate(payload))
    return head + mask + masked


class WSPeer:
    def __init__(self, sess, rid: str, feed: Optional[Callable[[bytes], None]], h2: Optional[Tuple[Any, int]] = None) -> None:
        self.sess = sess
        self.rid = rid
        self.feed = feed
        self.h2 = h2
        self.deflate: Optional[PerMessageDeflate] = None
        self.conn: Optional[Connection] = None
        self.pings: List[bytes] = []
        self.frag_kind = ""
        self.frag: Any = None
        self.out_index = 0
        self.mid = len(sess.ws_sent.get(rid, []))   # (messages written together with the handshake count)
        self.closed_seen = False
        self.parse_error = False
        self._pending: List[Any] = []
        self._np = 0
        self._raw = bytearray()      # the server's bytes, scanned frame by frame independently of wsproto
        self._raw_closes = 0
        self._raw_bad = ""

    # -- handshake result ----------------------------------------------------------------------
    def accept_response(self, headers: List[List[str]]) -> None:
        hs = {h[2] if len(h) > 2 else h[0].lower(): h[1] for h in headers}
        hsinfo = self.sess.script.get("ws", {}).get(self.rid, {})
        key = hsinfo.get("key", "")
        token = hs.get("sec-websocket-accept", "")
        exts = hs.get("sec-websocket-extensions", "")
        extensions = []
        if "permessage-deflate" in exts:
            self.deflate = PerMessageDeflate()
            self.deflate.offer()
            self.deflate.finalize(exts.split(",")[0].strip())
            extensions.append(self.deflate)
        self.conn = Connection(ConnectionType.CLIENT, extensions)
        self.sess.trace.log(
            "wire", kind="ws_accept", app=self.rid,
            token_ok=(token == accept_token(key)) if key else (token == ""),
            has_token=token != "",
            subprotocol=hs.get("sec-websocket-protocol", ""),
            deflate=self.deflate is not None,
        )

    # -- stimuli --------------------------------------------------------------------------------
    def _out(self, data: bytes, cuts: Any) -> List[bytes]:
        if self.h2 is not None:
            peer, sid = self.h2
            data = peer.ws_send(sid, data)
            peer._after = []
            peer._npieces = 0
        if cuts == "bytewise":
            pieces = [data[i : i + 1] for i in range(len(data))]
        elif cuts:
            pts = [0] + [c for c in sorted(set(cuts)) if 0 < c < len(data)] + [len(data)]
            pieces = [data[a:b] for a, b in zip(pts, pts[1:])]
        else:
            pieces = [data] if data else []
        return pieces

    def fed(self, index: int, n: int) -> None:
        """Piece `index` of the current step reached the server; the message counts as sent
        once its last piece did."""
        self.sess.trace.log("c_send", upto=0, n=n, reqs=[], cerr=False)
        if index == self._np - 1:
            for args, kw in self._pending:
                self.sess.trace.log(*args, **kw)
            self._pending = []

    def flush_logs(self) -> None:
        """The step was cut short (server closed): what the client set out to send still counts."""
        for args, kw in self._pending:
            self.sess.trace.log(*args, **kw)
        self._pending = []

    def step(self, st: Dict[str, Any]) -> List[bytes]:
        self.flush_logs()
        pieces = self._step(st)
        self._np = len(pieces)
        if not pieces:
            self.fed(-1, 0)
        return pieces

    def _step(self, st: Dict[str, Any]) -> List[bytes]:
        op = st["op"]
        self._pending = []

        def log(*args: Any, **kw: Any) -> None:
            self._pending.append((args, kw))

        data = b""
        limit = int(self.sess.config.websocket_max_message_size)
        if op in ("text", "bytes"):
            self.mid += 1
            pid, ln = st["pid"], st["len"]
            if op == "text":
                text = tpat(pid, 0, ln)
                payload = text.encode()
                size = len(text)
                self.sess.ws_sent.setdefault(self.rid, []).append({"kind": "text", "payload": text})
            else:
                payload = pat(pid, 0, ln)
                size = ln
                self.sess.ws_sent.setdefault(self.rid, []).append({"kind": "bytes", "payload": payload})
            frags = st.get("frags") or [len(payload)]
            compressed = bool(st.get("compress")) and self.deflate is not None
            from wsproto.connection import ConnectionState as _CS

            if compressed and self.conn.state is not _CS.OPEN:
                compressed = False  # the server already started closing: the library would refuse to send
            if compressed:
                # wsproto's client produces the compressed frames (fragmentation at message level)
                pos = 0
                chunks = []
                sizes = list(frags)
                if sum(sizes) < len(payload):
                    sizes.append(len(payload) - sum(sizes))
                if op == "text":
                    # fragment on character boundaries for the compressed variant
                    tpos = 0
                    tsizes = [max(1, s) for s in sizes]
                    while tpos < len(text) or not chunks:
                        n = tsizes[len(chunks)] if len(chunks) < len(tsizes) else len(text) - tpos
                        part = text[tpos : tpos + n]
                        tpos += n
                        chunks.append(self.conn.send(TextMessage(data=part, message_finished=tpos >= len(text))))
                        if tpos >= len(text):
                            break
                else:
                    while pos < len(payload) or not chunks:
                        n = sizes[len(chunks)] if len(chunks) < len(sizes) else len(payload) - pos
                        part = payload[pos : pos + n]
                        pos += n
                        chunks.append(self.conn.send(BytesMessage(data=part, message_finished=pos >= len(payload))))
                        if pos >= len(payload):
                            break
                data = b"".join(chunks)
                nfr = len(chunks)
            else:
                pos = 0
                out = []
                sizes = list(frags)
                if sum(sizes) < len(payload):
                    sizes.append(len(payload) - sum(sizes))
                if not sizes:
                    sizes = [0]
                between = st.get("ping_between")
                for i, n in enumerate(sizes):
                    part = payload[pos : pos + n]
                    pos += n
                    last = i == len(sizes) - 1
                    out.append(frame(OP[op] if i == 0 else 0, part, fin=last))
                    if between and not last:
                        pp = b"p%d" % i
                        self.pings.append(pp)
                        log("c_ws", app=self.rid, kind="ping", mid=0, size=len(pp), over=False, frags=1)
                        out.append(frame(OP["ping"], pp))
                data = b"".join(out)
                nfr = len(sizes)
            log("c_ws", app=self.rid, kind=op, mid=self.mid, size=size, over=size > limit, frags=nfr)
        elif op == "frag":
            # one frame of a message (the design's ClientFragment); the message counts as sent - and is made
            # known to the monitors - when its last fragment goes out or when what has gone out already exceeds
            # the size limit, whichever comes first
            kind, n = st["kind"], st["len"]
            if st["first"]:
                self.mid += 1
                self._fr = {"kind": kind, "data": b"", "frags": 0, "logged": False, "pid": st["pid"]}
            fr = self._fr
            part = bytes(97 + (fr["pid"] + len(fr["data"]) + i) % 26 for i in range(n))
            if kind == "bytes":
                part = bytes(b ^ 0x80 for b in part)
            data = frame(OP[kind] if st["first"] else 0, part, fin=bool(st["fin"]))
            fr["data"] += part
            fr["frags"] += 1
            log("c_frag", app=self.rid, kind=kind, first=bool(st["first"]), fin=bool(st["fin"]), n=n)
            size = len(fr["data"])
            if (st["fin"] or size > limit) and not fr["logged"]:
                fr["logged"] = True
                log("c_ws", app=self.rid, kind=kind, mid=self.mid, size=size, over=size > limit, frags=fr["frags"])
            if st["fin"]:
                payload: Any = fr["data"].decode("ascii") if kind == "text" else fr["data"]
                self.sess.ws_sent.setdefault(self.rid, []).append({"kind": kind, "payload": payload})
        elif op == "ping":
            pp = st.get("payload", "ping").encode()
            self.pings.append(pp)
            data = frame(OP["ping"], pp)
            log("c_ws", app=self.rid, kind="ping", mid=0, size=len(pp), over=False, frags=1)
        elif op == "close":
            code = st.get("code")
            payload = b"" if code is None else struct.pack("!H", code) + st.get("reason", "").encode()
            data = frame(OP["close"], payload)
            log("c_ws", app=self.rid, kind="close", mid=0, size=-1 if code is None else code, over=False, frags=1)
        elif op == "text_close":
            # a complete text message and the client's close frame in one write (one read for the server)
            self.mid += 1
            text = tpat(st["pid"], 0, st["len"])
            self.sess.ws_sent.setdefault(self.rid, []).append({"kind": "text", "payload": text})
            code = st["code"]
            data = frame(OP["text"], text.encode()) + frame(OP["close"], struct.pack("!H", code))
            log("c_ws", app=self.rid, kind="text", mid=self.mid, size=len(text), over=len(text) > limit, frags=1)
            log("c_ws", app=self.rid, kind="close", mid=0, size=code, over=False, frags=1)
        elif op == "raw":
            data = bytes.fromhex(st["hex"])
            log("c_ws", app=self.rid, kind="raw", mid=0, size=len(data), over=False, frags=1)
        else:
            raise AssertionError(op)
        return self._out(data, st.get("cuts"))

    # -- observing ------------------------------------------------------------------------------
    def _scan_raw(self, data: bytes) -> None:
        """Frame headers as the server wrote them: close frames really sent, reserved bits set without a
        negotiated extension, unknown opcodes, masked server frames."""
        self._raw += data
        while len(self._raw) >= 2:
            b0, b1 = self._raw[0], self._raw[1]
            n, pos = b1 & 0x7F, 2
            if n == 126:
                if len(self._raw) < 4:
                    return
                n, pos = int.from_bytes(self._raw[2:4], "big"), 4
            elif n == 127:
                if len(self._raw) < 10:
                    return
                n, pos = int.from_bytes(self._raw[2:10], "big"), 10
            if b1 & 0x80:
                pos += 4
                self._raw_bad = self._raw_bad or "masked frame from the server"
            if len(self._raw) < pos + n:
                return
            opcode, rsv = b0 & 0x0F, (b0 >> 4) & 0x07
            if rsv and not (self.deflate is not None and rsv == 4 and opcode in (1, 2)):
                self._raw_bad = self._raw_bad or "reserved bits %d set on opcode %d" % (rsv, opcode)
            if opcode not in (0, 1, 2, 8, 9, 10):
                self._raw_bad = self._raw_bad or "unknown opcode %d" % opcode
            if opcode == 8:
                self._raw_closes += 1
            del self._raw[: pos + n]

    def on_wire(self, data: bytes) -> None:
        log = self.sess.trace.log
        if self.conn is None or self.parse_error:
            return
        self._scan_raw(data)
        if self._raw_bad:
            self.parse_error = True
            log("wire", kind="error", app=self.rid, why="websocket frame: %s" % self._raw_bad)
            return
        self.conn.receive_data(data)
        try:
            events = list(self.conn.events())
        except RemoteProtocolError as error:
            self.parse_error = True
            log("wire", kind="error", app=self.rid, why="wsproto client: %s" % str(error)[:60])
            return
        for ev in events:
            if isinstance(ev, (TextMessage, BytesMessage)):
                kind = "text" if isinstance(ev, TextMessage) else "bytes"
                if self.frag is None:
                    self.frag_kind = kind
                    self.frag = ev.data
                else:
                    self.frag = self.frag + ev.data
                if ev.message_finished:
                    payload, self.frag = self.frag, None
                    outs = self.sess.ws_out.get(self.rid, [])
                    idx = -1
                    if self.out_index < len(outs) and outs[self.out_index]["kind"] == self.frag_kind \
                            and outs[self.out_index]["payload"] == payload:
                        idx = self.out_index + 1
                    self.out_index += 1
                    log("wire", kind="ws_msg", app=self.rid, mkind=self.frag_kind, size=len(payload), idx=idx,
                        seq=self.out_index)
            elif isinstance(ev, Pong):
                ok = bool(self.pings) and bytes(ev.payload) == self.pings[0]
                if self.pings:
                    self.pings.pop(0)
                log("wire", kind="ws_pong", app=self.rid, match=ok)
            elif isinstance(ev, Ping):
                log("wire", kind="ws_ping", app=self.rid)
            elif isinstance(ev, CloseConnection):
                if self._raw_closes == 0:
                    # wsproto reports its own parse failures as a close event: the server sent no close frame
                    self.parse_error = True
                    log("wire", kind="error", app=self.rid, why="wsproto client: %s" % str(ev.reason)[:60])
                    return
                self.closed_seen = True
                log("wire", kind="ws_close", app=self.rid, code=int(ev.code))

    def on_close(self) -> None:
        pass
