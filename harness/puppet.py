"""Scripted ("puppet") ASGI application.

Each application instance executes a small program (a list of ops) taken from the
script; `gate` ops wait for a token granted by the harness, so the point at which
an application makes progress relative to client bytes, timers and faults is
chosen by the stimulus script.  Every step is logged to the trace.
"""
from __future__ import annotations

from typing import Any, Dict, List, Optional

from .common import hdrs_str, pat, tpat


class PuppetError(Exception):
    pass


def _b(x: Any) -> Any:
    """header cell: "abc" -> b"abc"; {"str": "abc"} -> "abc" (deliberately not bytes);
    {"int": 3} -> 3"""
    if isinstance(x, dict):
        if "str" in x:
            return x["str"]
        if "int" in x:
            return x["int"]
        if "none" in x:
            return None
    return x.encode("latin1")


def build_msg(spec: Dict[str, Any]) -> Dict[str, Any]:
    """Concretise an abstract message spec into an ASGI message."""
    t = spec["type"]
    msg: Dict[str, Any] = {"type": t}
    if "status" in spec:
        msg["status"] = spec["status"]
    if "status_raw" in spec:
        msg["status"] = spec["status_raw"]   # (what the application really passes; "status" is what it means)
    if "headers" in spec:
        msg["headers"] = [(_b(n), _b(v)) for n, v in spec["headers"]]
    if "trailers" in spec:
        msg["trailers"] = spec["trailers"]
    if "pat" in spec:
        pid, off, ln = spec["pat"]
        if spec.get("text"):
            msg["text"] = tpat(pid, off, ln)
        elif t == "websocket.send":
            msg["bytes"] = pat(pid, off, ln)
        else:
            msg["body"] = pat(pid, off, ln)
    if "raw" in spec:
        key = "bytes" if t == "websocket.send" else "body"
        msg[key] = spec["raw"].encode("latin1")
    if "rawtext" in spec:
        msg["text"] = spec["rawtext"]
    if "badtext" in spec:
        msg["text"] = 12345  # not a str
    if "more" in spec:
        key = "more_trailers" if t == "http.response.trailers" else "more_body"
        msg[key] = spec["more"]
    if "path" in spec:
        msg["path"] = _b(spec["path"]) if isinstance(spec["path"], dict) else spec["path"]
    if "links" in spec:
        msg["links"] = [x.encode("latin1") for x in spec["links"]]
    if "subprotocol" in spec:
        msg["subprotocol"] = spec["subprotocol"]
    if "code" in spec:
        msg["code"] = spec["code"]
    if "reason" in spec:
        msg["reason"] = spec["reason"]
    if "message" in spec:
        msg["message"] = spec["message"]
    return msg


def msg_len(spec: Dict[str, Any]) -> int:
    if "pat" in spec:
        if spec.get("text"):
            return len(tpat(*spec["pat"]).encode())
        return spec["pat"][2]
    if "raw" in spec:
        return len(spec["raw"])
    if "rawtext" in spec:
        return len(spec["rawtext"].encode())
    return 0


def scope_projection(scope: Dict[str, Any]) -> Dict[str, Any]:
    out: Dict[str, Any] = {"type": scope.get("type", "")}
    for key in ("method", "scheme", "http_version", "path", "root_path"):
        if key in scope:
            out[key] = scope[key]
    if "raw_path" in scope:
        out["raw_path"] = scope["raw_path"].decode("latin1")
    if "query_string" in scope:
        out["query_string"] = scope["query_string"].decode("latin1")
    if "headers" in scope:
        out["headers"] = hdrs_str(scope["headers"])
    for key in ("client", "server"):
        if key in scope:
            v = scope[key]
            out[key] = "none" if v is None else "%s:%s" % (v[0], v[1])
    if "subprotocols" in scope:
        out["subprotocols"] = list(scope["subprotocols"])
    if "extensions" in scope:
        out["extensions"] = sorted(scope["extensions"].keys())
    return out


class AppInst:
    def __init__(self, puppet: "Puppet", rid: str, scope: Dict[str, Any], program: List[Any]):
        self.puppet = puppet
        self.sess = puppet.sess
        self.rid = rid
        self.scope = scope
        self.program = program
        self.gate = self.sess.env.new_gate(rid)
        self.recv_off = 0  # request body bytes delivered so far
        self.pc = 0
        self.done = False
        self.got_disc = False
        self.self_cancel = False

    def log(self, e: str, **kw: Any) -> None:
        self.sess.trace.log(e, app=self.rid, **kw)

    async def _recv(self, receive) -> Dict[str, Any]:
        self.log("app_call", op="recv")
        msg = await receive()
        self.log_recv(msg)
        return msg

    def log_recv(self, msg: Dict[str, Any]) -> None:
        t = msg.get("type", "?")
        fields: Dict[str, Any] = {"type": t}
        if t == "http.request":
            body = msg.get("body", b"")
            exp = self.sess.expected_body(self.rid, self.recv_off, len(body))
            fields.update(
                off=self.recv_off,
                len=len(body),
                match=(exp == body),
                more=bool(msg.get("more_body", False)),
            )
            self.recv_off += len(body)
        elif t == "websocket.receive":
            fields.update(self.sess.identify_ws_message(self.rid, msg))
        elif t == "websocket.disconnect":
            fields["code"] = int(msg.get("code", -1))
            self.got_disc = True
        elif t == "http.disconnect":
            self.got_disc = True
        elif t.startswith("lifespan."):
            pass
        self.log("app_recv", **fields)

    async def _exec(self, op, receive, send) -> bool:
        """Execute one op; returns True when the program must stop (return)."""
        name = op[0]
        if name == "gate":
            await self.gate.wait()
        elif name == "recv":
            await self._recv(receive)
        elif name == "recv_body":
            while not self.got_disc:
                msg = await self._recv(receive)
                if msg["type"] != "http.request" or not msg.get("more_body", False):
                    break
        elif name == "recv_disc":
            while not self.got_disc:
                msg = await self._recv(receive)
                if msg["type"] in ("http.disconnect", "websocket.disconnect"):
                    break
        elif name == "send":
            spec = op[1]
            self.log("app_call", op="send", m=_loggable(spec))
            built = build_msg(spec)
            self.sess.note_send(self.rid, built)
            try:
                await send(built)
            except Exception as error:
                self.log("app_ret", op="send", outcome="exc", exc=type(error).__name__)
                if len(op) > 2 and op[2] == "propagate":
                    raise
            else:
                self.log("app_ret", op="send", outcome="ok")
        elif name == "sleep":
            await self.sess.env.sleep(op[1])
        elif name == "state_set":
            self.scope["state"][op[1]] = op[2]
        elif name == "state_get":
            self.log("app_state", key=op[1], val=str(self.scope["state"].get(op[1], "<unset>")))
        elif name == "probe":
            # keep listening after the disconnect: anything that still arrives is logged (C03:
            # "nothing ever delivered after it"); never returns by itself
            while True:
                await self._recv(receive)
        elif name == "return":
            return True
        elif name == "raise":
            raise PuppetError("scripted failure")
        elif name == "raise_group":
            # what an application that runs its own task group / nursery ends with when a child task fails
            raise ExceptionGroup("scripted failure in a task group", [PuppetError("scripted failure")])
        elif name == "cancel":
            # the application ends through cancellation of its own task (e.g. it awaited something
            # that was cancelled); only the asyncio worker lets a task do that to itself
            self.self_cancel = True
            if not await self.sess.env.cancel_self():
                return True
        elif name == "remote":
            # remote controlled: the harness supplies one op per token
            queue = self.sess.remote_ops.setdefault(self.rid.split("#")[0], [])
            while True:
                await self.gate.wait()
                if not queue:
                    if self.sess.env.open_gates:
                        await self._exec(["recv_disc"], receive, send)
                        return True
                    continue
                if await self._exec(queue.pop(0), receive, send):
                    return True
        else:
            raise AssertionError("unknown op %r" % (op,))
        return False

    async def run(self, receive, send) -> None:
        how = "return"
        try:
            for op in self.program:
                self.pc += 1
                if await self._exec(op, receive, send):
                    return
        except PuppetError:
            how = "raise"
            raise
        except ExceptionGroup as group:
            if group.subgroup(PuppetError) is None:
                how = "exc:" + type(group).__name__
            else:
                how = "raise"
            raise
        except BaseException as error:  # cancellation (asyncio.CancelledError / trio.Cancelled)
            how = "cancelled" if "Cancel" in type(error).__name__ else "exc:" + type(error).__name__
            if how == "cancelled" and self.self_cancel:
                how = "self-cancel"
            raise
        finally:
            self.done = True
            self.log("app_done", how=how)


def _loggable(spec: Dict[str, Any]) -> Dict[str, Any]:
    out: Dict[str, Any] = {"type": spec["type"], "len": msg_len(spec)}
    for key in ("status", "more", "subprotocol", "code", "trailers"):
        if key in spec:
            out[key] = spec[key]
    if "headers" in spec:
        out["headers"] = [
            [n if isinstance(n, str) else "<nonbytes>", v if isinstance(v, str) else "<nonbytes>"]
            for n, v in spec["headers"]
        ]
    if "pat" in spec:
        out["pid"] = spec["pat"][0]
        out["poff"] = spec["pat"][1]
    out["text"] = bool(spec.get("text") or "rawtext" in spec or "badtext" in spec)
    if "cls" in spec:
        out["cls"] = spec["cls"]  # validity class assigned by the generator (C12)
    return out


class Puppet:
    """ASGI callable. One AppInst per scope."""

    def __init__(self, sess) -> None:
        self.sess = sess
        self.instances: Dict[str, AppInst] = {}
        self.anon = 0

    def rid_of(self, scope: Dict[str, Any]) -> str:
        if scope["type"] == "lifespan":
            return "life"
        for name, value in scope.get("headers", []):
            if bytes(name).lower() == b"x-rid":
                return bytes(value).decode("latin1")
        self.anon += 1
        return "anon%d" % self.anon

    async def __call__(self, scope, receive, send) -> None:
        rid = self.rid_of(scope)
        base = rid
        k = 1
        while rid in self.instances:  # a second instance for the same request id is itself a finding
            k += 1
            rid = "%s#%d" % (base, k)
        programs = self.sess.programs
        program = programs.get(base, programs.get("*", [["recv_disc"]]))
        if scope["type"] == "lifespan":
            program = programs.get("life", [["raise"]])
        inst = AppInst(self, rid, scope, program)
        self.instances[rid] = inst
        inst.log("app_start", conn=self.sess.conn_id, sc=scope_projection(scope), dup=(k > 1))
        await inst.run(receive, send)
