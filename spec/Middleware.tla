----------------------------- MODULE Middleware -----------------------------
(***************************************************************************)
(* Design specification of hypercorn's three ASGI middlewares              *)
(* (src/hypercorn/middleware/proxy_fix.py, dispatcher.py, http_to_https.py)*)
(* as far as property C20 speaks about them.                               *)
(*                                                                         *)
(* Part 1 - ORACLE OPERATORS.  Pure, constant-level definitions of what    *)
(* the property demands, over structured abstract inputs (TLA+ strings     *)
(* support only = and \o, so everything that needs splitting or prefix     *)
(* tests arrives already split: header values as sequences, paths and      *)
(* prefixes as sequences of characters).  The monitor spec/props/C20.tla   *)
(* instantiates this module and uses exactly these operators on the traces *)
(* recorded from the real classes, so the definitions exist once.          *)
(*                                                                         *)
(* Part 2 - a small specification TLC checks exhaustively                  *)
(* (MC_Middleware.cfg).  Init picks one of three sections:                 *)
(*   "proxy"   an input (attacker prefix a, honest values v, hops); the    *)
(*             invariants are the trust-boundary theorem and its corner    *)
(*             cases, for every a (|a|<=2), v (|v|<=4) over 3 letters,     *)
(*             hops 0..3;                                                  *)
(*   "route"   an input (mount table of <=3 distinct prefixes, path); the   *)
(*             invariants relate the loop-shaped RouteIdx to its           *)
(*             declarative meaning (first match wins, stripped path never  *)
(*             empty, 404 iff nothing matches);                            *)
(*   "fanout"  the concurrent lifespan fan-out of the dispatcher: the      *)
(*             server sends startup then shutdown, 1..3 mount applications *)
(*             receive and complete in any order (or never); the           *)
(*             dispatcher forwards "complete" iff all have completed.      *)
(*             Invariants: never forwarded early, at most once, forwarded  *)
(*             as soon as the last one completed.  DevFanoutAny is the     *)
(*             deviation switch any() for all().                           *)
(*                                                                         *)
(* There are no CONSTANT declarations: the instance sizes are definitions  *)
(* (the .cfg may override them with `CONSTANT X <- Y`), so that the        *)
(* monitor can instantiate the module by substituting the four variables.  *)
(***************************************************************************)
EXTENDS Naturals, Integers, Sequences, FiniteSets, TLC

VARIABLES sec,     \* "proxy" | "route" | "fanout"
          inp,     \* the section's input record
          fo       \* fan-out state (see FoInit)
vars == <<sec, inp, fo>>

None == "<none>"

(***************************************************************************)
(* 1a. ProxyFixMiddleware                                                  *)
(***************************************************************************)
\* headers: sequence of records with fields lname (lower-cased header name), values (sequence of
\* the comma-separated, stripped values) and elems (for `forwarded`: the same values parsed).
Flatten(headers, name) ==
    LET f[i \in 0..Len(headers)] ==
            IF i = 0 THEN <<>>
            ELSE f[i - 1] \o (IF headers[i].lname = name THEN headers[i].values ELSE <<>>)
    IN f[Len(headers)]

FlattenElems(headers, name) ==
    LET f[i \in 0..Len(headers)] ==
            IF i = 0 THEN <<>>
            ELSE f[i - 1] \o (IF headers[i].lname = name THEN headers[i].elems ELSE <<>>)
    IN f[Len(headers)]

\* position (1-based) of the value `hops` from the right, 0 when there is none to trust
TrustedIdx(n, hops) == IF hops = 0 \/ n < hops THEN 0 ELSE n - hops + 1

Trusted(vals, hops) == IF hops = 0 \/ Len(vals) < hops THEN None ELSE vals[Len(vals) - hops + 1]

Untrusted == [client |-> None, scheme |-> None, host |-> None]
AllNone(x) == x.client = None /\ x.scheme = None /\ x.host = None

\* what the legacy X-Forwarded-* headers say
LegacyExpect(headers, hops) ==
    [client |-> Trusted(Flatten(headers, "x-forwarded-for"), hops),
     scheme |-> Trusted(Flatten(headers, "x-forwarded-proto"), hops),
     host   |-> Trusted(Flatten(headers, "x-forwarded-host"), hops)]

\* what the RFC 7239 Forwarded header says; an element is
\* [for |-> .., proto |-> .., host |-> .., text |-> "for=..;proto=.."] with None for absent parts
ModernExpect(headers, hops) ==
    LET els == FlattenElems(headers, "forwarded")
        i   == TrustedIdx(Len(els), hops)
    IN IF i = 0 THEN Untrusted
       ELSE [client |-> els[i].for, scheme |-> els[i].proto, host |-> els[i].host]

(***************************************************************************)
(* 1b. DispatcherMiddleware routing; paths and prefixes are sequences of   *)
(* characters                                                              *)
(***************************************************************************)
IsPrefix(p, s) == Len(p) <= Len(s) /\ \A i \in 1..Len(p) : p[i] = s[i]

\* the loop of _DispatcherMiddleware.__call__: index of the first matching mount, 0 = none
RouteIdx(mounts, path) ==
    LET f[i \in 1..(Len(mounts) + 1)] ==
            IF i > Len(mounts) THEN 0
            ELSE IF IsPrefix(mounts[i], path) THEN i ELSE f[i + 1]
    IN f[1]

Join(chars) ==
    LET f[i \in 0..Len(chars)] == IF i = 0 THEN "" ELSE f[i - 1] \o chars[i]
    IN f[Len(chars)]

Remainder(prefix, path) == SubSeq(path, Len(prefix) + 1, Len(path))
Stripped(prefix, path) == IF Remainder(prefix, path) = <<>> THEN <<"/">> ELSE Remainder(prefix, path)

\* [idx |-> 0] = answer 404; otherwise the mount and the path its application sees
Route(mounts, path) ==
    LET i == RouteIdx(mounts, path)
    IN IF i = 0 THEN [idx |-> 0, path |-> None]
       ELSE [idx |-> i, path |-> Join(Stripped(mounts[i], path))]

NumMatches(mounts, path) == Cardinality({i \in 1..Len(mounts) : IsPrefix(mounts[i], path)})

(***************************************************************************)
(* 1c. HTTPToHTTPSRedirectMiddleware                                       *)
(***************************************************************************)
NewUrl(scheme2, host, rootPath, rawPath, query) ==
    scheme2 \o "://" \o host \o rootPath \o rawPath \o (IF query = "" THEN "" ELSE "?" \o query)

Secure(scheme) == scheme \in {"https", "wss"}
RedirectStatuses == {301, 302, 303, 307, 308}

(***************************************************************************)
(* 2. The checked specification                                            *)
(***************************************************************************)
Alphabet == {"a", "b", "c"}
MaxAttacker == 2
MaxValues == 4
MaxHops == 3
MaxMounts == 3
DevFanoutAny == FALSE
On == TRUE        \* for cfg overrides:  CONSTANT DevFanoutAny <- On

SeqsUpTo(S, n) == UNION {[1..k -> S] : k \in 0..n}

ProxyInputs == [a : SeqsUpTo(Alphabet, MaxAttacker), v : SeqsUpTo(Alphabet, MaxValues), hops : 0..MaxHops]

PrefixPool == { <<>>, <<"/">>, <<"/", "a">>, <<"/", "a", "/", "b">>, <<"/", "b">>, <<"/", "a", "b">>,
                <<"/", "a", "/">> }
PathPool == {p \in SeqsUpTo({"/", "a", "b"}, 4) : Len(p) >= 1 /\ p[1] = "/"}
              \cup { <<"/", "a", "/", "b", "/", "a">>, <<"/", "c">> }
Injective(s) == \A i, j \in 1..Len(s) : s[i] = s[j] => i = j      \* a dict has distinct keys
MountTables == {t \in SeqsUpTo(PrefixPool, MaxMounts) : Injective(t)}
RouteInputs == [mounts : MountTables, path : PathPool]

Phases == {"startup", "shutdown"}
FoIdle == [n |-> 0, sent |-> <<>>, inbox |-> <<>>, got |-> <<>>,
           done |-> [p \in Phases |-> {}], fwd |-> [p \in Phases |-> 0]]
FoInit(n) == [n |-> n, sent |-> <<>>, inbox |-> [i \in 1..n |-> <<>>], got |-> [i \in 1..n |-> {}],
              done |-> [p \in Phases |-> {}], fwd |-> [p \in Phases |-> 0]]

Init ==
    \/ sec = "proxy" /\ inp \in ProxyInputs /\ fo = FoIdle
    \/ sec = "route" /\ inp \in RouteInputs /\ fo = FoIdle
    \/ sec = "fanout" /\ inp \in [n : 1..MaxMounts] /\ fo = FoInit(inp.n)

\* the server side of the lifespan protocol: startup, later shutdown; the dispatcher's receive
\* loop copies the message into every mount's queue
ServerSend ==
    /\ Len(fo.sent) < 2
    /\ LET p == IF fo.sent = <<>> THEN "startup" ELSE "shutdown"
       IN fo' = [fo EXCEPT !.sent = Append(@, p),
                           !.inbox = [i \in 1..fo.n |-> Append(fo.inbox[i], p)]]

MountRecv(i) ==
    /\ fo.inbox[i] # <<>>
    /\ fo' = [fo EXCEPT !.inbox[i] = Tail(@), !.got[i] = @ \cup {Head(fo.inbox[i])}]

\* mount i sends lifespan.<p>.complete through the dispatcher's send(): bookkeeping and the
\* forwarding decision happen in the same atomic step (no await in between)
MountComplete(i, p) ==
    /\ p \in fo.got[i]
    /\ i \notin fo.done[p]
    /\ LET d == fo.done[p] \cup {i}
           forward == IF DevFanoutAny THEN d # {} ELSE d = 1..fo.n
       IN fo' = [fo EXCEPT !.done[p] = d, !.fwd[p] = IF forward THEN @ + 1 ELSE @]

Next ==
    /\ sec = "fanout"
    /\ UNCHANGED <<sec, inp>>
    /\ \/ ServerSend
       \/ \E i \in 1..fo.n : MountRecv(i)
       \/ \E i \in 1..fo.n, p \in Phases : MountComplete(i, p)

Spec == Init /\ [][Next]_vars

----------------------------------------------------------------------------
(* (a) trust boundary: whatever a client prepends is irrelevant *)
TrustBoundaryAt(a, v, hops) ==
    (Len(v) >= hops /\ hops > 0) => Trusted(a \o v, hops) = Trusted(v, hops)

THEOREM TrustBoundary ==
    \A a \in Seq(Alphabet), v \in Seq(Alphabet), hops \in Nat : TrustBoundaryAt(a, v, hops)

InvTrustBoundary == sec = "proxy" => TrustBoundaryAt(inp.a, inp.v, inp.hops)
\* the trusted value is one of the honest values, at the position counted from the right
InvTrustedPosition ==
    sec = "proxy" =>
        LET w == inp.a \o inp.v IN
        /\ (inp.hops = 0 \/ Len(w) < inp.hops) => Trusted(w, inp.hops) = None /\ TrustedIdx(Len(w), inp.hops) = 0
        /\ (inp.hops > 0 /\ Len(w) >= inp.hops) =>
              /\ TrustedIdx(Len(w), inp.hops) \in 1..Len(w)
              /\ Trusted(w, inp.hops) = w[TrustedIdx(Len(w), inp.hops)]
              /\ Len(w) - TrustedIdx(Len(w), inp.hops) = inp.hops - 1   \* hops-1 values to its right
        /\ (inp.hops > 0 /\ Len(inp.v) >= inp.hops) => TrustedIdx(Len(w), inp.hops) > Len(inp.a)

(* (c) routing *)
InvRouteFirstMatch ==
    sec = "route" =>
        LET i == RouteIdx(inp.mounts, inp.path) IN
        /\ i \in 0..Len(inp.mounts)
        /\ i = 0 <=> NumMatches(inp.mounts, inp.path) = 0
        /\ i > 0 => /\ IsPrefix(inp.mounts[i], inp.path)
                    /\ \A j \in 1..(i - 1) : ~IsPrefix(inp.mounts[j], inp.path)
InvRouteNeverEmpty ==
    sec = "route" =>
        LET r == Route(inp.mounts, inp.path) IN
        r.idx > 0 =>
            LET pre == inp.mounts[r.idx]
                st  == Stripped(pre, inp.path) IN
            /\ st # <<>> /\ r.path # ""
            /\ (Remainder(pre, inp.path) # <<>>) => pre \o st = inp.path      \* only the prefix is removed
            /\ (Remainder(pre, inp.path) = <<>>) => (pre = inp.path /\ r.path = "/")

(* (b) fan-out *)
InvFanoutNeverEarly == \A p \in Phases : fo.fwd[p] > 0 => fo.done[p] = 1..fo.n
InvFanoutAtMostOnce == \A p \in Phases : fo.fwd[p] <= 1
InvFanoutIffAll     == sec = "fanout" => \A p \in Phases : (fo.fwd[p] = 1 <=> fo.done[p] = 1..fo.n)
InvFanoutOrder      == sec = "fanout" => \A i \in 1..fo.n, p \in Phases : i \in fo.done[p] => p \in fo.got[i]
=============================================================================
