------------------------------- MODULE Config -------------------------------
(***************************************************************************)
(* Design specification of hypercorn's configuration surface (property     *)
(* C19): which settings exist, which command-line flag sets which setting, *)
(* how a supplied value is normalised, what sockets a bind string asks     *)
(* for and what the server's own response headers are.                     *)
(*                                                                         *)
(* Everything in here is an ORACLE written from the documentation          *)
(* (docs/how_to_guides/configuring.rst, docs/how_to_guides/binds.rst and   *)
(* the --help texts of `hypercorn`), not from the assignment code of       *)
(* hypercorn/__main__.py, so that crossed wiring in the code is visible.   *)
(* spec/props/C19.tla instantiates this module; harness/adapters/c19.py    *)
(* reads KeyTable and FlagTable from this file (one row per line, do not   *)
(* reformat), so the tables exist exactly once.                            *)
(*                                                                         *)
(* A VALUE is a record [cls, repr, stem, trail]:                           *)
(*   cls   "str" "int" "float" "bool" "none" "list" "dict" "class"         *)
(*         "vmode" "vflags"                                                *)
(*   repr  canonical text of the Python value (strings quoted with ')      *)
(*   stem, trail  only meaningful for cls "str": the text is stem \o trail *)
(*         where trail consists of "/" only and stem does not end in "/"   *)
(*         (TLA+ cannot look inside a string, so the split is supplied).   *)
(* An effective configuration is a sequence of reprs aligned with KeyTable.*)
(*                                                                         *)
(* The state machine at the end enumerates (loader, key, value), flag      *)
(* pairs, bind shapes and header switches so that TLC checks the internal  *)
(* theorems (INVARIANTs of MC_Config.cfg) exhaustively.                    *)
(***************************************************************************)
EXTENDS Naturals, Integers, Sequences, FiniteSets, TLC

VARIABLE cur

(* ------------------------------------------------------------------------ *)
(* Settings: attribute column of the table in configuring.rst, in table    *)
(* order, with the type class of the values it takes.                      *)
(*   str/optstr  text (opt: or None)         int/optint  integer           *)
(*   num/optnum  seconds, integer or float   bool                          *)
(*   strlist     list of text                bind  text or list of text    *)
(*   path        the ASGI root_path          dict, class, vmode, vflags    *)
(* ------------------------------------------------------------------------ *)
KeyTable == <<
  <<"access_log_format", "str">>,
  <<"accesslog", "optstr">>,
  <<"alpn_protocols", "strlist">>,
  <<"alt_svc_headers", "strlist">>,
  <<"application_path", "str">>,
  <<"backlog", "int">>,
  <<"bind", "bind">>,
  <<"ca_certs", "optstr">>,
  <<"certfile", "optstr">>,
  <<"ciphers", "str">>,
  <<"debug", "bool">>,
  <<"dogstatsd_tags", "str">>,
  <<"errorlog", "optstr">>,
  <<"graceful_timeout", "num">>,
  <<"read_timeout", "optint">>,
  <<"group", "optint">>,
  <<"h11_max_incomplete_size", "int">>,
  <<"h11_pass_raw_headers", "bool">>,
  <<"h2_max_concurrent_streams", "int">>,
  <<"h2_max_header_list_size", "int">>,
  <<"h2_max_inbound_frame_size", "int">>,
  <<"include_date_header", "bool">>,
  <<"include_server_header", "bool">>,
  <<"insecure_bind", "bind">>,
  <<"keep_alive_max_requests", "int">>,
  <<"keep_alive_timeout", "num">>,
  <<"keyfile", "optstr">>,
  <<"keyfile_password", "optstr">>,
  <<"logconfig", "optstr">>,
  <<"logconfig_dict", "dict">>,
  <<"logger_class", "class">>,
  <<"loglevel", "str">>,
  <<"max_app_queue_size", "int">>,
  <<"max_requests", "optint">>,
  <<"max_requests_jitter", "int">>,
  <<"pid_path", "optstr">>,
  <<"quic_bind", "bind">>,
  <<"root_path", "path">>,
  <<"server_names", "strlist">>,
  <<"shutdown_timeout", "num">>,
  <<"ssl_handshake_timeout", "num">>,
  <<"startup_timeout", "num">>,
  <<"statsd_host", "optstr">>,
  <<"statsd_prefix", "str">>,
  <<"umask", "optint">>,
  <<"use_reloader", "bool">>,
  <<"user", "optint">>,
  <<"verify_flags", "vflags">>,
  <<"verify_mode", "vmode">>,
  <<"websocket_max_message_size", "int">>,
  <<"websocket_ping_interval", "optnum">>,
  <<"worker_class", "str">>,
  <<"workers", "int">>,
  <<"wsgi_max_body_size", "int">>
>>

(* ------------------------------------------------------------------------ *)
(* Command-line options: "Command line" column of the same table (every    *)
(* spelling is its own row), then the three deprecated options that only   *)
(* the --help text documents ("Deprecated, see access-logfile",            *)
(* "Deprecated, see error-logfile", "See verify mode argument").           *)
(* Third column: what the option takes.                                    *)
(*   str     one text argument, stored as given                            *)
(*   int     one integer literal, stored as that integer                   *)
(*   switch  no argument, stores True                                      *)
(*   append  one text argument; the setting becomes the list of the given  *)
(*           arguments ("Multiple binds" in binds.rst)                     *)
(*   vmode   the NAME of an ssl.VerifyMode member, stores the member       *)
(*   certreqs the integer VALUE of an ssl.VerifyMode member, stores the    *)
(*           member                                                        *)
(* "<application>" is the positional argument; -c/--config selects the     *)
(* configuration file and is a loader, not a setting.                      *)
(* ------------------------------------------------------------------------ *)
FlagTable == <<
  <<"--access-logformat", "access_log_format", "str">>,
  <<"--access-logfile", "accesslog", "str">>,
  <<"--backlog", "backlog", "int">>,
  <<"-b", "bind", "append">>,
  <<"--bind", "bind", "append">>,
  <<"--ca-certs", "ca_certs", "str">>,
  <<"--certfile", "certfile", "str">>,
  <<"--ciphers", "ciphers", "str">>,
  <<"--debug", "debug", "switch">>,
  <<"--error-logfile", "errorlog", "str">>,
  <<"--log-file", "errorlog", "str">>,
  <<"--graceful-timeout", "graceful_timeout", "int">>,
  <<"--read-timeout", "read_timeout", "int">>,
  <<"-g", "group", "int">>,
  <<"--group", "group", "int">>,
  <<"--insecure-bind", "insecure_bind", "append">>,
  <<"--keep-alive", "keep_alive_timeout", "int">>,
  <<"--keyfile", "keyfile", "str">>,
  <<"--keyfile-password", "keyfile_password", "str">>,
  <<"--log-config", "logconfig", "str">>,
  <<"--log-level", "loglevel", "str">>,
  <<"--max-requests", "max_requests", "int">>,
  <<"--max-requests-jitter", "max_requests_jitter", "int">>,
  <<"-p", "pid_path", "str">>,
  <<"--pid", "pid_path", "str">>,
  <<"--quic-bind", "quic_bind", "append">>,
  <<"--root-path", "root_path", "str">>,
  <<"--server-name", "server_names", "append">>,
  <<"--statsd-host", "statsd_host", "str">>,
  <<"--statsd-prefix", "statsd_prefix", "str">>,
  <<"-m", "umask", "int">>,
  <<"--umask", "umask", "int">>,
  <<"--reload", "use_reloader", "switch">>,
  <<"-u", "user", "int">>,
  <<"--user", "user", "int">>,
  <<"--verify-mode", "verify_mode", "vmode">>,
  <<"--websocket-ping-interval", "websocket_ping_interval", "int">>,
  <<"-k", "worker_class", "str">>,
  <<"--worker-class", "worker_class", "str">>,
  <<"-w", "workers", "int">>,
  <<"--workers", "workers", "int">>,
  <<"--access-log", "accesslog", "str">>,
  <<"--error-log", "errorlog", "str">>,
  <<"--cert-reqs", "verify_mode", "certreqs">>,
  <<"<application>", "application_path", "str">>
>>

(* Spellings the documentation gives for one and the same setting. *)
AliasGroups == {
  {"-b", "--bind"}, {"--error-logfile", "--log-file", "--error-log"},
  {"--access-logfile", "--access-log"}, {"-g", "--group"}, {"-p", "--pid"},
  {"-m", "--umask"}, {"-u", "--user"}, {"-k", "--worker-class"}, {"-w", "--workers"},
  {"--verify-mode", "--cert-reqs"} }

(* ------------------------------------------------------------------------ *)
NKeys   == Len(KeyTable)
Keys    == [i \in 1..NKeys |-> KeyTable[i][1]]
KeySet  == {KeyTable[i][1] : i \in 1..NKeys}
KeyIdxF == [k \in KeySet |-> CHOOSE i \in 1..NKeys : KeyTable[i][1] = k]
KeyIdx(k)   == KeyIdxF[k]
KeyClass(k) == KeyTable[KeyIdxF[k]][2]

NFlags   == Len(FlagTable)
FlagSet  == {FlagTable[i][1] : i \in 1..NFlags}
FlagIdxF == [f \in FlagSet |-> CHOOSE i \in 1..NFlags : FlagTable[i][1] = f]
FlagKey(f) == FlagTable[FlagIdxF[f]][2]
FlagCls(f) == FlagTable[FlagIdxF[f]][3]
AppFlag  == "<application>"

(* Value classes a setting of the given type class takes. *)
Accepts(kc) ==
  CASE kc = "str"     -> {"str"}
    [] kc = "optstr"  -> {"str", "none"}
    [] kc = "int"     -> {"int"}
    [] kc = "optint"  -> {"int", "none"}
    [] kc = "num"     -> {"int", "float"}
    [] kc = "optnum"  -> {"int", "float", "none"}
    [] kc = "bool"    -> {"bool"}
    [] kc = "strlist" -> {"list"}
    [] kc = "bind"    -> {"str", "list"}
    [] kc = "path"    -> {"str"}
    [] kc = "dict"    -> {"dict"}
    [] kc = "class"   -> {"class"}
    [] kc = "vmode"   -> {"vmode", "none"}
    [] kc = "vflags"  -> {"vflags", "none"}

(* Value class an option of the given kind is given on the command line. *)
FlagTakes(fc) ==
  CASE fc = "str" -> "str" [] fc = "int" -> "int" [] fc = "switch" -> "bool"
    [] fc = "append" -> "str" [] fc = "vmode" -> "vmode" [] fc = "certreqs" -> "vmode"

(* ------------------------------------------------------------------------ *)
(* Normalisation of a supplied value (the only two the property states).   *)
(* ------------------------------------------------------------------------ *)
Q == "'"
Val(c, r) == [cls |-> c, repr |-> r, stem |-> r, trail |-> ""]
StrVal(stem, trail) == [cls |-> "str", repr |-> Q \o stem \o trail \o Q, stem |-> stem, trail |-> trail]
ListOf(v) == Val("list", "[" \o v.repr \o "]")

Norm(k, v) ==
  IF KeyClass(k) = "bind" /\ v.cls = "str" THEN ListOf(v)          \* bind-like: text => [text]
  ELSE IF k = "root_path" /\ v.cls = "str" THEN StrVal(v.stem, "") \* no trailing slash
  ELSE v

(* An assignment list is a sequence of [key, val]; later entries win. *)
Asg(k, v) == [key |-> k, val |-> v]
Effective(defs, assign) ==
  [i \in 1..NKeys |->
     LET js == {j \in 1..Len(assign) : assign[j].key = Keys[i]} IN
     IF js = {} THEN defs[i]
     ELSE Norm(Keys[i], assign[CHOOSE j \in js : \A j2 \in js : j2 <= j].val).repr]

(* Command line: each given option assigns its own setting. *)
Opt(f, v) == [flag |-> f, val |-> v]
CliValue(f, v) == IF FlagCls(f) = "append" THEN ListOf(v) ELSE v
CliAssign(flags) == [j \in 1..Len(flags) |-> Asg(FlagKey(flags[j].flag), CliValue(flags[j].flag, flags[j].val))]
(* what the configuration file named by -c/--config supplies, then the positional
   application, then the options *)
EffectiveCli(defs, fileAssign, app, flags) ==
  Effective(defs, fileAssign \o <<Asg("application_path", app)>> \o CliAssign(flags))

(* ------------------------------------------------------------------------ *)
(* Binds.  A bind is [shape, addr, port, path, fam]:                       *)
(*   hostport  host:port      host  bare host       v6port  [IPv6]:port    *)
(*   unix      unix:path      fd    fd://n (fam/addr/port/path describe    *)
(*   the socket behind the descriptor)                                     *)
(* addr is the numeric address the host stands for; port 0 asks for an     *)
(* ephemeral port; the port of a bare host is not stated by the property.  *)
(* ------------------------------------------------------------------------ *)
Shapes == {"hostport", "host", "v6port", "unix", "fd"}
ExpectedFamily(b) ==
  CASE b.shape \in {"hostport", "host"} -> "inet"
    [] b.shape = "v6port" -> "inet6"
    [] b.shape = "unix" -> "unix"
    [] b.shape = "fd" -> b.fam
(* bind/insecure_bind are TCP, quic_bind is UDP *)
ExpectedType(via) == IF via = "quic_bind" THEN "dgram" ELSE "stream"
AddressOK(b, s) ==
  LET fam == ExpectedFamily(b) IN
  IF fam = "unix" THEN s.path = b.path
  ELSE /\ s.host = b.addr
       /\ IF b.shape = "host" THEN TRUE
          ELSE IF b.port = 0 /\ b.shape # "fd" THEN s.port > 0
          ELSE s.port = b.port

(* ------------------------------------------------------------------------ *)
(* The server's own response headers for h = [date, server, alt, protocol].*)
(* The date value is checked for its form by the harness (IMF-fixdate      *)
(* regex + round trip), here it is a placeholder.  Order between different *)
(* header names is not part of the property; order among the alt-svc       *)
(* values is the configured one.                                           *)
(* ------------------------------------------------------------------------ *)
Hdr(n, v) == [name |-> n, value |-> v]
ResponseHeaders(h) ==
     (IF h.date THEN <<Hdr("date", "<imf-fixdate>")>> ELSE <<>>)
  \o (IF h.server THEN <<Hdr("server", "hypercorn-" \o h.protocol)>> ELSE <<>>)
  \o [i \in 1..Len(h.alt) |-> Hdr("alt-svc", h.alt[i])]
ValuesOf(hs, n) == LET Named(x) == x.name = n
                       sel == SelectSeq(hs, Named) IN [i \in 1..Len(sel) |-> sel[i].value]
HeaderNames == {"date", "server", "alt-svc"}

(* ======================================================================== *)
(* Enumeration for TLC                                                     *)
(* ======================================================================== *)
Loaders == {"attr", "mapping", "kwargs", "object", "module", "modattr", "pyfile", "toml", "cli"}
TomlClasses == {"str", "int", "float", "bool", "list", "dict"}

ModelValues(c) ==
  CASE c = "str"    -> {StrVal("a", ""), StrVal("b", ""), StrVal("/p", "/"), StrVal("", "//")}
    [] c = "int"    -> {Val("int", "7"), Val("int", "11")}
    [] c = "float"  -> {Val("float", "2.5")}
    [] c = "bool"   -> {Val("bool", "True"), Val("bool", "False")}
    [] c = "none"   -> {Val("none", "None")}
    [] c = "list"   -> {Val("list", "['a']"), Val("list", "['a', 'b']")}
    [] c = "dict"   -> {Val("dict", "{'version': 1}")}
    [] c = "class"  -> {Val("class", "<class logging.Handler>")}
    [] c = "vmode"  -> {Val("vmode", "VerifyMode.CERT_OPTIONAL"), Val("vmode", "VerifyMode.CERT_REQUIRED")}
    [] c = "vflags" -> {Val("vflags", "VerifyFlags.VERIFY_X509_STRICT")}
ValuesFor(k) == UNION {ModelValues(c) : c \in Accepts(KeyClass(k))}
FlagValues(f) == IF FlagCls(f) = "switch" THEN {Val("bool", "True")} ELSE ModelValues(FlagTakes(FlagCls(f)))
FlagsOf(k) == {f \in FlagSet : FlagKey(f) = k}

AllModelValues == UNION {ModelValues(c) : c \in {"str", "int", "float", "bool", "none", "list", "dict", "class", "vmode", "vflags"}}
(* The command-line arguments through which option f supplies value v: the value itself;
   for a repeatable option the single element of a one-element list. *)
CliArgs(f, v) ==
  IF FlagCls(f) = "append"
  THEN {s \in ModelValues("str") : ListOf(s) = v} \cup (IF KeyClass(FlagKey(f)) = "bind" /\ v.cls = "str" THEN {v} ELSE {})
  ELSE IF v \in FlagValues(f) THEN {v} ELSE {}
CliWays(k, v) == {w \in FlagsOf(k) \X AllModelValues : w[2] \in CliArgs(w[1], v)}

(* Can the loader supply value v for setting k at all? *)
Expressible(l, k, v) ==
  IF l = "toml" THEN v.cls \in TomlClasses
  ELSE IF l = "cli" THEN CliWays(k, v) # {}
  ELSE TRUE

ModelDefaults == [i \in 1..NKeys |-> "<default of " \o Keys[i] \o ">"]
App0 == StrVal("mod:app", "")

(* The effective configurations when setting k is given value v through loader l (one per
   spelling on the command line); the application is supplied in every case so that the
   results are comparable. *)
Ways(l, k, v) ==
  IF l = "cli" THEN {EffectiveCli(ModelDefaults, <<>>, App0, <<Opt(w[1], w[2])>>) : w \in CliWays(k, v)}
  ELSE IF Expressible(l, k, v) THEN {Effective(ModelDefaults, <<Asg("application_path", App0), Asg(k, v)>>)}
  ELSE {}

RealFlags == FlagSet \ {AppFlag}
BindCases == {[kind |-> "bind", via |-> via,
               b |-> [shape |-> s, addr |-> a, port |-> p, path |-> "/tmp/x.sock", fam |-> fam]] :
                 via \in {"bind", "insecure_bind", "quic_bind"}, s \in Shapes,
                 a \in {"127.0.0.1", "::1"}, p \in {0, 5000}, fam \in {"inet", "inet6", "unix"}}
HeaderCases == {[kind |-> "headers", h |-> [date |-> d, server |-> s, alt |-> a, protocol |-> p]] :
                 d \in BOOLEAN, s \in BOOLEAN, a \in {<<>>, <<"x">>, <<"x", "y">>}, p \in {"h11", "h2", "h3"}}

Init == cur = [kind |-> "start"]
(* every setting x every value of its type x every loader that can express it *)
NextLoad == \E k \in KeySet \ {"application_path"} : \E v \in ValuesFor(k) : \E l \in Loaders :
              /\ Expressible(l, k, v)
              /\ cur' = [kind |-> "load", loader |-> l, key |-> k, val |-> v]
(* every pair of options for different settings x pairwise distinct values *)
NextPair == \E f1 \in RealFlags, f2 \in RealFlags :
              /\ FlagIdxF[f1] < FlagIdxF[f2] /\ FlagKey(f1) # FlagKey(f2)
              /\ \E v1 \in FlagValues(f1), v2 \in FlagValues(f2) :
                    /\ (v1 # v2 \/ FlagCls(f1) = "switch")
                    /\ cur' = [kind |-> "pair", f1 |-> f1, f2 |-> f2, v1 |-> v1, v2 |-> v2]
Next == /\ cur.kind = "start"
        /\ \/ NextLoad
           \/ NextPair
           \/ cur' \in BindCases
           \/ cur' \in HeaderCases
Spec == Init /\ [][Next]_cur

(* ---- theorems ----------------------------------------------------------- *)
(* the transcribed tables are consistent *)
TablesOK ==
  /\ Cardinality(KeySet) = NKeys /\ Cardinality(FlagSet) = NFlags
  /\ \A f \in FlagSet : FlagKey(f) \in KeySet /\ FlagTakes(FlagCls(f)) \in Accepts(KeyClass(FlagKey(f))) \cup
                                                   (IF FlagCls(f) = "append" THEN {"str"} ELSE {})
  /\ \A g \in AliasGroups : g \subseteq FlagSet
(* two different options never set the same setting unless documented spellings of it *)
FlagsDistinct ==
  \A f1, f2 \in FlagSet : (f1 # f2 /\ FlagKey(f1) = FlagKey(f2)) => \E g \in AliasGroups : {f1, f2} \subseteq g
AliasesSameKey == \A g \in AliasGroups : \A f1, f2 \in g : FlagKey(f1) = FlagKey(f2)

(* every loader that can express the value produces the same effective configuration *)
LoadersAgree ==
  cur.kind = "load" => Cardinality(UNION {Ways(l, cur.key, cur.val) : l \in Loaders}) = 1
(* exactly the assigned settings change, and they take the normalised value *)
ExactlyAssigned ==
  cur.kind = "load" =>
    \A e \in Ways(cur.loader, cur.key, cur.val) :
      \A i \in 1..NKeys :
        IF Keys[i] = cur.key THEN e[i] = Norm(cur.key, cur.val).repr /\ e[i] # ModelDefaults[i]
        ELSE IF Keys[i] = "application_path" THEN e[i] = App0.repr
        ELSE e[i] = ModelDefaults[i]
NormIdempotent ==
  cur.kind = "load" => /\ Norm(cur.key, Norm(cur.key, cur.val)) = Norm(cur.key, cur.val)
                       /\ (cur.key = "root_path" => Norm(cur.key, cur.val).trail = "")
                       /\ (KeyClass(cur.key) = "bind" => Norm(cur.key, cur.val).cls = "list")
(* a text given to a bind-like setting and the one-element list of it are the same setting *)
BindTextIsList ==
  (cur.kind = "load" /\ KeyClass(cur.key) = "bind" /\ cur.val.cls = "str") =>
     Norm(cur.key, cur.val) = Norm(cur.key, ListOf(cur.val))
(* two options for different settings commute and each has exactly its single effect *)
PairsCompose ==
  cur.kind = "pair" =>
    LET e12 == EffectiveCli(ModelDefaults, <<>>, App0, <<Opt(cur.f1, cur.v1), Opt(cur.f2, cur.v2)>>)
        e21 == EffectiveCli(ModelDefaults, <<>>, App0, <<Opt(cur.f2, cur.v2), Opt(cur.f1, cur.v1)>>)
        e1  == EffectiveCli(ModelDefaults, <<>>, App0, <<Opt(cur.f1, cur.v1)>>)
        e2  == EffectiveCli(ModelDefaults, <<>>, App0, <<Opt(cur.f2, cur.v2)>>) IN
    /\ e12 = e21
    /\ \A i \in 1..NKeys :
         e12[i] = IF Keys[i] = FlagKey(cur.f1) THEN e1[i] ELSE IF Keys[i] = FlagKey(cur.f2) THEN e2[i] ELSE e1[i]
(* bind shapes: total, the family follows the shape, the type follows the setting *)
BindsOK ==
  cur.kind = "bind" =>
    LET b == cur.b
        s == [family |-> ExpectedFamily(b), type |-> ExpectedType(cur.via), host |-> b.addr,
              port |-> IF b.port = 0 /\ b.shape # "fd" THEN 40000 ELSE b.port, path |-> b.path] IN
    /\ ExpectedFamily(b) \in {"inet", "inet6", "unix"}
    /\ (b.shape = "v6port" => ExpectedFamily(b) = "inet6")
    /\ (b.shape \in {"hostport", "host"} => ExpectedFamily(b) = "inet")
    /\ (ExpectedType(cur.via) = "dgram") = (cur.via = "quic_bind")
    /\ AddressOK(b, s)
    /\ (ExpectedFamily(b) # "unix" => ~AddressOK(b, [s EXCEPT !.host = "0.0.0.0"]))
    /\ (ExpectedFamily(b) = "unix" => ~AddressOK(b, [s EXCEPT !.path = "/tmp/y.sock"]))
(* header list: one date iff asked, one server iff asked, the alt-svc values in order *)
HeadersOK ==
  cur.kind = "headers" =>
    LET h == cur.h  hs == ResponseHeaders(h) IN
    /\ Len(hs) = (IF h.date THEN 1 ELSE 0) + (IF h.server THEN 1 ELSE 0) + Len(h.alt)
    /\ Len(ValuesOf(hs, "date")) = (IF h.date THEN 1 ELSE 0)
    /\ ValuesOf(hs, "server") = (IF h.server THEN <<"hypercorn-" \o h.protocol>> ELSE <<>>)
    /\ ValuesOf(hs, "alt-svc") = h.alt
    /\ \A i \in 1..Len(hs) : hs[i].name \in HeaderNames
    /\ ValuesOf(ResponseHeaders([h EXCEPT !.server = ~@]), "server") # ValuesOf(hs, "server")
=============================================================================
