---------------------------- MODULE MC_H2Conn ----------------------------
EXTENDS H2Conn
NoDev == {}
CodeDev == {"pop_lowwater_on_chunk", "drain_before_end_stream"}
DevLowWater == {"pop_lowwater_on_chunk"}
DevCloseNoRelease == {"close_no_buffer_release"}
DevResetNoRelease == {"reset_no_buffer_release"}
TwoStreams == {1, 3}
OneStream == {1}
=============================================================================
