---------------------------- MODULE MC_H1Conn ----------------------------
(* Bounded instances of H1Conn (constants that a .cfg file cannot express). *)
EXTENDS H1Conn

AllPlans == [Reqs -> [body : 0..MaxBody, close : BOOLEAN]]
(* quick: a pipelined body-less request behind one with a body; and a closing first request *)
QuickPlans == { <<[body |-> 1, close |-> FALSE], [body |-> 0, close |-> FALSE]>>,
                <<[body |-> 0, close |-> TRUE],  [body |-> 1, close |-> FALSE]>> }
NoDev == {}
DevDiscPutBlocks == {"disc_put_blocks"}
DevParked == {"parked_not_released"}
DevIdleKeeps == {"idle_keeps_handler"}
DevDoubleLog == {"double_access_log"}
=============================================================================
