SPECIFICATION Spec
CONSTANTS
  Streams <- TwoStreams
  MaxChunks = 2
  Chunk = 2
  InitWin = 1
  ConnWin = 2
  MaxCredit = 3
  Faults = {"rst", "close"}
  Dev <- NoDev
INVARIANT TypeOK
INVARIANT WindowRespected
INVARIANT OneEnd
INVARIANT EndAfterAllData
INVARIANT Bounded
INVARIANT Delivered
INVARIANT EndDelivered
INVARIANT NoStuckSend
INVARIANT NoLostWakeup
CHECK_DEADLOCK FALSE
