SPECIFICATION Spec
INVARIANT TablesOK
INVARIANT FlagsDistinct
INVARIANT AliasesSameKey
INVARIANT LoadersAgree
INVARIANT ExactlyAssigned
INVARIANT NormIdempotent
INVARIANT BindTextIsList
INVARIANT PairsCompose
INVARIANT BindsOK
INVARIANT HeadersOK
CHECK_DEADLOCK FALSE
