SPECIFICATION Spec
CONSTANTS
  Workers <- BothWorkers
  Dev <- NoDev
  Conns <- Conns2
  Grace = 2
  StartTO = 2
  ShutTO = 1
  MaxReqs <- MaxReqsQuick
  Jitter = 1
  MaxServed = 3
  MaxTime = 6
CONSTRAINT Bound
INVARIANT TypeOK
INVARIANT StartupFirst
INVARIANT AcceptOnlyAfterStartup
INVARIANT NothingServedAfterFailure
INVARIANT ErrorAfterFailure
INVARIANT ShutdownAtMostOnce
INVARIANT ShutdownNotMissing
INVARIANT ShutdownAfterDrainOrGrace
INVARIANT NoAcceptAfterTrigger
INVARIANT NoRequestAfterTrigger
INVARIANT IdleClosedAfterTrigger
INVARIANT NoEarlyCancel
INVARIANT BoundedShutdown
INVARIANT NothingLeftAfterGrace
INVARIANT RecycleWindow
CHECK_DEADLOCK FALSE
