------------------------------- MODULE Obs -------------------------------
(***************************************************************************)
(* The observation alphabet and the state every property monitor derives   *)
(* from it.  An execution of the real server is a sequence of observation  *)
(* events (JSON objects, field "e" is the event name):                     *)
(*                                                                         *)
(*   stimuli     open c_req c_send c_eof c_reset t_pause t_resume t_fail   *)
(*               shutdown app_go tick winddown final c_frame               *)
(*   observed    app_start app_call app_recv app_ret app_done wire t_eof   *)
(*               t_close log handler_done loop_error quiescent             *)
(*                                                                         *)
(* OStep(o, ev) is the deterministic, total transition function of the     *)
(* derived state o.  Monitors (props/Cxx.tla) state each property as       *)
(* clauses over (o before the event, the event, o after the event).        *)
(***************************************************************************)
EXTENDS Naturals, Integers, Sequences, FiniteSets, TLC

Get(f, k, d) == IF k \in DOMAIN f THEN f[k] ELSE d
Put(f, k, v) == [x \in (DOMAIN f) \cup {k} |-> IF x = k THEN v ELSE f[x]]
Empty == [x \in {} |-> 0]
Has(r, fld) == fld \in DOMAIN r

Max(a, b) == IF a >= b THEN a ELSE b
Min(a, b) == IF a <= b THEN a ELSE b

(* ---- per request, what the client did ---------------------------------- *)
NoReq == [known |-> FALSE, idx |-> 0, method |-> "", ver |-> "", wantclose |-> FALSE,
          bad |-> FALSE, total |-> 0, kind |-> "", stream |-> 0,
          head |-> FALSE, body |-> 0, done |-> FALSE, headAt |-> -1, begun |-> FALSE,
          rst |-> FALSE, c |-> [toks |-> <<>>, headers |-> <<>>]]

(* ---- per application instance ------------------------------------------- *)
NoApp == [started |-> 0, kind |-> "", dup |-> FALSE,
          disc |-> 0, afterDisc |-> 0, recvd |-> 0, ended |-> 0, msgs |-> 0,
          done |-> "", parked |-> "", firstRecv |-> "",
          rstart |-> FALSE, status |-> 0, hdrs |-> <<>>, trailersFlag |-> FALSE,
          called |-> 0, okBytes |-> 0, final |-> FALSE, sendExc |-> 0, sendOk |-> 0,
          lastCall |-> [type |-> ""], discCode |-> -1, discEarly |-> FALSE]

(* ---- per response as the independent client parser saw it -------------- *)
NoWire == [heads |-> 0, status |-> 0, hdrs |-> <<>>, framing |-> "", cl |-> -1,
           close |-> FALSE, got |-> 0, ends |-> 0, trunc |-> FALSE, infos |-> 0,
           bad |-> 0, rst |-> 0, endAt |-> -1, trailers |-> 0, goaway |-> FALSE]

OInit == [cfg |-> [ka |-> 0], opened |-> FALSE, now |-> 0,
          gone |-> FALSE, reset |-> FALSE, tfail |-> FALSE, paused |-> FALSE,
          shut |-> FALSE, shutAt |-> -1, cerr |-> FALSE, winddown |-> FALSE,
          final |-> FALSE,
          closedAt |-> -1, eofAt |-> -1, hdone |-> FALSE, hexc |-> "none", hdoneAt |-> -1,
          reqs |-> Empty, order |-> <<>>, apps |-> Empty, wire |-> Empty, acc |-> Empty,
          accFirst |-> Empty,
          wireErrs |-> 0, loopErrs |-> 0, excLogs |-> 0, goaway |-> 0,
          cwin |-> 65535, initwin |-> 65535, swin |-> Empty, illegal |-> FALSE, unusual |-> {},
          held |-> 0, maxHeld |-> 0, spins |-> 0, fed |-> 0, stalled |-> Empty, lossWrite |-> FALSE,
          lastByteAt |-> 0, nstarted |-> 0, startOrder |-> <<>>,
          endOrder |-> <<>>, n |-> 0]

Req(o, a)  == Get(o.reqs, a, NoReq)
App(o, a)  == Get(o.apps, a, NoApp)
Wire(o, a) == Get(o.wire, a, NoWire)
Acc(o, a)  == Get(o.acc, a, 0)

RECURSIVE ApplyProgress(_, _)
ApplyProgress(reqs, ps) ==
    IF ps = <<>> THEN reqs
    ELSE LET p == Head(ps)
             r == Get(reqs, p.app, NoReq)
         IN ApplyProgress(Put(reqs, p.app, [r EXCEPT !.head = p.head, !.body = p.body,
                                                     !.done = p.done, !.begun = p.begun]), Tail(ps))

OStepApp(o, ev) ==
    LET a == ev.app
        s == App(o, a)
    IN
    CASE ev.e = "app_start" ->
            [o EXCEPT !.apps = Put(@, a, [s EXCEPT !.started = @ + 1, !.kind = ev.sc.type,
                                                   !.dup = ev.dup]),
                      !.nstarted = @ + 1,
                      !.startOrder = Append(@, a)]
      [] ev.e = "app_call" ->
            IF ev.op = "recv" THEN [o EXCEPT !.apps = Put(@, a, [s EXCEPT !.parked = "recv"])]
            ELSE LET mm == ev.m
                     isStart == mm.type \in {"http.response.start", "websocket.http.response.start"}
                     isBody  == mm.type \in {"http.response.body", "websocket.http.response.body"}
                 IN [o EXCEPT !.apps = Put(@, a,
                        [s EXCEPT !.parked = "send",
                                  !.lastCall = mm,
                                  !.rstart = IF isStart /\ ~s.rstart THEN TRUE ELSE @,
                                  !.status = IF isStart /\ ~s.rstart THEN mm.status ELSE @,
                                  !.hdrs = IF isStart /\ ~s.rstart /\ Has(mm, "headers") THEN mm.headers ELSE @,
                                  !.trailersFlag = IF isStart /\ ~s.rstart /\ Has(mm, "trailers") THEN mm.trailers ELSE @,
                                  !.called = IF isBody /\ s.rstart /\ ~s.final THEN @ + mm.len ELSE @,
                                  !.final = IF isBody /\ s.rstart /\ Has(mm, "more") /\ ~mm.more THEN TRUE
                                            ELSE IF isBody /\ s.rstart /\ ~Has(mm, "more") THEN TRUE ELSE @])]
      [] ev.e = "app_recv" ->
            LET isBody == ev.type = "http.request"
                isDisc == ev.type \in {"http.disconnect", "websocket.disconnect"}
            IN [o EXCEPT !.apps = Put(@, a,
                   [s EXCEPT !.parked = "",
                             !.msgs = @ + 1,
                             !.firstRecv = IF s.msgs = 0 THEN ev.type ELSE @,
                             !.recvd = IF isBody THEN @ + ev.len ELSE @,
                             !.ended = IF isBody /\ ~ev.more THEN @ + 1 ELSE @,
                             !.disc = IF isDisc THEN @ + 1 ELSE @,
                             \* told to go away before it had handed over its last message (a disconnect after
                             \* that is how every exchange ends)
                             !.discEarly = IF isDisc /\ s.disc = 0 THEN ~s.final ELSE @,
                             !.discCode = IF isDisc /\ Has(ev, "code") THEN ev.code ELSE @,
                             !.afterDisc = IF ~isDisc /\ s.disc > 0 THEN @ + 1 ELSE @])]
      [] ev.e = "app_ret" ->
            [o EXCEPT !.apps = Put(@, a,
                   [s EXCEPT !.parked = "",
                             !.sendOk = IF ev.outcome = "ok" THEN @ + 1 ELSE @,
                             !.sendExc = IF ev.outcome # "ok" THEN @ + 1 ELSE @])]
      [] ev.e = "app_done" ->
            [o EXCEPT !.apps = Put(@, a, [s EXCEPT !.done = ev.how, !.parked = ""])]
      [] OTHER -> o

OStepWire(o, ev) ==
    LET a == ev.app
        w == Wire(o, a)
    IN
    CASE ev.kind = "head" ->
            [o EXCEPT !.wire = Put(@, a, [w EXCEPT !.heads = @ + 1, !.status = ev.status,
                                                   !.hdrs = ev.headers, !.framing = ev.framing,
                                                   !.cl = ev.cl, !.close = ev.close])]
      [] ev.kind = "info" -> [o EXCEPT !.wire = Put(@, a, [w EXCEPT !.infos = @ + 1])]
      [] ev.kind = "data" ->
            LET o1 == [o EXCEPT !.wire = Put(@, a, [w EXCEPT !.got = @ + ev.len,
                                                             !.bad = IF ev.match /\ ev.off = w.got THEN @ ELSE @ + 1])]
            IN IF Has(ev, "flow")
               THEN [o1 EXCEPT !.cwin = @ - ev.flow, !.swin = Put(@, a, Get(o.swin, a, o.initwin) - ev.flow)]
               ELSE o1
      [] ev.kind = "frame" ->      \* DATA frame of a tunnelled (websocket) stream
            [o EXCEPT !.cwin = @ - ev.flow, !.swin = Put(@, a, Get(o.swin, a, o.initwin) - ev.flow)]
      [] ev.kind = "end" -> [o EXCEPT !.wire = Put(@, a, [w EXCEPT !.ends = @ + 1, !.endAt = o.now]),
                                      !.endOrder = Append(@, a)]
      [] ev.kind = "trailers" -> [o EXCEPT !.wire = Put(@, a, [w EXCEPT !.trailers = @ + 1])]
      [] ev.kind = "truncated" -> [o EXCEPT !.wire = Put(@, a, [w EXCEPT !.trunc = TRUE])]
      [] ev.kind = "rst" -> [o EXCEPT !.wire = Put(@, a, [w EXCEPT !.rst = @ + 1])]
      [] ev.kind = "goaway" -> [o EXCEPT !.goaway = @ + 1]
      [] ev.kind = "error" -> [o EXCEPT !.wireErrs = @ + 1]
      [] OTHER -> o

OStep(o0, ev) ==
    LET o == [o0 EXCEPT !.n = @ + 1] IN
    CASE ev.e = "open" -> [o EXCEPT !.cfg = ev, !.opened = TRUE]
      [] ev.e = "c_req" ->
            [o EXCEPT !.reqs = Put(@, ev.app, [NoReq EXCEPT !.known = TRUE, !.idx = ev.idx,
                                   !.method = ev.method, !.ver = ev.ver, !.wantclose = ev.wantclose,
                                   !.bad = ev.bad, !.total = ev.total, !.kind = ev.kind,
                                   !.stream = ev.stream, !.c = ev]),
                      !.order = Append(@, ev.app)]
      [] ev.e = "c_send" /\ o.closedAt >= 0 -> o     \* written into a closed connection: it never reached the server
      [] ev.e = "c_send" ->
            LET r2 == ApplyProgress(o.reqs, ev.reqs)
                r3 == [a \in DOMAIN r2 |->
                          IF r2[a].head /\ r2[a].headAt < 0 THEN [r2[a] EXCEPT !.headAt = o.now] ELSE r2[a]]
            IN [o EXCEPT !.reqs = r3, !.lastByteAt = IF ev.n > 0 THEN o.now ELSE @,
                         !.fed = @ + ev.n,
                         !.cerr = IF Has(ev, "cerr") /\ ev.cerr THEN TRUE ELSE @]
      [] ev.e = "c_eof" -> [o EXCEPT !.gone = TRUE]
      [] ev.e = "c_reset" -> [o EXCEPT !.gone = TRUE, !.reset = TRUE]
      [] ev.e = "t_pause" -> [o EXCEPT !.paused = TRUE]
      [] ev.e = "t_resume" -> [o EXCEPT !.paused = FALSE]
      [] ev.e = "t_fail" -> [o EXCEPT !.tfail = TRUE]
      [] ev.e = "shutdown" -> [o EXCEPT !.shut = TRUE, !.shutAt = o.now]
      [] ev.e = "winddown" -> [o EXCEPT !.winddown = TRUE]
      [] ev.e = "final" -> [o EXCEPT !.final = TRUE]
      [] ev.e = "tick" -> [o EXCEPT !.now = Max(@, ev.to)]
      [] ev.e = "c_stall" -> [o EXCEPT !.stalled = Put(@, ev.app, [left |-> ev.left, sw |-> ev.sw, cw |-> ev.cw])]
      [] ev.e = "c_rst" -> [o EXCEPT !.reqs = Put(@, ev.app, [Req(o, ev.app) EXCEPT !.rst = TRUE])]
      [] ev.e = "c_frame" ->
            CASE ev.kind = "wupd" ->
                    IF ev.stream = 0 THEN [o EXCEPT !.cwin = @ + ev.n]
                    ELSE [o EXCEPT !.swin = Put(@, ev.app, Get(o.swin, ev.app, o.initwin) + ev.n)]
              [] ev.kind = "settings" ->
                    LET iw == {v \in 1..Len(ev.values) : ev.values[v][1] = 4} IN
                    IF iw = {} THEN o
                    ELSE LET nv == ev.values[CHOOSE v \in iw : TRUE][2]
                             d == nv - o.initwin IN
                         [o EXCEPT !.initwin = nv,
                                   !.swin = [a \in DOMAIN o.swin |-> o.swin[a] + d]]
              [] ev.kind = "raw" ->
                    [o EXCEPT !.illegal = @ \/ ~ev.legal,
                              !.unusual = IF ev.unusual # "" THEN @ \cup {ev.unusual} ELSE @]
              [] OTHER -> o
      [] ev.e \in {"app_start", "app_call", "app_recv", "app_ret", "app_done"} ->
            \* (lossWrite: an application tried to send after the peer had reset or writing had begun to fail -
            \*  that write fails, which is one of the ways the server learns that the peer is gone)
            LET o1 == OStepApp(o, ev) IN
            IF ev.e = "app_call" /\ ev.op = "send" /\ (o.reset \/ o.tfail) THEN [o1 EXCEPT !.lossWrite = TRUE] ELSE o1
      [] ev.e = "wire" -> OStepWire(o, ev)
      [] ev.e = "t_close" -> [o EXCEPT !.closedAt = IF @ < 0 THEN ev.now ELSE @]
      [] ev.e = "t_eof" -> [o EXCEPT !.eofAt = IF @ < 0 THEN ev.now ELSE @]
      [] ev.e = "handler_done" -> [o EXCEPT !.hdone = TRUE, !.hexc = ev.exc, !.hdoneAt = ev.now]
      [] ev.e = "loop_error" -> [o EXCEPT !.loopErrs = @ + 1]
      [] ev.e = "log" ->
            IF ev.kind = "access" THEN [o EXCEPT !.acc = Put(@, ev.app, Acc(o, ev.app) + 1),
                                                 !.accFirst = IF ev.app \in DOMAIN @ THEN @ ELSE Put(@, ev.app, ev.status)]
            ELSE IF ev.kind = "exception" THEN [o EXCEPT !.excLogs = @ + 1]
            ELSE o
      [] ev.e = "quiescent" -> [o EXCEPT !.now = Max(@, ev.now), !.held = ev.held + ev.tbuf,
                                         !.maxHeld = Max(@, ev.held + ev.tbuf)]
      [] ev.e = "spin" -> [o EXCEPT !.spins = @ + 1]
      [] OTHER -> o

(* ---- vocabulary shared by the monitors --------------------------------- *)
SWin(o, a) == Get(o.swin, a, o.initwin)
ClientPresent(o) == ~o.gone /\ ~o.tfail /\ ~o.reset
ServerOpen(o)    == o.closedAt < 0
Connected(o)     == ClientPresent(o) /\ ServerOpen(o)

SuppressBody(method, status) ==
    method = "HEAD" \/ (status >= 100 /\ status < 200) \/ status \in {204, 304}

RespComplete(o, a) == Wire(o, a).ends > 0

(* HTTP/1: the exchange for request a leaves the connection reusable (C06: "reused only  *)
(* if request and response were both complete and neither side asked to close").        *)
Reusable(o, a) ==
    LET r == Req(o, a) w == Wire(o, a) IN
    /\ r.known /\ r.kind \in {"http", "badhost"} /\ ~r.bad
    /\ r.done
    /\ w.ends > 0 /\ ~w.trunc /\ ~w.close
    /\ ~r.wantclose
    /\ r.ver = "1.1"
    /\ r.idx < o.cfg.kamax

(* between the arrival of a complete request head and the end of its response *)
\* (a stream the client has reset is over, whatever its application still does)
\* (a response without a body - HEAD, 204, 304 - ends on the wire with its head; the exchange is over when the
\*  application has handed over its last message, which the server cannot anticipate)
BusyReq(o, a) == LET r == Req(o, a) s == App(o, a) IN
                 /\ r.known /\ r.head /\ ~r.bad /\ ~r.rst
                 /\ \/ Wire(o, a).ends = 0
                    \/ (s.started > 0 /\ s.rstart /\ ~s.final /\ s.done = "" /\ s.sendExc = 0
                        /\ SuppressBody(r.method, s.status))
Busy(o) == \E a \in DOMAIN o.reqs : BusyReq(o, a)

(* HTTP/1: a pipelined request whose head has arrived but which has not been served *)
ParkedPipeline(o) == \E a \in DOMAIN o.reqs : Req(o, a).begun /\ Req(o, a).idx > 1 /\ App(o, a).started = 0
                                                /\ Req(o, a).ver # "2"

(* an application that will never drain its queue: it ended (or is ending) with request messages unread *)
UnreadLeft(o) == \E a \in DOMAIN o.apps :
                    /\ App(o, a).started > 0 /\ Req(o, a).known /\ Req(o, a).head
                    /\ (App(o, a).recvd < Req(o, a).body \/ (Req(o, a).done /\ App(o, a).ended = 0))

(* HTTP/2 upload flow control.  The client (which respects the server's windows) could not send the
   rest of a body: `stalled` says how much is left and which window is shut.  The server owes credit
   for everything it has consumed - handed to an application that took it, or discarded because the
   stream is over for it.  When the application of the stalled stream has received every byte sent and
   is waiting for more, a shut stream window is withheld credit; a shut connection window is withheld
   credit when that is true of every stream. *)
Consumed(o, a) ==
    LET s == App(o, a) IN
    \/ s.started = 0 \/ s.done # ""
    \/ s.recvd = Req(o, a).body
UploadStarved(o, a) ==
    /\ a \in DOMAIN o.stalled /\ o.stalled[a].left > 0
    /\ Connected(o) /\ ~o.illegal /\ o.goaway = 0
    /\ ~Req(o, a).rst /\ Wire(o, a).rst = 0
    /\ App(o, a).started > 0 /\ App(o, a).done = "" /\ App(o, a).parked = "recv" /\ App(o, a).recvd = Req(o, a).body
    /\ \/ o.stalled[a].sw = 0
       \/ (o.stalled[a].cw = 0 /\ \A b \in DOMAIN o.reqs : Consumed(o, b))
StarvedBy(o, a) == IF o.stalled[a].sw = 0 THEN "stream-window" ELSE "connection-window"

F(clause, ctx) == <<clause, ctx>>
=============================================================================
