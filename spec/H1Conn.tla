------------------------------ MODULE H1Conn ------------------------------
(***************************************************************************)
(* Design specification of one HTTP/1.x connection of hypercorn, shaped    *)
(* like the implementation:                                                *)
(*                                                                         *)
(*   client ──net──► reader task (tcp_server._read_data, H11Protocol.      *)
(*                    _handle_events) ──queue──► application task(s)       *)
(*   application ──app_send──► HTTPStream ──► H11Protocol.stream_send ──►  *)
(*                    transport ──wire──► client                           *)
(*   idle-timer task (tcp_server._idle_timeout)                            *)
(*                                                                         *)
(* One action per critical section (code between two awaits that can       *)
(* suspend).  Work that a task performs across several suspension points   *)
(* (closing the stream = putting http.disconnect on a bounded queue, then  *)
(* recycling or closing) is a per-task list of micro-operations `todo`,    *)
(* executed one micro-operation per step, so every interleaving of reader, *)
(* applications, timer and client is explored.                             *)
(*                                                                         *)
(* Known differences between the pinned code and what the properties ask   *)
(* for are named deviation switches (constant Dev):                        *)
(*   "disc_put_blocks"       http.disconnect is put with a blocking put    *)
(*                           (code) instead of never blocking (intended)   *)
(*   "parked_not_released"   a reader parked on PAUSED / a full queue is   *)
(*                           not released when the connection closes       *)
(*   "idle_keeps_handler"    the task group waits for the idle-timer task  *)
(*   "double_access_log"     a closed stream logs, completion logs again   *)
(* Dev = {} is the intended design; Dev = CodeDev is the code as pinned.   *)
(***************************************************************************)
EXTENDS Naturals, Integers, Sequences, FiniteSets, TLC

CONSTANTS MaxReq,      \* requests in the client's plan
          MaxBody,     \* body tokens per request (0..MaxBody)
          QueueCap,    \* max_app_queue_size
          KAMax,       \* keep_alive_max_requests
          KATimeout,   \* keep_alive_timeout in ticks
          MaxT,        \* clock bound
          Plans,       \* the client plans explored: subset of [Reqs -> [body : 0..MaxBody, close : BOOLEAN]]
          Dev,         \* deviation switches
          Faults       \* subset of {"eof", "reset", "fail", "term"} the environment may inject

Reqs == 1..MaxReq
CodeDev == {"disc_put_blocks", "parked_not_released"}   \* "idle_keeps_handler" and "double_access_log" were repaired

VARIABLES
    plan,      \* [Reqs -> [body : 0..MaxBody, close : BOOLEAN]]
    csent,     \* tokens the client has sent
    ceof, creset, tfail, term,
    net,       \* tokens in flight to the server
    hbuf,      \* h11 receive buffer (tokens)
    heof,      \* EOF handed to h11
    their, our, keepalive,          \* h11 connection state
    rpc,       \* reader pc: "read" "events" "put" "paused" "closing" "exited"
    rput,      \* message the reader is trying to put
    canRead,
    cur,       \* request whose stream object is H11Protocol.stream (0 = None)
    sclosed,   \* [Reqs -> BOOLEAN]  HTTPStream.closed
    asgi,      \* [Reqs -> {"NONE","REQ","RESP","CLOSED"}]  HTTPStream.state (NONE: no stream yet)
    appst,     \* [Reqs -> {"none","run","done"}]
    q,         \* [Reqs -> Seq of messages]
    todo,      \* [Tasks -> Seq of micro-operations]
    kar,       \* keep_alive_requests
    idle,      \* [armed : BOOLEAN, deadline : Nat]
    now,
    tr,        \* transport: "open" "closed"
    wire,      \* [Reqs -> [head : 0..2, status : Nat, chunks : Nat, ends : Nat]]
    errResp,   \* server-generated 400 written (0/1)
    hist,      \* [Reqs -> [disc, acc, afterDisc, startedBeforePrevEnd, startedAfterNonReusable]]
    closedBy,  \* "" | "timer" | "protocol" | "handler"
    hdone

vars == <<plan, csent, ceof, creset, tfail, term, net, hbuf, heof, their, our, keepalive, rpc, rput,
          canRead, cur, sclosed, asgi, appst, q, todo, kar, idle, now, tr, wire, errResp, hist,
          closedBy, hdone>>

RD == <<"reader", 0>>
ID == <<"idle", 0>>
Tasks == {RD, ID} \cup {<<"app", k>> : k \in Reqs}

(* ---- the client's token stream ------------------------------------------ *)
RECURSIVE ReqToks(_, _, _)
ReqToks(r, n, acc) == IF n = 0 THEN acc ELSE ReqToks(r, n - 1, Append(acc, <<r, "B">>))
TokensOf(p, r) == <<<<r, "H">>>> \o ReqToks(r, p[r].body, <<>>) \o <<<<r, "E">>>>
RECURSIVE AllToks(_, _)
AllToks(p, r) == IF r > MaxReq THEN <<>> ELSE TokensOf(p, r) \o AllToks(p, r + 1)
Toks == AllToks(plan, 1)

NoWire == [head |-> 0, status |-> 0, chunks |-> 0, ends |-> 0]
NoHist == [disc |-> 0, acc |-> 0, afterDisc |-> 0, overlap |-> FALSE, afterClose |-> FALSE, stale |-> FALSE]

Init ==
    /\ plan \in Plans
    /\ csent = 0 /\ ceof = FALSE /\ creset = FALSE /\ tfail = "no" /\ term = FALSE
    /\ net = <<>> /\ hbuf = <<>> /\ heof = FALSE
    /\ their = "IDLE" /\ our = "IDLE" /\ keepalive = TRUE
    /\ rpc = "read" /\ rput = "" /\ canRead = TRUE
    /\ cur = 0
    /\ sclosed = [r \in Reqs |-> FALSE]
    /\ asgi = [r \in Reqs |-> "NONE"]
    /\ appst = [r \in Reqs |-> "none"]
    /\ q = [r \in Reqs |-> <<>>]
    /\ todo = [t \in Tasks |-> <<>>]
    /\ kar = 0
    /\ idle = [armed |-> TRUE, deadline |-> KATimeout, dead |-> FALSE]
    /\ now = 0
    /\ tr = "open"
    /\ wire = [r \in Reqs |-> NoWire]
    /\ errResp = 0
    /\ hist = [r \in Reqs |-> NoHist]
    /\ closedBy = ""
    /\ hdone = FALSE

(* ---- helpers -------------------------------------------------------------- *)
(* tfail: "no" | "armed" (the next write will fail) | "dead" (a write has failed) | "gone" (... and the
   runtime has told the reader: asyncio does so at once, trio's stream may never) *)
Writable == tr = "open" /\ tfail = "no" /\ ~creset
FailNote(attempt) == tfail' = IF attempt /\ tfail = "armed" THEN "dead" ELSE tfail
RespDone(r) == wire[r].ends > 0
(* h11: once keep-alive is off, a side that reaches DONE goes to MUST_CLOSE *)
Fix(st, ka) == IF st = "DONE" /\ ~ka THEN "MUST_CLOSE" ELSE st

ReusableAfter(r) ==      \* what C06 calls reusable, on design variables
    /\ RespDone(r) /\ wire[r].status = 200
    /\ ~plan[r].close /\ r < KAMax

(* once the reader has finished nothing keeps the connection alive: the timer is stopped for good *)
ArmIdle == idle' = IF idle.dead THEN idle ELSE [idle EXCEPT !.armed = TRUE, !.deadline = now + KATimeout]
StopIdle == idle' = [idle EXCEPT !.armed = FALSE]

(* A failed write: protocol_send catches it and calls protocol.handle(Closed()) *)
WriteFailTodo(t) == IF cur # 0 THEN <<<<"closeStream", 0>>>> ELSE <<>>

(* ---- environment ---------------------------------------------------------- *)
ClientSend ==
    /\ csent < Len(Toks) /\ ~ceof /\ ~creset
    /\ LET tok == Toks[csent + 1]
           \* a bodyless request's end-of-message travels with its head
           both == tok[2] = "H" /\ plan[tok[1]].body = 0
           n == IF both THEN 2 ELSE 1
       IN /\ net' = IF tr = "open" THEN net \o SubSeq(Toks, csent + 1, csent + n) ELSE net
          /\ csent' = csent + n
    /\ UNCHANGED <<plan, ceof, creset, tfail, term, hbuf, heof, their, our, keepalive, rpc, rput, canRead,
                   cur, sclosed, asgi, appst, q, todo, kar, idle, now, tr, wire, errResp, hist, closedBy, hdone>>

ClientEof ==
    /\ "eof" \in Faults /\ ~ceof /\ ~creset
    /\ ceof' = TRUE
    /\ UNCHANGED <<plan, csent, creset, tfail, term, net, hbuf, heof, their, our, keepalive, rpc, rput, canRead,
                   cur, sclosed, asgi, appst, q, todo, kar, idle, now, tr, wire, errResp, hist, closedBy, hdone>>

ClientReset ==
    /\ "reset" \in Faults /\ ~creset /\ ~ceof
    /\ creset' = TRUE /\ net' = <<>>
    /\ UNCHANGED <<plan, csent, ceof, tfail, term, hbuf, heof, their, our, keepalive, rpc, rput, canRead,
                   cur, sclosed, asgi, appst, q, todo, kar, idle, now, tr, wire, errResp, hist, closedBy, hdone>>

TransportFail ==
    /\ "fail" \in Faults /\ tfail = "no"
    /\ tfail' = "armed"
    /\ UNCHANGED <<plan, csent, ceof, creset, term, net, hbuf, heof, their, our, keepalive, rpc, rput, canRead,
                   cur, sclosed, asgi, appst, q, todo, kar, idle, now, tr, wire, errResp, hist, closedBy, hdone>>

TransportDeath ==
    /\ tfail = "dead"
    /\ tfail' = "gone"
    /\ UNCHANGED <<plan, csent, ceof, creset, term, net, hbuf, heof, their, our, keepalive, rpc, rput, canRead,
                   cur, sclosed, asgi, appst, q, todo, kar, idle, now, tr, wire, errResp, hist, closedBy, hdone>>

Terminate ==
    /\ "term" \in Faults /\ ~term
    /\ term' = TRUE
    /\ UNCHANGED <<plan, csent, ceof, creset, tfail, net, hbuf, heof, their, our, keepalive, rpc, rput, canRead,
                   cur, sclosed, asgi, appst, q, todo, kar, idle, now, tr, wire, errResp, hist, closedBy, hdone>>

TimerDue == idle.armed /\ (now >= idle.deadline \/ term) /\ todo[ID] = <<>> /\ ~hdone

Tick ==
    /\ now < MaxT /\ ~TimerDue
    /\ now' = now + 1
    /\ UNCHANGED <<plan, csent, ceof, creset, tfail, term, net, hbuf, heof, their, our, keepalive, rpc, rput,
                   canRead, cur, sclosed, asgi, appst, q, todo, kar, idle, tr, wire, errResp, hist, closedBy, hdone>>

(* ---- reader task ------------------------------------------------------------ *)
(* tcp_server._read_data: one read() returns everything that is available *)
ReadData ==
    /\ rpc = "read" /\ todo[RD] = <<>> /\ ~hdone
    /\ \/ /\ net # <<>> /\ tr = "open" /\ ~creset /\ tfail # "gone"
          /\ hbuf' = hbuf \o net /\ net' = <<>> /\ rpc' = "events" /\ UNCHANGED heof
       \/ /\ net = <<>> /\ ceof /\ ~heof /\ tr = "open" /\ ~creset /\ tfail # "gone"
          /\ heof' = TRUE /\ rpc' = "events" /\ UNCHANGED <<hbuf, net>>
       \* asyncio: an EOF that arrived while the reader was busy is seen by `reader.at_eof()` at the loop
       \* head and never handed to h11 (trio always hands it over); both are allowed here
       \/ /\ net = <<>> /\ ceof /\ ~heof /\ tr = "open" /\ ~creset /\ tfail # "gone"
          /\ rpc' = "closing" /\ UNCHANGED <<hbuf, net, heof>>
       \/ /\ (tr = "closed" \/ creset \/ tfail = "gone" \/ (heof /\ net = <<>>))
          /\ rpc' = "closing" /\ UNCHANGED <<hbuf, net, heof>>
    /\ UNCHANGED <<plan, csent, ceof, creset, tfail, term, their, our, keepalive, rput, canRead,
                   cur, sclosed, asgi, appst, q, todo, kar, idle, now, tr, wire, errResp, hist, closedBy, hdone>>

(* H11Protocol._handle_events: one h11 event per step *)
PutOrPark(r, msg) ==
    \* HTTPStream.handle(Body/EndBody): dropped if the stream is closed, else app_put
    IF sclosed[r] THEN /\ UNCHANGED <<q, rpc, rput>>
    ELSE IF Len(q[r]) < QueueCap
         THEN /\ q' = [q EXCEPT ![r] = Append(@, msg)] /\ UNCHANGED <<rpc, rput>>
         ELSE /\ rpc' = "put" /\ rput' = msg /\ UNCHANGED q

(* the hinted 4xx is written only while our side has not started a response *)
ErrorPath ==
    /\ their' = "ERROR"
    /\ IF our \in {"IDLE", "SEND_RESPONSE"}
       THEN \* h11 accepts the error response (our side is done with it) whether or not the write succeeds;
            \* a failed write makes protocol_send call protocol.handle(Closed()) first
            /\ our' = "MUST_CLOSE" /\ keepalive' = FALSE
            /\ errResp' = IF Writable THEN 1 ELSE errResp
            /\ FailNote(TRUE)
            /\ todo' = [todo EXCEPT ![RD] = (IF Writable THEN <<>> ELSE WriteFailTodo(RD)) \o <<<<"serverClose", 0>>>>]
       ELSE /\ UNCHANGED <<errResp, our, keepalive, tfail>>
            /\ todo' = [todo EXCEPT ![RD] = <<<<"serverClose", 0>>>>]
    /\ rpc' = "read"

NextEvent ==
    /\ rpc = "events" /\ todo[RD] = <<>> /\ ~hdone
    /\ \/ \* Request
          /\ hbuf # <<>> /\ Head(hbuf)[2] = "H" /\ their = "IDLE"
          /\ LET r == Head(hbuf)[1] IN
             /\ hbuf' = Tail(hbuf)
             /\ their' = "SEND_BODY"
             /\ keepalive' = (keepalive /\ ~plan[r].close)
             /\ cur' = r /\ asgi' = [asgi EXCEPT ![r] = "REQ"] /\ appst' = [appst EXCEPT ![r] = "run"]
             /\ kar' = kar + 1
             /\ StopIdle
             \* (judged only while the transport is open: a request that races with the server's own
             \*  close is lost to the client whatever the server does with it)
             /\ hist' = [hist EXCEPT ![r].overlap = (r > 1 /\ ~RespDone(r - 1) /\ tr = "open" /\ tfail = "no" /\ ~creset),
                                     ![r].afterClose = (r > 1 /\ ~ReusableAfter(r - 1) /\ tr = "open" /\ tfail = "no" /\ ~creset)]
             /\ UNCHANGED <<tfail, our, rpc, rput, q, todo, errResp, canRead, sclosed>>
       \/ \* Data
          /\ hbuf # <<>> /\ Head(hbuf)[2] = "B" /\ their = "SEND_BODY"
          /\ hbuf' = Tail(hbuf)
          /\ IF cur = 0 THEN rpc' = "read" /\ UNCHANGED <<q, rput>>     \* `elif self.stream is None: break`
             ELSE PutOrPark(cur, "body")
          /\ UNCHANGED <<tfail, their, our, keepalive, cur, asgi, appst, kar, idle, hist, todo, errResp, canRead, sclosed>>
       \/ \* EndOfMessage
          /\ hbuf # <<>> /\ Head(hbuf)[2] = "E" /\ their = "SEND_BODY"
          /\ hbuf' = Tail(hbuf)
          /\ their' = Fix("DONE", keepalive)
          /\ IF cur = 0 THEN rpc' = "read" /\ UNCHANGED <<q, rput>>
             ELSE PutOrPark(cur, "end")
          /\ UNCHANGED <<tfail, our, keepalive, cur, asgi, appst, kar, idle, hist, todo, errResp, canRead, sclosed>>
       \/ \* PAUSED: a pipelined request is waiting behind the current one
          /\ hbuf # <<>> /\ their = "DONE"
          /\ canRead' = FALSE /\ rpc' = "paused"
          /\ UNCHANGED <<tfail, hbuf, their, our, keepalive, cur, asgi, appst, kar, idle, hist, q, rput, todo, errResp, sclosed>>
       \/ \* data after the peer said it would close, or after an error: protocol error
          /\ hbuf # <<>> /\ their \in {"MUST_CLOSE", "CLOSED"}
          /\ ErrorPath
          /\ UNCHANGED <<hbuf, cur, asgi, appst, kar, idle, hist, q, rput, canRead, sclosed>>
       \/ \* NEED_DATA
          /\ hbuf = <<>> /\ ~heof
          /\ rpc' = "read"
          /\ UNCHANGED <<tfail, hbuf, their, our, keepalive, cur, asgi, appst, kar, idle, hist, q, rput, todo, errResp, canRead, sclosed>>
       \/ \* EOF from the peer between messages: ConnectionClosed
          /\ hbuf = <<>> /\ heof /\ their \in {"IDLE", "DONE", "MUST_CLOSE", "CLOSED", "ERROR"}
          /\ rpc' = "read"
          /\ their' = IF their = "ERROR" THEN "ERROR" ELSE "CLOSED"
          /\ UNCHANGED <<tfail, hbuf, our, keepalive, cur, asgi, appst, kar, idle, hist, q, rput, todo, errResp, canRead, sclosed>>
       \/ \* EOF in the middle of a message: RemoteProtocolError
          /\ hbuf = <<>> /\ heof /\ their = "SEND_BODY"
          /\ ErrorPath
          /\ UNCHANGED <<hbuf, cur, asgi, appst, kar, idle, hist, q, rput, canRead, sclosed>>
    /\ UNCHANGED <<plan, csent, ceof, creset, term, net, heof, now, tr, wire, closedBy, hdone>>

ReaderPut ==
    /\ rpc = "put" /\ ~hdone
    /\ LET r == cur IN
       /\ r # 0 /\ Len(q[r]) < QueueCap
       /\ q' = [q EXCEPT ![r] = Append(@, rput)]
    /\ rpc' = "events" /\ rput' = ""
    /\ UNCHANGED <<plan, csent, ceof, creset, tfail, term, net, hbuf, heof, their, our, keepalive, canRead,
                   cur, sclosed, asgi, appst, todo, kar, idle, now, tr, wire, errResp, hist, closedBy, hdone>>

(* intended design: a parked reader is released when its stream is closed *)
ReaderReleased ==
    /\ "parked_not_released" \notin Dev
    /\ rpc \in {"put", "paused"} /\ ~hdone
    /\ (tr = "closed" \/ (rpc = "put" /\ (IF cur = 0 THEN TRUE ELSE sclosed[cur])))
    /\ rpc' = "read" /\ rput' = ""
    /\ UNCHANGED <<plan, csent, ceof, creset, tfail, term, net, hbuf, heof, their, our, keepalive, canRead,
                   cur, sclosed, asgi, appst, q, todo, kar, idle, now, tr, wire, errResp, hist, closedBy, hdone>>

ReaderResume ==
    /\ rpc = "paused" /\ canRead /\ ~hdone
    /\ rpc' = "events"
    /\ UNCHANGED <<plan, csent, ceof, creset, tfail, term, net, hbuf, heof, their, our, keepalive, rput, canRead,
                   cur, sclosed, asgi, appst, q, todo, kar, idle, now, tr, wire, errResp, hist, closedBy, hdone>>

(* end of _read_data: protocol.handle(Closed()) *)
ReaderClosing ==
    /\ rpc = "closing" /\ todo[RD] = <<>> /\ ~hdone
    \* ("idle_keeps_handler": the code before the repair of F07d left the idle task running)
    /\ todo' = [todo EXCEPT ![RD] = (IF cur # 0 THEN <<<<"closeStream", 0>>>> ELSE <<>>)
                                     \o (IF "idle_keeps_handler" \in Dev THEN <<>> ELSE <<<<"stopIdle", 0>>>>)]
    /\ rpc' = "exited"
    /\ UNCHANGED <<plan, csent, ceof, creset, tfail, term, net, hbuf, heof, their, our, keepalive, rput, canRead,
                   cur, sclosed, asgi, appst, q, kar, idle, now, tr, wire, errResp, hist, closedBy, hdone>>

(* ---- micro-operations shared by the tasks ------------------------------------ *)
(*  closeStream   H11Protocol._close_stream: HTTPStream.handle(StreamClosed) [access record,     *)
(*                put http.disconnect], then stream := None                                      *)
(*  recycle       _maybe_recycle after _close_stream                                             *)
(*  serverClose   TCPServer._close(): transport closed, idle timer stopped                       *)
(*  stopIdle      the reader has finished: the idle timer is stopped and never restarted          *)
MicroStep(t) ==
    /\ todo[t] # <<>> /\ ~hdone
    /\ LET op == Head(todo[t]) rest == Tail(todo[t]) IN
       \/ /\ op[1] = "closeStream"
          /\ IF cur = 0 THEN
                /\ todo' = [todo EXCEPT ![t] = rest]
                /\ UNCHANGED <<sclosed, hist, q, cur>>
             ELSE IF sclosed[cur] THEN     \* second Closed: HTTPStream.closed guard, then stream := None
                /\ todo' = [todo EXCEPT ![t] = rest] /\ cur' = 0
                /\ UNCHANGED <<sclosed, hist, q>>
             ELSE
                /\ sclosed' = [sclosed EXCEPT ![cur] = TRUE]
                /\ hist' = [hist EXCEPT ![cur].acc = IF asgi[cur] # "CLOSED" THEN @ + 1 ELSE @]
                /\ todo' = [todo EXCEPT ![t] = <<<<"putDisc", cur>>, <<"clearStream", 0>>>> \o rest]
                /\ UNCHANGED <<q, cur>>
          /\ UNCHANGED <<their, our, keepalive, canRead, idle, tr, closedBy>>
       \/ /\ op[1] = "putDisc"         \* await self.app_put({"type": "http.disconnect"}) on the stream's own queue
          /\ ("disc_put_blocks" \in Dev => Len(q[op[2]]) < QueueCap)
          /\ q' = [q EXCEPT ![op[2]] = Append(@, "disc")]
          /\ todo' = [todo EXCEPT ![t] = rest]
          /\ UNCHANGED <<cur, sclosed, hist, their, our, keepalive, canRead, idle, tr, closedBy>>
       \/ /\ op[1] = "clearStream"     \* self.stream = None  (whatever it refers to by now)
          /\ cur' = 0
          /\ todo' = [todo EXCEPT ![t] = rest]
          /\ UNCHANGED <<q, sclosed, hist, their, our, keepalive, canRead, idle, tr, closedBy>>
       \/ /\ op[1] = "stopIdle"        \* after _read_data: self._reading = False; idle_task.stop()
          /\ idle' = [idle EXCEPT !.armed = FALSE, !.dead = TRUE]
          /\ todo' = [todo EXCEPT ![t] = rest]
          /\ UNCHANGED <<q, cur, sclosed, hist, their, our, keepalive, canRead, tr, closedBy>>
       \/ /\ op[1] = "recycle"
          /\ IF ~term /\ our = "DONE" /\ their = "DONE"
             THEN /\ our' = "IDLE" /\ their' = "IDLE"
                  /\ canRead' = TRUE
                  /\ ArmIdle
                  /\ todo' = [todo EXCEPT ![t] = rest]
                  /\ UNCHANGED <<tr, closedBy>>
             ELSE /\ canRead' = TRUE
                  /\ todo' = [todo EXCEPT ![t] = <<<<"serverClose", 0>>>> \o rest]
                  /\ UNCHANGED <<our, their, idle, tr, closedBy>>
          /\ UNCHANGED <<q, cur, sclosed, hist, keepalive>>
       \/ /\ op[1] = "serverClose"
          /\ tr' = "closed"
          /\ closedBy' = IF closedBy = "" THEN (IF t = ID THEN "timer" ELSE "protocol") ELSE closedBy
          /\ idle' = IF t = ID THEN idle ELSE [idle EXCEPT !.armed = FALSE]
          /\ todo' = [todo EXCEPT ![t] = rest]
          /\ UNCHANGED <<q, cur, sclosed, hist, their, our, keepalive, canRead>>
    /\ UNCHANGED <<plan, csent, ceof, creset, tfail, term, net, hbuf, heof, rpc, rput, asgi, appst, kar, now,
                   wire, errResp, hdone>>

(* ---- application tasks --------------------------------------------------------- *)
AppTask(k) == <<"app", k>>
Running(k) == appst[k] = "run" /\ todo[AppTask(k)] = <<>> /\ ~hdone

AppRecv(k) ==
    /\ Running(k) /\ q[k] # <<>>
    /\ LET msg == Head(q[k]) IN
       /\ q' = [q EXCEPT ![k] = Tail(@)]
       /\ hist' = [hist EXCEPT ![k].disc = IF msg = "disc" THEN @ + 1 ELSE @,
                               ![k].afterDisc = IF msg # "disc" /\ hist[k].disc > 0 THEN @ + 1 ELSE @]
    /\ UNCHANGED <<plan, csent, ceof, creset, tfail, term, net, hbuf, heof, their, our, keepalive, rpc, rput,
                   canRead, cur, sclosed, asgi, appst, todo, kar, idle, now, tr, wire, errResp, closedBy, hdone>>

(* HTTPStream.app_send(http.response.start) -> H11Protocol.stream_send(Response) *)
AppSendStart(k) ==
    /\ Running(k) /\ asgi[k] = "REQ"
    /\ asgi' = [asgi EXCEPT ![k] = "RESP"]
    \* (stream_send does not ask which stream is sending: only h11's own state gates the write, so a
    \*  stream that was closed under its application - peer EOF - still answers on a half-open connection)
    /\ IF our \in {"IDLE", "SEND_RESPONSE"}
       THEN /\ our' = "SEND_BODY"
            /\ hist' = [hist EXCEPT ![k].stale = @ \/ cur \notin {0, k}]
            /\ keepalive' = (keepalive /\ kar < KAMax)      \* connection: close at the request maximum
            \* h11 re-evaluates both sides whenever keep-alive is switched off: a side that is DONE must close
            /\ their' = Fix(their, keepalive /\ kar < KAMax)
            /\ FailNote(TRUE)
            /\ IF Writable
               THEN wire' = [wire EXCEPT ![k].head = @ + 1, ![k].status = 200] /\ UNCHANGED todo
               ELSE todo' = [todo EXCEPT ![AppTask(k)] = WriteFailTodo(AppTask(k))] /\ UNCHANGED wire
       ELSE UNCHANGED <<our, keepalive, their, wire, todo, tfail, hist>>        \* h11 refuses: nothing written
    /\ UNCHANGED <<plan, csent, ceof, creset, term, net, hbuf, heof, rpc, rput, canRead, cur, sclosed,
                   appst, q, kar, idle, now, tr, errResp, closedBy, hdone>>

(* http.response.body: more_body = TRUE writes a chunk; FALSE also runs _send_closed *)
AppSendBody(k, final) ==
    /\ Running(k) /\ asgi[k] = "RESP"
    /\ (final \/ wire[k].chunks < 2)       \* (bounds the model only: a response has at most two chunks)
    /\ FailNote(our = "SEND_BODY")
    /\ LET live == our = "SEND_BODY"
           stl == live /\ cur \notin {0, k} IN
       IF ~final
       THEN /\ IF live /\ Writable THEN wire' = [wire EXCEPT ![k].chunks = @ + 1] /\ UNCHANGED todo
               ELSE IF live THEN todo' = [todo EXCEPT ![AppTask(k)] = WriteFailTodo(AppTask(k))] /\ UNCHANGED wire
               ELSE UNCHANGED <<wire, todo>>
            /\ hist' = [hist EXCEPT ![k].stale = @ \/ stl]
            /\ UNCHANGED <<asgi, our>>
       ELSE /\ asgi' = [asgi EXCEPT ![k] = "CLOSED"]
            /\ IF live THEN our' = Fix("DONE", keepalive) ELSE UNCHANGED our
            /\ IF live /\ Writable THEN wire' = [wire EXCEPT ![k].ends = @ + 1] ELSE UNCHANGED wire
            \* access record of the completed response
            /\ hist' = [hist EXCEPT ![k].acc = IF sclosed[k] /\ "double_access_log" \notin Dev THEN @ ELSE @ + 1,
                                    ![k].stale = @ \/ stl]
            \* send(StreamClosed) -> _maybe_recycle
            /\ todo' = [todo EXCEPT ![AppTask(k)] = <<<<"closeStream", 0>>, <<"recycle", 0>>>>]
    /\ UNCHANGED <<plan, csent, ceof, creset, term, net, hbuf, heof, their, keepalive, rpc, rput, canRead,
                   cur, sclosed, appst, q, kar, idle, now, tr, errResp, closedBy, hdone>>

(* the application coroutine ends (return or raise): task_group._handle -> app_send(None) *)
AppExit(k) ==
    /\ Running(k)
    /\ appst' = [appst EXCEPT ![k] = "done"]
    /\ FailNote(~sclosed[k] /\ asgi[k] = "REQ" /\ our \in {"IDLE", "SEND_RESPONSE"})
    /\ IF sclosed[k] THEN UNCHANGED <<asgi, our, keepalive, their, wire, hist, todo>>
       ELSE /\ IF asgi[k] = "REQ"
               THEN \* _send_error_response(500): content-length 0, connection: close
                    /\ asgi' = [asgi EXCEPT ![k] = "CLOSED"]
                    /\ hist' = [hist EXCEPT ![k].acc = @ + 1,
                                            ![k].stale = @ \/ (our \in {"IDLE", "SEND_RESPONSE"} /\ cur \notin {0, k})]
                    /\ IF our \in {"IDLE", "SEND_RESPONSE"}
                       THEN /\ our' = "MUST_CLOSE" /\ keepalive' = FALSE /\ their' = Fix(their, FALSE)
                            /\ IF Writable THEN wire' = [wire EXCEPT ![k].head = @ + 1, ![k].status = 500, ![k].ends = @ + 1]
                               ELSE UNCHANGED wire
                       ELSE UNCHANGED <<our, keepalive, their, wire>>
               ELSE UNCHANGED <<asgi, our, keepalive, their, wire, hist>>
            /\ todo' = [todo EXCEPT ![AppTask(k)] = <<<<"closeStream", 0>>, <<"recycle", 0>>>>]
    /\ UNCHANGED <<plan, csent, ceof, creset, term, net, hbuf, heof, rpc, rput, canRead, cur, sclosed,
                   q, kar, idle, now, tr, errResp, closedBy, hdone>>

(* ---- idle-timer task --------------------------------------------------------------- *)
(* _idle_timeout: timeout or termination, then the shielded _initiate_server_close *)
IdleFire ==
    /\ TimerDue
    /\ todo' = [todo EXCEPT ![ID] = (IF cur # 0 THEN <<<<"closeStream", 0>>>> ELSE <<>>) \o <<<<"serverClose", 0>>, <<"idleEnd", 0>>>>]
    /\ UNCHANGED <<plan, csent, ceof, creset, tfail, term, net, hbuf, heof, their, our, keepalive, rpc, rput, canRead,
                   cur, sclosed, asgi, appst, q, kar, idle, now, tr, wire, errResp, hist, closedBy, hdone>>

IdleEnd ==
    /\ todo[ID] # <<>> /\ Head(todo[ID])[1] = "idleEnd" /\ ~hdone
    /\ todo' = [todo EXCEPT ![ID] = Tail(@)]
    /\ idle' = [idle EXCEPT !.armed = FALSE]
    /\ UNCHANGED <<plan, csent, ceof, creset, tfail, term, net, hbuf, heof, their, our, keepalive, rpc, rput, canRead,
                   cur, sclosed, asgi, appst, q, kar, now, tr, wire, errResp, hist, closedBy, hdone>>

(* ---- handler exit: the connection task group has no running task left ------------------ *)
AllAppsDone == \A k \in Reqs : appst[k] \in {"none", "done"} /\ todo[AppTask(k)] = <<>>
HandlerExit ==
    /\ ~hdone /\ rpc = "exited" /\ todo[RD] = <<>> /\ AllAppsDone /\ todo[ID] = <<>>
    /\ ("idle_keeps_handler" \in Dev => ~idle.armed)
    /\ hdone' = TRUE
    /\ tr' = "closed"
    /\ closedBy' = IF closedBy = "" THEN "handler" ELSE closedBy
    /\ idle' = [idle EXCEPT !.armed = FALSE]
    /\ UNCHANGED <<plan, csent, ceof, creset, tfail, term, net, hbuf, heof, their, our, keepalive, rpc, rput, canRead,
                   cur, sclosed, asgi, appst, q, todo, kar, now, wire, errResp, hist>>

ServerNext ==
    \/ ReadData \/ NextEvent \/ ReaderPut \/ ReaderReleased \/ ReaderResume \/ ReaderClosing
    \/ \E t \in Tasks : MicroStep(t)
    \/ IdleFire \/ IdleEnd \/ HandlerExit

AppNext == \E k \in Reqs : AppRecv(k) \/ AppSendStart(k) \/ AppSendBody(k, FALSE) \/ AppSendBody(k, TRUE) \/ AppExit(k)

EnvNext == ClientSend \/ ClientEof \/ ClientReset \/ TransportFail \/ TransportDeath \/ Terminate \/ Tick

Next == ServerNext \/ AppNext \/ EnvNext

Spec == Init /\ [][Next]_vars /\ WF_vars(ServerNext)

(* ===================== properties (design level) ===================== *)
TypeOK ==
    /\ their \in {"IDLE", "SEND_BODY", "DONE", "MUST_CLOSE", "CLOSED", "ERROR"}
    /\ our \in {"IDLE", "SEND_RESPONSE", "SEND_BODY", "DONE", "MUST_CLOSE", "CLOSED", "ERROR"}
    /\ rpc \in {"read", "events", "put", "paused", "closing", "exited"}
    /\ cur \in 0..MaxReq
    /\ \A r \in Reqs : Len(q[r]) <= QueueCap + 1

(* C06 *)
NoOverlap          == \A r \in Reqs : ~hist[r].overlap
NoServeAfterClose  == \A r \in Reqs : ~hist[r].afterClose
OneResponseHead    == \A r \in Reqs : wire[r].head <= 1 /\ wire[r].ends <= 1
(* C03 *)
AtMostOneDisconnect == \A r \in Reqs : hist[r].disc <= 1 /\ hist[r].afterDisc = 0
AtMostOneAccess     == \A r \in Reqs : hist[r].acc <= 1
(* no application ever writes into the response of another request *)
NoStaleWrite == \A r \in Reqs : ~hist[r].stale
(* the queue never holds two disconnects either *)
QueueOneDisc == \A r \in Reqs : Cardinality({i \in 1..Len(q[r]) : q[r][i] = "disc"}) + hist[r].disc <= 1
(* C07: the timer never closes a connection that has a request in progress *)
TimerOnlyWhenIdle == idle.armed => cur = 0
(* C05: an application that ended without completing its response never yields a complete one *)
NoFalseComplete == \A r \in Reqs : (appst[r] = "done" /\ asgi[r] = "RESP") => wire[r].ends = 0

(* Quiescence and release (C07 / C03 as safety at quiescent points) *)
Quiescent == ~ENABLED ServerNext
PeerGone == ceof \/ creset \/ tr = "closed" \/ tfail = "gone"
(* Once the peer is gone or the server closed and all applications returned, the handler is done *)
Released == (Quiescent /\ PeerGone /\ csent = Len(Toks) /\ (\A k \in Reqs : appst[k] # "run") /\ net = <<>>)
            => hdone
(* every started application that keeps receiving is eventually told about the disconnect *)
DisconnectDelivered ==
    (Quiescent /\ hdone) => \A r \in Reqs : appst[r] = "none" \/ hist[r].disc = 1
                                           \/ (\E i \in 1..Len(q[r]) : q[r][i] = "disc")
(* liveness: once the peer is gone and applications are done the handler eventually exits *)
HandlerEventuallyExits == [](( (ceof \/ creset) /\ (\A k \in Reqs : appst[k] # "run")) => <>(hdone \/ \E k \in Reqs : appst[k] = "run"))

(* state constraint for the bounded instances *)
Bound == now <= MaxT
=============================================================================
