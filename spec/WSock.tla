------------------------------- MODULE WSock -------------------------------
(***************************************************************************)
(* Design specification of one WebSocket stream of hypercorn               *)
(* (protocol/ws_stream.py: WSStream, WebsocketBuffer, Handshake) on either  *)
(* carrier, after a valid opening handshake reached the application.        *)
(*                                                                         *)
(*   client frames ─► wsproto (state: OPEN / REMOTE_CLOSING / LOCAL_CLOSING *)
(*                     / CLOSED) ─► _handle_events ─► WebsocketBuffer ─►    *)
(*                     app queue ─► application                             *)
(*   application ─► app_send (ASGI state: HANDSHAKE / CONNECTED / RESPONSE  *)
(*                     / CLOSED / HTTPCLOSED) ─► wsproto ─► carrier         *)
(*                                                                         *)
(* Messages are abstract: kind (text / bytes), size in units, a serial      *)
(* number; a message may arrive in up to MaxFrag fragments.                 *)
(*                                                                         *)
(* Deviation switches (constant Dev), all repaired in /repo by fix commits: *)
(*  "client_close_code_lost"     disconnect code derived from the ASGI      *)
(*                               state only (F11)                           *)
(*  "messages_after_close_frame" messages keep being assembled after the    *)
(*                               server sent a close frame (F04d)           *)
(*  "connected_before_response"  state CONNECTED set before the handshake   *)
(*                               response went out (F12c)                   *)
(*  "closed_after_refusal"       a client that writes frames before the     *)
(*                               application accepted is refused with 400;  *)
(*                               the stream was marked closed only after    *)
(*                               the 400 had been written, and an accept    *)
(*                               arriving in between raised (F04f)          *)
(***************************************************************************)
EXTENDS Naturals, Integers, Sequences, FiniteSets, TLC

CONSTANTS MaxMsgs,      \* messages the client may send
          MaxSize,      \* largest message size (units)
          Limit,        \* websocket_max_message_size (units)
          Dev

Kinds == {"text", "bytes"}

VARIABLES
    asgi,        \* "HANDSHAKE" "CONNECTED" "RESPONSE" "CLOSED" "HTTPCLOSED"
    accepted,    \* Handshake.accepted
    ws,          \* wsproto connection state: "NONE" "OPEN" "REMOTE_CLOSING" "LOCAL_CLOSING" "CLOSED"
    buf,         \* [kind, len]   WebsocketBuffer (kind "" = empty)
    cmsg,        \* the message the client is in the middle of sending: [n, kind, size, sent] or n = 0
    nsent,       \* messages the client has completed
    sizes,       \* [1..MaxMsgs -> size] of completed client messages
    q,           \* application queue (sequence of <<"receive", n>> / <<"disconnect", code>> / <<"connect">>)
    delivered,   \* serial numbers delivered to the application (in order)
    sclosed,     \* WSStream.closed
    clientCode,  \* close code the client sent (0 = none yet)
    sentClose,   \* close code the server put on the wire (0 = none)
    appClosed,   \* the application sent websocket.close (with which code, 0 = no)
    resp101,     \* handshake response on the wire
    acceptFails, \* the carrier refuses the handshake response (e.g. h11 rejects a header)
    lost,        \* connection lost
    strayFrames, \* websocket frames written although no 101 went out
    refused,     \* the 400 that answers frames written before the application accepted is on the wire
    crashed      \* an exception escaped _handle_events

vars == <<asgi, accepted, ws, buf, cmsg, nsent, sizes, q, delivered, sclosed, clientCode, sentClose, appClosed,
          resp101, acceptFails, lost, strayFrames, refused, crashed>>

Init ==
    /\ asgi = "HANDSHAKE" /\ accepted = FALSE /\ ws = "NONE"
    /\ buf = [kind |-> "", len |-> 0]
    /\ cmsg = [n |-> 0, kind |-> "", size |-> 0, sent |-> 0]
    /\ nsent = 0 /\ sizes = <<>>
    /\ q = <<<<"connect", 0>>>>
    /\ delivered = <<>>
    /\ sclosed = FALSE /\ clientCode = 0 /\ sentClose = 0 /\ appClosed = 0
    /\ resp101 = FALSE /\ acceptFails \in BOOLEAN /\ lost = FALSE /\ strayFrames = 0 /\ refused = FALSE
    /\ crashed = FALSE

Alive == ~sclosed /\ ~lost /\ ~crashed

(* ---- application ------------------------------------------------------------------------ *)
AppAccept ==
    /\ Alive /\ asgi = "HANDSHAKE"
    /\ accepted' = TRUE
    /\ IF refused
       THEN \* (deviation only: otherwise the stream is closed by now) a 101 behind the 400: the carrier raises,
            \* into the application and out of the connection handler
            /\ crashed' = TRUE /\ UNCHANGED <<ws, asgi, resp101>>
       ELSE /\ ws' = "OPEN" /\ UNCHANGED crashed
            /\ IF acceptFails
               THEN \* the send of the handshake response raises into the application
                    /\ asgi' = IF "connected_before_response" \in Dev THEN "CONNECTED" ELSE "HANDSHAKE"
                    /\ UNCHANGED resp101
               ELSE asgi' = "CONNECTED" /\ resp101' = TRUE
    /\ UNCHANGED <<buf, cmsg, nsent, sizes, q, delivered, sclosed, clientCode, sentClose, appClosed, acceptFails, lost,
                   strayFrames, refused>>

AppSendMsg ==
    /\ Alive /\ asgi = "CONNECTED"
    /\ strayFrames' = IF resp101 THEN strayFrames ELSE strayFrames + 1
    /\ UNCHANGED <<asgi, accepted, ws, buf, cmsg, nsent, sizes, q, delivered, sclosed, clientCode, sentClose, appClosed,
                   resp101, acceptFails, lost, refused, crashed>>

AppClose(code) ==
    /\ Alive /\ asgi = "CONNECTED" /\ appClosed = 0
    /\ asgi' = "CLOSED" /\ appClosed' = code
    /\ IF ws = "OPEN" THEN ws' = "LOCAL_CLOSING" /\ sentClose' = code
       ELSE IF ws = "REMOTE_CLOSING" THEN ws' = "CLOSED" /\ UNCHANGED sentClose
       ELSE UNCHANGED <<ws, sentClose>>
    /\ UNCHANGED <<accepted, buf, cmsg, nsent, sizes, q, delivered, sclosed, clientCode, resp101, acceptFails, lost,
                   strayFrames, refused, crashed>>

AppRecv ==
    /\ q # <<>>
    /\ q' = Tail(q)
    /\ delivered' = IF Head(q)[1] = "receive" THEN Append(delivered, Head(q)[2]) ELSE delivered
    /\ UNCHANGED <<asgi, accepted, ws, buf, cmsg, nsent, sizes, sclosed, clientCode, sentClose, appClosed, resp101,
                   acceptFails, lost, strayFrames, refused, crashed>>

(* ---- client ------------------------------------------------------------------------------ *)
(* one fragment of a message: the first fragment chooses kind and total size *)
ClientFragment ==
    /\ ~lost /\ accepted /\ resp101 /\ clientCode = 0 /\ ~crashed
    /\ \/ /\ (cmsg.n = 0 \/ cmsg.sent = cmsg.size) /\ nsent < MaxMsgs
          /\ \E k \in Kinds : \E sz \in 0..MaxSize : \E part \in 0..sz :
                cmsg' = [n |-> nsent + 1, kind |-> k, size |-> sz, sent |-> part]
       \/ /\ cmsg.n # 0 /\ cmsg.sent < cmsg.size
          /\ \E part \in 1..(cmsg.size - cmsg.sent) : cmsg' = [cmsg EXCEPT !.sent = @ + part]
    \* server side: wsproto yields a Message event for the fragment -> _handle_events
    /\ LET part == cmsg'.sent - (IF cmsg.n = 0 \/ cmsg.sent = cmsg.size THEN 0 ELSE cmsg.sent)
           fin == cmsg'.sent = cmsg'.size
           discard == ws # "OPEN" /\ "messages_after_close_frame" \notin Dev
       IN
       IF sclosed \/ ws \in {"NONE", "CLOSED"} \/ discard
       THEN UNCHANGED <<buf, q, ws, sentClose, crashed>>
       ELSE IF buf.kind # "" /\ buf.kind # cmsg'.kind
            THEN \* StringIO.write(bytes) / BytesIO.write(str): TypeError out of the handler
                 crashed' = TRUE /\ UNCHANGED <<buf, q, ws, sentClose>>
            ELSE LET len2 == buf.len + part IN
                 IF len2 > Limit
                 THEN \* FrameTooLargeError: close 1009, the buffer keeps its oversize content
                      /\ buf' = [kind |-> cmsg'.kind, len |-> len2]
                      /\ IF ws = "OPEN" THEN ws' = "LOCAL_CLOSING" /\ sentClose' = 1009
                         ELSE UNCHANGED <<ws, sentClose>>
                      /\ UNCHANGED <<q, crashed>>
                 ELSE /\ IF fin
                         THEN q' = Append(q, <<"receive", cmsg'.n>>) /\ buf' = [kind |-> "", len |-> 0]
                         ELSE buf' = [kind |-> cmsg'.kind, len |-> len2] /\ UNCHANGED q
                      /\ UNCHANGED <<ws, sentClose, crashed>>
    /\ IF cmsg'.sent = cmsg'.size
       THEN /\ nsent' = nsent + 1 /\ sizes' = Append(sizes, cmsg'.size)
       ELSE UNCHANGED <<nsent, sizes>>
    /\ UNCHANGED <<asgi, accepted, delivered, sclosed, clientCode, appClosed, resp101, acceptFails, lost, strayFrames,
                   refused>>

MsgDone == cmsg.n = 0 \/ cmsg.sent = cmsg.size
ResetMsg == cmsg' = IF MsgDone THEN [n |-> 0, kind |-> "", size |-> 0, sent |-> 0] ELSE cmsg

ClientClose(code) ==
    /\ ~lost /\ accepted /\ resp101 /\ clientCode = 0 /\ MsgDone /\ ~crashed
    /\ clientCode' = code
    /\ IF sclosed \/ ws \in {"NONE", "CLOSED"} THEN UNCHANGED <<ws, sclosed, q, sentClose>>
       ELSE /\ ws' = IF ws = "OPEN" THEN "CLOSED" ELSE "CLOSED"     \* reply sent when REMOTE_CLOSING, then closed
            /\ sentClose' = IF ws = "OPEN" THEN code ELSE sentClose
            \* send(StreamClosed) -> handle(StreamClosed): disconnect code
            /\ sclosed' = TRUE
            /\ LET dcode == IF ws = "OPEN" /\ "client_close_code_lost" \notin Dev THEN code
                            ELSE IF asgi \in {"CLOSED", "HTTPCLOSED"} THEN 1000 ELSE 1006
               IN q' = Append(q, <<"disconnect", dcode>>)
    /\ ResetMsg
    /\ UNCHANGED <<asgi, accepted, buf, nsent, sizes, delivered, appClosed, resp101, acceptFails, lost, strayFrames,
                   refused, crashed>>

ConnLost ==
    /\ ~lost
    /\ lost' = TRUE
    /\ IF sclosed THEN UNCHANGED <<sclosed, q>>
       ELSE /\ sclosed' = TRUE
            /\ q' = Append(q, <<"disconnect", IF asgi \in {"CLOSED", "HTTPCLOSED"} THEN 1000 ELSE 1006>>)
    /\ UNCHANGED <<asgi, accepted, ws, buf, cmsg, nsent, sizes, delivered, clientCode, sentClose, appClosed, resp101,
                   acceptFails, strayFrames, refused, crashed>>

(* frames the client writes before the application accepted (a client must wait for the 101): handle(Data) with   *)
(* Handshake.accepted false marks the stream closed, answers 400 and tells the application (disconnect 1006).    *)
(* Writing the 400 is a suspension point: the stream has to be marked closed before it, or the application's     *)
(* accept runs in between (F04f); and without the disconnect the application - started with the request - waits  *)
(* for ever and keeps the connection's task group alive (F03e).                                                   *)
EarlyData ==
    /\ \/ /\ ~lost /\ ~crashed /\ ~sclosed /\ ~accepted /\ ~refused /\ asgi = "HANDSHAKE"
          /\ refused' = TRUE
          /\ IF "closed_after_refusal" \notin Dev
             THEN \* closed first, then the 400, then the application is told (it was started with the request)
                  sclosed' = TRUE /\ q' = Append(q, <<"disconnect", 1006>>)
             ELSE UNCHANGED <<sclosed, q>>
       \/ \* (deviation only) ... marked closed when the 400 has been written, the application never told
          /\ "closed_after_refusal" \in Dev /\ refused /\ ~sclosed /\ ~crashed
          /\ sclosed' = TRUE /\ UNCHANGED <<refused, q>>
    /\ UNCHANGED <<asgi, accepted, ws, buf, cmsg, nsent, sizes, delivered, clientCode, sentClose, appClosed, resp101,
                   acceptFails, lost, strayFrames, crashed>>

Next == AppAccept \/ AppSendMsg \/ (\E c \in {1000, 4000} : AppClose(c)) \/ AppRecv
        \/ ClientFragment \/ (\E c \in {1001, 1005} : ClientClose(c)) \/ ConnLost
        \/ EarlyData
Spec == Init /\ [][Next]_vars

(* ===================== properties ===================== *)
RECURSIVE Increasing(_)
Increasing(s) == Len(s) < 2 \/ (s[1] < s[2] /\ Increasing(Tail(s)))
(* C10: each complete message at most once, in order *)
InOrderOnce == Increasing(delivered)
(* C10: a message over the limit is never delivered, nor anything after it *)
FirstOver == IF \E i \in 1..Len(sizes) : sizes[i] > Limit
             THEN CHOOSE i \in 1..Len(sizes) : sizes[i] > Limit /\ \A j \in 1..(i - 1) : sizes[j] <= Limit
             ELSE 0
OverLimitNeverDelivered ==
    \A i \in 1..Len(delivered) : (FirstOver = 0 \/ delivered[i] < FirstOver)
                                 /\ (cmsg.n = 0 \/ cmsg.sent <= Limit \/ delivered[i] < cmsg.n)
(* C10: an oversized message makes the server close with 1009 (unless a close was already under way) *)
Close1009 == (\E i \in 1..Len(sizes) : sizes[i] > Limit) /\ ~lost /\ ~sclosed /\ appClosed = 0 /\ clientCode = 0 /\ ~crashed
             => sentClose = 1009
(* C04: no client input makes the handler raise *)
NoCrash == ~crashed
(* C11: the disconnect code tells what happened *)
DisconnectCode ==
    \A i \in 1..Len(q) : q[i][1] = "disconnect" =>
        IF clientCode # 0 /\ appClosed = 0 /\ sentClose \notin {1009} THEN q[i][2] = clientCode
        ELSE TRUE
OneDisconnect == Cardinality({i \in 1..Len(q) : q[i][1] = "disconnect"}) <= 1
(* C12: no websocket frame on a connection that never got its handshake response *)
NoStrayFrames == strayFrames = 0
(* C13/C11: a handshake is answered once - refused or accepted *)
OneAnswer == ~(refused /\ resp101)
=============================================================================
