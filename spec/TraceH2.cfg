SPECIFICATION TraceSpec
CONSTANTS
  Streams <- TwoStreams
  MaxChunks = 3
  Chunk = 2
  InitWin = 1
  ConnWin = 4
  MaxCredit = 1000
  Faults = {"rst", "close"}
  Dev <- CodeDev
INVARIANT Report
CHECK_DEADLOCK FALSE
