------------------------------ MODULE TraceWS ------------------------------
(***************************************************************************)
(* Trace specification binding WSock to the implementation: a trace         *)
(* recorded from the real server, driven along a word of WSock's state      *)
(* graph, must be a behaviour of WSock (Dev = {}).  Every WSock action      *)
(* includes the server's reaction, so there are no silent steps:            *)
(*   accept | sendmsg | aclose code | recv what arg | frag kind part fin |  *)
(*   cclose code | lost | early (a frame written before the 101)            *)
(* are the WSock actions, and the observations                               *)
(*   w101 | w400 | wclose code | crash | q                                  *)
(* are compared with the design state (`q`: everything the design says is   *)
(* on the wire has been seen, and nothing else).  Advisory, like TraceH1.   *)
(***************************************************************************)
EXTENDS MC_WSock, Json, IOUtils, TLCExt

VARIABLES tid, l, ob

Traces == JsonDeserialize(IOEnv.TRACE_FILE)
tvars == <<vars, tid, l, ob>>
Evs(t) == Traces[t].evs

ObInit == [w101 |-> FALSE, w400 |-> FALSE, close |-> 0, crash |-> FALSE]

TraceInit == Init /\ ~acceptFails /\ tid \in 1..Len(Traces) /\ l = 1 /\ ob = ObInit

Agree == /\ ob.w101 = resp101
         /\ ob.w400 = refused
         /\ ob.close = sentClose
         /\ ob.crash = crashed

Stimulus(e) ==
    /\ UNCHANGED ob
    /\ CASE e.k = "accept"  -> AppAccept
         [] e.k = "sendmsg" -> AppSendMsg
         [] e.k = "aclose"  -> AppClose(e.code)
         [] e.k = "recv"    -> /\ AppRecv
                               /\ Head(q)[1] = e.what
                               /\ (e.what = "connect" \/ Head(q)[2] = e.arg)
         [] e.k = "frag"    -> /\ ClientFragment
                               /\ cmsg'.kind = e.kind
                               /\ (cmsg'.sent = cmsg'.size) = e.fin
                               /\ cmsg'.sent - (IF e.first THEN 0 ELSE cmsg.sent) = e.part
                               /\ (e.first = (cmsg.n = 0 \/ cmsg.sent = cmsg.size))
                               \* the total size of a message is not known before its last fragment: any
                               \* total the design allows that is consistent with what follows is accepted
         [] e.k = "cclose"  -> ClientClose(e.code)
         [] e.k = "lost"    -> ConnLost
         [] e.k = "early"   -> EarlyData

Observation(e) ==
    /\ UNCHANGED vars
    /\ CASE e.k = "w101"   -> ob' = [ob EXCEPT !.w101 = TRUE] /\ resp101
         [] e.k = "w400"   -> ob' = [ob EXCEPT !.w400 = TRUE] /\ refused
         [] e.k = "wclose" -> ob' = [ob EXCEPT !.close = e.code] /\ ob.close = 0 /\ sentClose = e.code
         [] e.k = "crash"  -> ob' = [ob EXCEPT !.crash = TRUE] /\ crashed
         [] e.k = "q"      -> UNCHANGED ob /\ Agree

IsStimulus(e) == e.k \in {"accept", "sendmsg", "aclose", "recv", "frag", "cclose", "lost", "early"}

TraceNext ==
    /\ l <= Len(Evs(tid))
    /\ LET e == Evs(tid)[l] IN IF IsStimulus(e) THEN Stimulus(e) ELSE Observation(e)
    /\ l' = l + 1 /\ UNCHANGED tid

TraceSpec == TraceInit /\ [][TraceNext]_tvars

Accepted == l = Len(Evs(tid)) + 1
Report == Accepted => PrintT(<<"ACCEPT", tid>>)
Progress == PrintT(<<"AT", tid, l>>)
DiagL == CHOOSE n \in 0..2000 : ToString(n) = IOEnv.DIAG_L
Diag == (l = DiagL) => PrintT(<<"STATE", [asgi |-> asgi, accepted |-> accepted, ws |-> ws, buf |-> buf, cmsg |-> cmsg,
                                          nsent |-> nsent, q |-> q, delivered |-> delivered, sclosed |-> sclosed,
                                          clientCode |-> clientCode, sentClose |-> sentClose, appClosed |-> appClosed,
                                          resp101 |-> resp101, refused |-> refused, lost |-> lost, crashed |-> crashed, ob |-> ob]>>)
=============================================================================
