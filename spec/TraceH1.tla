------------------------------ MODULE TraceH1 ------------------------------
(***************************************************************************)
(* Trace specification binding H1Conn to the implementation in the other   *)
(* direction: a trace recorded from the real server (driven along a        *)
(* TLC-generated behaviour of H1Conn) must itself be a behaviour of        *)
(* H1Conn with Dev = CodeDev.                                               *)
(*                                                                         *)
(* The recorded events are projected (harness/design_trace.py) onto        *)
(*   stimuli       send n | eof | reset | fail | term | tick                *)
(*                 sstart r | sbody r final | exit r                        *)
(*                 - each is the H1Conn action of the same name             *)
(*   observations  rcall r / recv r m (receive() called / what it returned:  *)
(*                 the dequeue itself is a silent AppRecv step between them)  *)
(*                 start r | whead r status | wchunk r | wend r | werr |    *)
(*                 log r |                                                  *)
(*                 tclose | hdone | ret r | q                               *)
(*                 - they do not move the design; they are compared with    *)
(*                 what the design state says has happened                  *)
(* Server-internal steps (ServerNext) are not logged: the trace spec takes  *)
(* them silently between two events, any number of them (the design's own   *)
(* state space bounds the search).  At every `q` (the real server has       *)
(* nothing left to do) the design must be quiescent too and agree exactly   *)
(* with everything observed so far.                                         *)
(*                                                                         *)
(* A trace that is not accepted is NOT a property violation: it says that   *)
(* the implementation no longer follows this design (the model-checking     *)
(* results stop transferring) and is reported as design drift.              *)
(***************************************************************************)
EXTENDS MC_H1Conn, Json, IOUtils, TLCExt

VARIABLES tid, l, ob

Traces == JsonDeserialize(IOEnv.TRACE_FILE)
tvars == <<vars, tid, l, ob>>

Evs(t) == Traces[t].evs
PlanOf(t) == [r \in Reqs |-> [body |-> Traces[t].plan[r].body, close |-> Traces[t].plan[r].close]]

NoObs == [head |-> 0, chunks |-> 0, ends |-> 0, acc |-> 0]
ObInit == [w |-> [r \in Reqs |-> NoObs], err |-> 0, closed |-> FALSE, hdone |-> FALSE, started |-> {},
           want |-> {}, got |-> [r \in Reqs |-> <<>>]]

TraceInit ==
    /\ Init
    /\ tid \in 1..Len(Traces)
    /\ plan = PlanOf(tid)
    /\ l = 1
    /\ ob = ObInit

(* everything observed equals everything the design has done *)
Agree ==
    /\ \A r \in Reqs : /\ ob.w[r].head = wire[r].head /\ ob.w[r].chunks = wire[r].chunks
                       /\ ob.w[r].ends = wire[r].ends /\ ob.w[r].acc = hist[r].acc
    /\ ob.err = errResp
    \* (a reset or a failed write closes the transport from underneath the server)
    /\ (creset \/ tfail # "no" \/ (ob.closed <=> tr = "closed"))
    /\ ob.hdone <=> hdone
    /\ ob.started = {r \in Reqs : appst[r] # "none"}
    \* every receive that could return has returned, and its record has been seen
    /\ \A r \in ob.want : q[r] = <<>>
    /\ \A r \in Reqs : ob.got[r] = <<>>

Stimulus(e) ==
    /\ UNCHANGED ob
    /\ CASE e.k = "send"   -> ClientSend /\ csent' = csent + e.n
         [] e.k = "eof"    -> ClientEof
         [] e.k = "reset"  -> ClientReset
         [] e.k = "fail"   -> TransportFail
         [] e.k = "term"   -> Terminate
         [] e.k = "tick"   -> Tick
         [] e.k = "sstart" -> AppSendStart(e.r)
         [] e.k = "sbody"  -> AppSendBody(e.r, e.final)
         [] e.k = "exit"   -> AppExit(e.r)

Observation(e) ==
    /\ UNCHANGED vars
    /\ CASE e.k = "whead"  -> /\ ob' = [ob EXCEPT !.w[e.r].head = @ + 1]
                              /\ ob'.w[e.r].head <= wire[e.r].head /\ wire[e.r].status = e.status
         [] e.k = "wchunk" -> ob' = [ob EXCEPT !.w[e.r].chunks = @ + 1] /\ ob'.w[e.r].chunks <= wire[e.r].chunks
         [] e.k = "wend"   -> ob' = [ob EXCEPT !.w[e.r].ends = @ + 1] /\ ob'.w[e.r].ends <= wire[e.r].ends
         [] e.k = "werr"   -> ob' = [ob EXCEPT !.err = @ + 1] /\ ob'.err <= errResp
         [] e.k = "log"    -> ob' = [ob EXCEPT !.w[e.r].acc = @ + 1] /\ ob'.w[e.r].acc <= hist[e.r].acc
         [] e.k = "tclose" -> ob' = [ob EXCEPT !.closed = TRUE] /\ (creset \/ tfail # "no" \/ tr = "closed")
         [] e.k = "hdone"  -> ob' = [ob EXCEPT !.hdone = TRUE] /\ hdone
         \* the application task begins to run: some time after the reader's Request step spawned it
         [] e.k = "start"  -> ob' = [ob EXCEPT !.started = @ \cup {e.r}] /\ e.r \notin ob.started /\ appst[e.r] # "none"
         \* receive(): the call is logged, the dequeue (AppRecv, a silent step) happens when a message is
         \* there, the record of what was received is logged when the application task runs again - by then
         \* other tasks may already have reacted to the freed queue slot
         [] e.k = "rcall"  -> ob' = [ob EXCEPT !.want = @ \cup {e.r}]
         [] e.k = "recv"   -> /\ ob.got[e.r] # <<>> /\ Head(ob.got[e.r]) = e.m
                              /\ ob' = [ob EXCEPT !.got[e.r] = Tail(@)]
         [] e.k = "ret"    -> UNCHANGED ob /\ todo[AppTask(e.r)] = <<>>
         [] e.k = "q"      -> UNCHANGED ob /\ ~ENABLED ServerNext /\ Agree

IsStimulus(e) == e.k \in {"send", "eof", "reset", "fail", "term", "tick", "sstart", "sbody", "exit"}

Logged ==
    /\ l <= Len(Evs(tid))
    /\ LET e == Evs(tid)[l] IN IF IsStimulus(e) THEN Stimulus(e) ELSE Observation(e)
    /\ l' = l + 1 /\ UNCHANGED tid

(* an unlogged server step, or the dequeue of a receive() that has been called *)
Silent ==
    /\ l <= Len(Evs(tid))
    /\ \/ (ServerNext \/ TransportDeath) /\ UNCHANGED ob
       \/ \E k \in ob.want : /\ AppRecv(k)
                              /\ ob' = [ob EXCEPT !.want = @ \ {k}, !.got[k] = Append(@, Head(q[k]))]
    /\ UNCHANGED <<tid, l>>

TraceNext == Logged \/ Silent
TraceSpec == TraceInit /\ [][TraceNext]_tvars

(* one line per accepting state (deduplicated by the harness) *)
Accepted == l = Len(Evs(tid)) + 1
Report == Accepted => PrintT(<<"ACCEPT", tid>>)
(* diagnosis runs only: how far each trace got; the design states at the furthest position *)
Progress == PrintT(<<"AT", tid, l>>)
DiagL == CHOOSE n \in 0..2000 : ToString(n) = IOEnv.DIAG_L
Diag == (l = DiagL) => PrintT(<<"STATE", [rpc |-> rpc, their |-> their, our |-> our, ka |-> keepalive, tr |-> tr, tfail |-> tfail,
                                          cur |-> cur, todo |-> todo, appst |-> appst, asgi |-> asgi, q |-> q, hbuf |-> hbuf, net |-> net,
                                          sclosed |-> sclosed, idle |-> idle, now |-> now, wire |-> wire, acc |-> [r \in Reqs |-> hist[r].acc],
                                          hdone |-> hdone, canRead |-> canRead, enabled |-> ENABLED ServerNext, ob |-> ob]>>)
=============================================================================
