SPECIFICATION Spec
CONSTANTS
  MaxReq = 2
  MaxBody = 1
  QueueCap = 1
  KAMax = 2
  KATimeout = 1
  MaxT = 1
  Plans <- QuickPlans
  Dev <- CodeDev
  Faults = {"eof"}
CONSTRAINT Bound
INVARIANT TypeOK
INVARIANT NoOverlap
INVARIANT NoServeAfterClose
INVARIANT OneResponseHead
INVARIANT NoStaleWrite
INVARIANT AtMostOneDisconnect
INVARIANT AtMostOneAccess
INVARIANT QueueOneDisc
INVARIANT TimerOnlyWhenIdle
INVARIANT NoFalseComplete
INVARIANT Released
INVARIANT DisconnectDelivered
CHECK_DEADLOCK FALSE
