SPECIFICATION Spec
CONSTANTS
  Workers <- BothWorkers
  Dev <- NoDev
  Conns <- Conns4
  Grace = 3
  StartTO = 2
  ShutTO = 1
  MaxReqs <- MaxReqsThorough
  Jitter = 2
  MaxServed = 6
  MaxTime = 9
CONSTRAINT Bound
INVARIANT TypeOK
INVARIANT StartupFirst
INVARIANT AcceptOnlyAfterStartup
INVARIANT NothingServedAfterFailure
INVARIANT ErrorAfterFailure
INVARIANT ShutdownAtMostOnce
INVARIANT ShutdownNotMissing
INVARIANT ShutdownAfterDrainOrGrace
INVARIANT NoAcceptAfterTrigger
INVARIANT NoRequestAfterTrigger
INVARIANT IdleClosedAfterTrigger
INVARIANT NoEarlyCancel
INVARIANT BoundedShutdown
INVARIANT NothingLeftAfterGrace
INVARIANT RecycleWindow
CHECK_DEADLOCK FALSE
