------------------------------ MODULE TraceH2 ------------------------------
(***************************************************************************)
(* Trace specification binding H2Conn (the HTTP/2 send path) to the         *)
(* implementation: a trace recorded from the real server, driven along a    *)
(* TLC-generated behaviour of H2Conn, must itself be a behaviour of H2Conn  *)
(* with Dev = CodeDev.  Same construction as TraceH1:                       *)
(*   stimuli       push s | end s | wus s n | wuc n | rst s | close         *)
(*                 = AppPush, AppEnd, WindowUpdateStream, WindowUpdateConn, *)
(*                   Reset, ConnClose                                       *)
(*   observations  wdata s n (DATA of n units seen by the client) | wend s  *)
(*                 | ret s (the application's send returned) | q            *)
(* Silent steps are ServerNext (send task, resumption of waiting sends).    *)
(* At `q` the design must be quiescent and have written exactly what the    *)
(* client saw.  Advisory, like TraceH1 (design drift, not a violation).     *)
(***************************************************************************)
EXTENDS MC_H2Conn, Json, IOUtils, TLCExt

VARIABLES tid, l, ob

Traces == JsonDeserialize(IOEnv.TRACE_FILE)
tvars == <<vars, tid, l, ob>>
Evs(t) == Traces[t].evs

ObInit == [sent |-> [s \in Streams |-> 0], ends |-> [s \in Streams |-> 0]]

TraceInit == Init /\ tid \in 1..Len(Traces) /\ l = 1 /\ ob = ObInit

Agree == ob.sent = sent /\ ob.ends = ends

Stimulus(e) ==
    /\ UNCHANGED ob
    /\ CASE e.k = "push"  -> AppPush(e.s)
         [] e.k = "end"   -> AppEnd(e.s)
         [] e.k = "wus"   -> WindowUpdateStream(e.s, e.n)
         [] e.k = "wuc"   -> WindowUpdateConn(e.n)
         [] e.k = "rst"   -> Reset(e.s)
         [] e.k = "close" -> ConnClose

Observation(e) ==
    /\ UNCHANGED vars
    /\ CASE e.k = "wdata" -> ob' = [ob EXCEPT !.sent[e.s] = @ + e.n] /\ ob'.sent[e.s] <= sent[e.s]
         [] e.k = "wend"  -> ob' = [ob EXCEPT !.ends[e.s] = @ + 1] /\ ob'.ends[e.s] <= ends[e.s]
         [] e.k = "ret"   -> UNCHANGED ob /\ apc[e.s] \in {"body", "done"}
         [] e.k = "q"     -> UNCHANGED ob /\ ~ENABLED ServerNext /\ Agree

IsStimulus(e) == e.k \in {"push", "end", "wus", "wuc", "rst", "close"}

Logged ==
    /\ l <= Len(Evs(tid))
    /\ LET e == Evs(tid)[l] IN IF IsStimulus(e) THEN Stimulus(e) ELSE Observation(e)
    /\ l' = l + 1 /\ UNCHANGED tid

Silent == l <= Len(Evs(tid)) /\ ServerNext /\ UNCHANGED <<tid, l, ob>>

TraceNext == Logged \/ Silent
TraceSpec == TraceInit /\ [][TraceNext]_tvars

Accepted == l = Len(Evs(tid)) + 1
Report == Accepted => PrintT(<<"ACCEPT", tid>>)
Progress == PrintT(<<"AT", tid, l>>)
DiagL == CHOOSE n \in 0..2000 : ToString(n) = IOEnv.DIAG_L
Diag == (l = DiagL) => PrintT(<<"STATE", [apc |-> apc, left |-> left, buf |-> buf, paused |-> pausedEv, empty |-> emptyEv,
                                          blocked |-> blocked, inTree |-> inTree, hasData |-> hasData, spc |-> spc,
                                          swin |-> swin, cwin |-> cwin, rst |-> rst, closed |-> closed, sent |-> sent,
                                          ends |-> ends, enabled |-> ENABLED ServerNext, ob |-> ob]>>)
=============================================================================
