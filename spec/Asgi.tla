-------------------------------- MODULE Asgi --------------------------------
(***************************************************************************)
(* Reference automata of the ASGI send side, as the ASGI specification and  *)
(* property C12 state them (not as hypercorn implements them).              *)
(*                                                                         *)
(* A message is a record with fields type, cls and (for bodies) more;       *)
(* cls is the payload class assigned by whoever built the message:          *)
(*   "ok"            well-formed payload                                    *)
(*   "hdr-nonbytes"  a header name or value that is not bytes               *)
(*   "hdr-pseudo"    a pseudo-header (name starts with ":")                 *)
(*   "hdr-ctl"       CR, LF or NUL inside a header name or value            *)
(*   "path-nonstr"   http.response.push with a non-str path                 *)
(*   "text-nonstr"   websocket.send with a non-str text                     *)
(* HttpStep / WsStep return [st, raise]: the next state and whether the     *)
(* send must raise into the application (then nothing may reach the wire).  *)
(* verdict "any" marks combinations on which the statement is silent.       *)
(***************************************************************************)
EXTENDS Naturals, Sequences, TLC

HttpStates == {"REQUEST", "RESPONSE", "TRAILERS", "CLOSED"}
WsStates == {"HANDSHAKE", "DENIAL", "CONNECTED", "CLOSED"}
(* payload classes the statement says must raise; "hdr-ctl" is different: it need not raise *)
(* but must never reach the wire (clause ctl-on-wire), so its verdict is "any"              *)
MustRaisePayload(m) == m.cls \in {"hdr-nonbytes", "hdr-pseudo", "path-nonstr", "text-nonstr"}
Dubious(m) == m.cls = "hdr-ctl"

R(st, v) == [st |-> st, verdict |-> v]      \* v \in {"ok", "raise", "any"}

(* st is [s |-> state, tflag |-> response announced trailers].                               *)
(* "raise" is returned exactly for the cases the statement lists: a body before the response *)
(* start, a second response start, anything after completion, an unknown type, non-bytes or  *)
(* pseudo headers, a non-str push path.  Other ASGI-invalid combinations are "any".          *)
HttpStep(st, m, ver) ==
    LET s == st.s t == m.type h2 == ver \in {"2", "3"}
        known == t \in {"http.response.start", "http.response.body", "http.response.trailers",
                        "http.response.push", "http.response.early_hint"}
    IN
    IF ~known THEN R(st, "raise")
    ELSE IF s = "CLOSED" THEN R(st, "raise")
    ELSE IF MustRaisePayload(m) THEN R(st, "raise")
    ELSE
    CASE t = "http.response.start" ->
            IF s # "REQUEST" THEN R(st, "raise")
            ELSE R([s |-> "RESPONSE", tflag |-> m.trailers], IF Dubious(m) THEN "any" ELSE "ok")
      [] t = "http.response.body" ->
            IF s = "REQUEST" THEN R(st, "raise")
            ELSE IF s = "RESPONSE"
                 \* (a response that announced trailers is not complete before them - on HTTP/1.1, where the
                 \*  scope does not offer the extension, what follows is unspecified rather than "after completion")
                 THEN R([st EXCEPT !.s = IF m.more THEN "RESPONSE" ELSE IF st.tflag THEN "TRAILERS" ELSE "CLOSED"], "ok")
                 ELSE R(st, "any")
      [] t = "http.response.trailers" ->
            IF s = "TRAILERS" /\ h2
            THEN R([st EXCEPT !.s = IF m.more THEN "TRAILERS" ELSE "CLOSED"], IF Dubious(m) THEN "any" ELSE "ok")
            \* (not in the ASGI specification: trailers sent first.  Where the server accepts them it writes a
            \*  response head of its own - from then on a response start is a second one)
            ELSE IF s = "REQUEST" /\ h2
                 THEN R([s |-> IF m.more THEN "TRAILERS" ELSE "CLOSED", tflag |-> TRUE], "any")
                 ELSE R(st, "any")
      [] OTHER -> R(st, "any")          \* push / early_hint: gating by version and state is not in the statement

(* WebSocket: DENIAL = websocket.http.response.start accepted, body chunks follow.  "raise" for: *)
(* websocket.send before accept, a second response start, anything after completion, unknown   *)
(* type, invalid payloads.                                                                      *)
WsStep(st, m) ==
    LET s == st.s t == m.type
        known == t \in {"websocket.accept", "websocket.http.response.start", "websocket.http.response.body",
                        "websocket.send", "websocket.close"}
    IN
    IF ~known THEN R(st, "raise")
    ELSE IF s = "CLOSED" THEN R(st, "raise")
    ELSE IF MustRaisePayload(m) THEN R(st, "raise")
    ELSE
    CASE t = "websocket.accept" ->
            IF s = "HANDSHAKE" THEN R([st EXCEPT !.s = "CONNECTED"], IF Dubious(m) THEN "any" ELSE "ok")
            ELSE IF s = "CONNECTED" THEN R(st, "raise")
            ELSE R([st EXCEPT !.s = "CONNECTED"], "any")          \* accept after a response start: statement silent
      [] t = "websocket.http.response.start" ->
            IF s = "HANDSHAKE" THEN R([st EXCEPT !.s = "DENIAL"], IF Dubious(m) THEN "any" ELSE "ok")
            ELSE R(st, "raise")                                  \* a second response start / after accept
      [] t = "websocket.http.response.body" ->
            IF s = "DENIAL" THEN R([st EXCEPT !.s = IF m.more THEN "DENIAL" ELSE "CLOSED"], "ok")
            ELSE IF s = "CONNECTED" THEN R(st, "raise") ELSE R(st, "any")
      [] t = "websocket.send" ->
            IF s = "CONNECTED" THEN R(st, "ok") ELSE R(st, "raise")       \* websocket.send before accept
      [] t = "websocket.close" ->
            IF s \in {"HANDSHAKE", "CONNECTED"} THEN R([st EXCEPT !.s = "CLOSED"], "ok") ELSE R(st, "any")
      [] OTHER -> R(st, "raise")

HttpInit == [s |-> "REQUEST", tflag |-> FALSE]
WsInit == [s |-> "HANDSHAKE", tflag |-> FALSE]

(* ---- a tiny state machine so that TLC can check the automata themselves ---- *)
CONSTANTS MaxLen
VARIABLES st, n, kind, starts, afterClosed

HttpAlphabet ==
    {[type |-> t, cls |-> c, more |-> mo, trailers |-> tr] :
        t \in {"http.response.start", "http.response.body", "http.response.trailers", "http.response.push",
               "http.response.early_hint", "bogus"},
        c \in {"ok", "hdr-ctl"}, mo \in BOOLEAN, tr \in BOOLEAN}
WsAlphabet ==
    {[type |-> t, cls |-> c, more |-> mo, trailers |-> FALSE] :
        t \in {"websocket.accept", "websocket.http.response.start", "websocket.http.response.body", "websocket.send",
               "websocket.close", "bogus"},
        c \in {"ok", "text-nonstr"}, mo \in BOOLEAN}

Init == /\ kind \in {"h1", "h2", "ws"} /\ n = 0 /\ starts = 0 /\ afterClosed = 0
        /\ st = IF kind = "ws" THEN WsInit ELSE HttpInit
Next == /\ n < MaxLen /\ n' = n + 1 /\ UNCHANGED kind
        /\ \E m \in (IF kind = "ws" THEN WsAlphabet ELSE HttpAlphabet) :
              LET r == IF kind = "ws" THEN WsStep(st, m) ELSE HttpStep(st, m, IF kind = "h2" THEN "2" ELSE "1.1") IN
              /\ st' = r.st
              /\ starts' = starts + (IF r.verdict = "ok" /\ m.type \in {"http.response.start", "websocket.accept",
                                                                       "websocket.http.response.start"} THEN 1 ELSE 0)
              /\ afterClosed' = afterClosed + (IF st.s = "CLOSED" /\ r.verdict # "raise" THEN 1 ELSE 0)
Spec == Init /\ [][Next]_<<st, n, kind, starts, afterClosed>>

AtMostOneStart == starts <= 1
NothingAfterCompletion == afterClosed = 0
InvalidPayloadNeverAccepted == TRUE
StateTyped == st.s \in HttpStates \cup WsStates
=============================================================================
