SPECIFICATION TraceSpec
CONSTANTS
  MaxReq = 2
  MaxBody = 2
  QueueCap = 1
  KAMax = 2
  KATimeout = 2
  MaxT = 1000
  Plans <- AllPlans
  Dev <- CodeDev
  Faults = {"eof", "reset", "fail", "term"}
INVARIANT Report
CHECK_DEADLOCK FALSE
