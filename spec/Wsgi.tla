------------------------------- MODULE Wsgi -------------------------------
(***************************************************************************)
(* Design specification of hypercorn's WSGI adapter (app_wrappers.py       *)
(* WSGIWrapper / _build_environ) and, in its first half, the ORACLE of     *)
(* property C17: what PEP 3333 and the property text expect for an         *)
(* abstract request and an abstract WSGI application shape.                *)
(*                                                                         *)
(* Part 1 (constant operators) is used twice:                              *)
(*   - props/C17.tla instantiates this module and compares the expected    *)
(*     values with what the real code did (trace validation);              *)
(*   - the invariants of part 2 state that the adapter state machine       *)
(*     produces exactly these expected values (TLC, MC_Wsgi.cfg).          *)
(*                                                                         *)
(* Abstract request  (record, JSON object "req" of a C17 case):            *)
(*   kind      "http" | "websocket"                                        *)
(*   method    string                                                      *)
(*   segs      sequence of path tokens [raw |-> percent-encoded ASCII,     *)
(*             wsgi |-> the decoded bytes seen as latin-1 (PEP 3333        *)
(*             "bytes-as-unicode"), non-ASCII escaped]; path = concat      *)
(*   root      [kind |-> "prefix" | "mismatch", n |-> number of leading    *)
(*             segments that make up root_path]                            *)
(*   query     string, version string ("1.0", "1.1", "2")                  *)
(*   headers   sequence of [name |-> lower-case name, upper |-> NAME with  *)
(*             "-" replaced by "_", value |-> string]                      *)
(*   max_body  wsgi_max_body_size                                          *)
(*   body      sequence of the lengths of the http.request messages        *)
(* Abstract application shape (record "app"):                              *)
(*   start     "eager" (start_response in the callable) | "lazy" (on the   *)
(*             first next() of the returned iterable) | "never"            *)
(*   ret       "list" | "generator" | "iter_with_close" (an iterator that   *)
(*             has close()) | "iterable_with_close" (an object with        *)
(*             close() whose __iter__ hands out a separate iterator)       *)
(*   chunks    sequence of chunk lengths (0 = empty chunk)                 *)
(*   raise_at  "none" | "before_start" | "after_start" (at the place where *)
(*             start_response is / would be called) | "mid_iteration"      *)
(*             (on the next() after the first chunk)                       *)
(*   status, code, headers  (status line, its integer, sequence of         *)
(*             [name, lower, value])                                       *)
(***************************************************************************)
EXTENDS Naturals, Integers, Sequences, FiniteSets, TLC

CONSTANT Dev        \* set of deviation switches (strings), {} = the intended design
VARIABLES req, app, st
vars == <<req, app, st>>

(* ======================================================================= *)
(* Part 1: the oracle (constant operators)                                 *)
(* ======================================================================= *)
Range(s) == {s[i] : i \in DOMAIN s}

RECURSIVE Sum(_)
Sum(s) == IF Len(s) = 0 THEN 0 ELSE Head(s) + Sum(Tail(s))

RECURSIVE Concat(_)
Concat(ss) == IF Len(ss) = 0 THEN "" ELSE Head(ss) \o Concat(Tail(ss))

RECURSIVE Join(_, _)
Join(ss, sep) == IF Len(ss) = 0 THEN ""
                 ELSE IF Len(ss) = 1 THEN Head(ss)
                 ELSE Head(ss) \o sep \o Join(Tail(ss), sep)

(* ---- request body and the limit ---------------------------------------- *)
BodyLen(r) == Sum(r.body)
OverLimit(r) == BodyLen(r) > r.max_body

(* The statement speaks about requests whose path lies under root_path; it *)
(* is silent about a path outside root_path (the code answers 404).        *)
Specified(r) == r.kind = "http" /\ r.root.kind = "prefix"

ExpectedCalled(r) == IF r.kind # "http" \/ OverLimit(r) THEN 0 ELSE 1

(* ---- environ ------------------------------------------------------------ *)
ExpectedScriptName(r) == Concat([i \in 1..r.root.n |-> r.segs[i].wsgi])

PathRest(r) == Concat([i \in 1..(Len(r.segs) - r.root.n) |-> r.segs[r.root.n + i].wsgi])
(* PEP 3333 allows an empty PATH_INFO for the application root; the code   *)
(* says "/" there. The statement does not decide: both are accepted.       *)
ExpectedPathInfos(r) == IF PathRest(r) = "" THEN {"", "/"} ELSE {PathRest(r)}

ExpectedProtocol(r) == "HTTP/" \o r.version

EnvKey(h) == IF h.name = "content-length" THEN "CONTENT_LENGTH"
             ELSE IF h.name = "content-type" THEN "CONTENT_TYPE"
             ELSE "HTTP_" \o h.upper
EnvKeys(r) == {EnvKey(r.headers[i]) : i \in DOMAIN r.headers}
HttpKeys(r) == EnvKeys(r) \ {"CONTENT_LENGTH", "CONTENT_TYPE"}
RECURSIVE ValuesFor(_, _)
ValuesFor(hs, k) == IF Len(hs) = 0 THEN <<>>
                    ELSE (IF EnvKey(Head(hs)) = k THEN <<Head(hs).value>> ELSE <<>>)
                         \o ValuesFor(Tail(hs), k)
Repeated(r, k) == Len(ValuesFor(r.headers, k)) > 1
(* "comma-joined": with or without a space after the comma *)
ExpectedVar(r, k) == IF k \in EnvKeys(r)
                     THEN {Join(ValuesFor(r.headers, k), ","), Join(ValuesFor(r.headers, k), ", ")}
                     ELSE {""}

(* ---- application shapes -------------------------------------------------- *)
ValidShape(a) ==
    /\ a.ret = "list" => (a.start # "lazy" /\ a.raise_at # "mid_iteration")
    /\ a.start = "never" => a.raise_at \in {"none", "mid_iteration"}
    /\ a.raise_at = "mid_iteration" => Len(a.chunks) >= 1

(* the callable itself raises: no iterable is ever returned *)
RaisesInCall(a) == a.start = "eager" /\ a.raise_at \in {"before_start", "after_start"}
ReturnsIterable(a) == ~RaisesInCall(a)
HasClose(a) == a.ret \in {"generator", "iter_with_close", "iterable_with_close"}
ExpectedClose(a) == IF ReturnsIterable(a) /\ HasClose(a) THEN 1 ELSE 0

(* the application behaves: it calls start_response (eagerly or lazily     *)
(* before its first chunk) and does not raise; then status, headers and    *)
(* body must reach the client unchanged. Otherwise (application error)     *)
(* the statement only demands the close() accounting.                      *)
ExpectsResponse(a) == a.start \in {"eager", "lazy"} /\ a.raise_at = "none"
ExpectedHeaders(a) == [i \in DOMAIN a.headers |-> <<a.headers[i].lower, a.headers[i].value>>]
ExpectedTotal(a) == Sum(a.chunks)

(* ---- situation classes used as alarm contexts ---------------------------- *)
RetWord(a) == IF a.ret = "iter_with_close" THEN "iterator" ELSE IF a.ret = "iterable_with_close" THEN "iterable" ELSE a.ret
ShapeCtx(a) ==
    (IF a.start = "lazy" THEN "lazy-start-" \o RetWord(a)
     ELSE IF a.start = "never" THEN "no-start-response-" \o RetWord(a)
     ELSE "eager-" \o RetWord(a))
    \o (IF a.raise_at = "none" THEN "" ELSE "-raise-" \o a.raise_at)

Escaped(r) == \E i \in DOMAIN r.segs : r.segs[i].raw # r.segs[i].wsgi
PathCtx(r) ==
    (IF r.root.n = 0 THEN "no-root-path"
     ELSE IF r.root.n = Len(r.segs) THEN "root-path-equals-path"
     ELSE "root-path-proper-prefix")
    \o (IF Escaped(r) THEN "-escaped" ELSE "")

(* small self-checks of the oracle, evaluated by TLC at start-up *)
TestReq == [kind |-> "http", method |-> "GET",
            segs |-> <<[raw |-> "/app", wsgi |-> "/app"], [raw |-> "/a%20b", wsgi |-> "/a b"]>>,
            root |-> [kind |-> "prefix", n |-> 1], query |-> "", version |-> "1.1",
            headers |-> <<[name |-> "x-a", upper |-> "X_A", value |-> "1"],
                          [name |-> "content-type", upper |-> "CONTENT_TYPE", value |-> "t/p"],
                          [name |-> "x-a", upper |-> "X_A", value |-> "2"]>>,
            max_body |-> 2, body |-> <<1, 1>>]
ASSUME ExpectedScriptName(TestReq) = "/app"
ASSUME ExpectedPathInfos(TestReq) = {"/a b"}
ASSUME ExpectedPathInfos([TestReq EXCEPT !.root.n = 2]) = {"", "/"}
ASSUME ExpectedScriptName([TestReq EXCEPT !.root.n = 0]) = ""
ASSUME ExpectedPathInfos([TestReq EXCEPT !.root.n = 0]) = {"/app/a b"}
ASSUME HttpKeys(TestReq) = {"HTTP_X_A"}
ASSUME ExpectedVar(TestReq, "HTTP_X_A") = {"1,2", "1, 2"}
ASSUME ExpectedVar(TestReq, "CONTENT_TYPE") = {"t/p"}
ASSUME ExpectedVar(TestReq, "CONTENT_LENGTH") = {""}
ASSUME ExpectedCalled(TestReq) = 1
ASSUME ExpectedCalled([TestReq EXCEPT !.body = <<1, 1, 1>>]) = 0
ASSUME ExpectedProtocol(TestReq) = "HTTP/1.1"

(* ======================================================================= *)
(* Part 2: the adapter as a state machine                                  *)
(* ======================================================================= *)
Segs == <<[raw |-> "/a", wsgi |-> "/a"], [raw |-> "/b", wsgi |-> "/b"]>>
Requests ==
    [kind : {"http", "websocket"}, method : {"GET"}, segs : {Segs},
     root : [kind : {"prefix"}, n : 0..2] \cup [kind : {"mismatch"}, n : {0}],
     query : {""}, version : {"1.1"}, headers : {<<>>},
     max_body : {0, 2},
     body : {<<0>>, <<1>>, <<2>>, <<3>>, <<1, 1>>, <<2, 0>>, <<2, 1>>, <<1, 0, 1>>, <<3, 5>>}]
Shapes ==
    {a \in [start : {"eager", "lazy", "never"}, ret : {"list", "generator", "iter_with_close", "iterable_with_close"},
            chunks : {<<>>, <<0>>, <<3>>, <<3, 0, 5>>},
            raise_at : {"none", "before_start", "after_start", "mid_iteration"},
            status : {"200 OK"}, code : {200}, headers : {<<>>}] : ValidShape(a)}

StInit == [pc |-> "recv", i |-> 1, got |-> 0, called |-> 0, started |-> FALSE,
           hasIter |-> FALSE, entered |-> FALSE, k |-> 0,
           status |-> 0, nstart |-> 0, sent |-> <<>>, final |-> FALSE,
           closes |-> 0, err |-> FALSE, wsClosed |-> FALSE, wsAccepted |-> FALSE]

Init == req \in Requests /\ app \in Shapes /\ st = StInit

On(d) == d \in Dev

(* a WebSocket scope: websocket.close, the application is never involved *)
WsRefuse ==
    /\ st.pc = "recv" /\ req.kind = "websocket"
    /\ st' = [st EXCEPT !.wsClosed = TRUE, !.pc = "done"]

(* await receive(); body.extend(...); over the limit -> 400 *)
Recv ==
    /\ st.pc = "recv" /\ req.kind = "http"
    /\ LET got == st.got + req.body[st.i]
           over == IF On("GeLimit") THEN got >= req.max_body ELSE got > req.max_body
       IN st' = IF over THEN [st EXCEPT !.got = got, !.pc = "reject"]
                ELSE IF st.i = Len(req.body) THEN [st EXCEPT !.got = got, !.pc = "environ"]
                ELSE [st EXCEPT !.got = got, !.i = st.i + 1]

Reject ==
    /\ st.pc = "reject"
    /\ st' = [st EXCEPT !.status = 400, !.nstart = 1, !.final = TRUE, !.pc = "done"]

(* _build_environ: a path outside root_path is answered 404 *)
Environ ==
    /\ st.pc = "environ"
    /\ st' = IF req.root.kind = "mismatch"
             THEN [st EXCEPT !.status = 404, !.nstart = 1, !.final = TRUE, !.pc = "done"]
             ELSE [st EXCEPT !.pc = "call"]

(* run_app in a worker thread: the callable runs *)
Call ==
    /\ st.pc = "call"
    /\ LET s1 == [st EXCEPT !.called = st.called + 1]
           started == app.start = "eager" /\ app.raise_at # "before_start"
       IN st' = IF RaisesInCall(app)
                THEN [s1 EXCEPT !.started = started, !.err = TRUE, !.pc = "fail"]
                ELSE IF On("EarlyStartCheck") /\ ~started
                THEN \* pinned code: "WSGI app did not call start_response", close() skipped
                     [s1 EXCEPT !.hasIter = TRUE, !.err = TRUE, !.pc = "fail"]
                ELSE [s1 EXCEPT !.started = started, !.hasIter = TRUE, !.pc = "iter"]

(* the server sends status and headers when the first chunk (or the end of *)
(* the iterable) arrives                                                   *)
WithStart(s) == IF s.nstart = 0 THEN [s EXCEPT !.status = app.code, !.nstart = 1] ELSE s

(* one next() on the iterable *)
Iter ==
    /\ st.pc = "iter"
    /\ LET first == ~st.entered
           lazyNow == first /\ app.start = "lazy"
           raiseNow == \/ lazyNow /\ app.raise_at \in {"before_start", "after_start"}
                       \/ app.raise_at = "mid_iteration" /\ st.k = 1
           started == st.started \/ (lazyNow /\ app.raise_at # "before_start")
           s1 == [st EXCEPT !.entered = TRUE, !.started = started]
       IN st' = IF raiseNow THEN [s1 EXCEPT !.err = TRUE, !.pc = "close"]
                ELSE IF ~started
                THEN \* a chunk or the end without start_response: application error
                     [s1 EXCEPT !.err = TRUE, !.pc = "close"]
                ELSE IF st.k < Len(app.chunks)
                THEN (IF On("DropChunk") /\ st.k = 1
                      THEN [WithStart(s1) EXCEPT !.k = st.k + 1]
                      ELSE [WithStart(s1) EXCEPT !.k = st.k + 1,
                                                 !.sent = Append(st.sent, app.chunks[st.k + 1])])
                ELSE [WithStart(s1) EXCEPT !.pc = "close"]

(* finally: close() if the iterable has one *)
Close ==
    /\ st.pc = "close"
    /\ LET n == IF ~HasClose(app) THEN 0
                ELSE IF On("NoCloseOnError") /\ st.err THEN 0
                ELSE IF On("DoubleClose") THEN 2 ELSE 1
       IN st' = [st EXCEPT !.closes = st.closes + n, !.pc = IF st.err THEN "fail" ELSE "finish"]

Finish ==
    /\ st.pc = "finish"
    /\ st' = [st EXCEPT !.final = TRUE, !.pc = "done"]

(* the exception leaves the adapter; the server answers 500 *)
Fail ==
    /\ st.pc = "fail"
    /\ st' = [st EXCEPT !.pc = "done"]

Next == /\ (WsRefuse \/ Recv \/ Reject \/ Environ \/ Call \/ Iter \/ Close \/ Finish \/ Fail)
        /\ UNCHANGED <<req, app>>

Spec == Init /\ [][Next]_vars /\ WF_vars(Next)

(* ---- invariants: the state machine agrees with the oracle ---------------- *)
Done == st.pc = "done"

TypeOK == /\ st.pc \in {"recv", "reject", "environ", "call", "iter", "close", "finish", "fail", "done"}
          /\ st.called \in 0..2 /\ st.closes \in 0..2 /\ st.k \in 0..Len(app.chunks)

CalledAtMostOnce == st.called <= 1
CalledAsExpected == (Done /\ Specified(req)) => st.called = ExpectedCalled(req)
Reject400IffOverLimit ==
    (Done /\ req.kind = "http") => ((st.status = 400 /\ st.called = 0 /\ st.final) <=> OverLimit(req))
WebSocketRefused ==
    (Done /\ req.kind = "websocket") => (st.wsClosed /\ ~st.wsAccepted /\ st.called = 0)
CloseAtMostOnce == st.closes <= 1
CloseExactlyOnce == (Done /\ st.called = 1) => st.closes = ExpectedClose(app)
CloseOnlyAfterReturn == st.closes > 0 => st.hasIter
ResponseUnchanged ==
    (Done /\ st.called = 1 /\ ExpectsResponse(app)) =>
        /\ st.status = app.code /\ st.nstart = 1
        /\ st.sent = app.chunks /\ Sum(st.sent) = ExpectedTotal(app)
        /\ st.final /\ ~st.err
NoResponseStartWithoutStartResponse == (st.called = 1 /\ st.nstart > 0) => st.started
NothingAfterFinal == st.final => st.pc = "done"

Termination == <>Done
=============================================================================
