SPECIFICATION Spec
CONSTANTS
  MaxMsgs = 3
  MaxSize = 3
  Limit = 2
  Dev <- NoDev
INVARIANT InOrderOnce
INVARIANT OverLimitNeverDelivered
INVARIANT Close1009
INVARIANT NoCrash
INVARIANT DisconnectCode
INVARIANT OneDisconnect
INVARIANT NoStrayFrames
INVARIANT OneAnswer
CHECK_DEADLOCK FALSE
