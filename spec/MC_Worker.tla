---------------------------- MODULE MC_Worker ----------------------------
(* Bounded instances of Worker (constants that a .cfg file cannot express). *)
EXTENDS Worker

BothWorkers == {"asyncio", "trio"}
OnlyAsyncio == {"asyncio"}
OnlyTrio == {"trio"}
Conns2 == {1, 2}
Conns3 == {1, 2, 3}
Conns4 == {1, 2, 3, 4}
MaxReqsQuick == {-1, 1}
MaxReqsThorough == {-1, 0, 1, 2}

NoDev == {}
(* the pinned code *)
DevWaitClosed == {"asyncio_wait_closed_unbounded"}          \* violates BoundedShutdown (asyncio)
DevFailedSwallowed == {"lifespan_failed_swallowed_serves"}  \* violates NothingServedAfterFailure (asyncio)
DevTrioReturn == {"trio_return_closes_channel"}             \* violates nothing (see Worker.tla)
CodeDev == DevWaitClosed \cup DevFailedSwallowed \cup DevTrioReturn
(* seeded faults *)
DevServersFirst == {"servers_before_startup"}               \* StartupFirst
DevShutdownEarly == {"shutdown_before_drain"}               \* ShutdownAfterDrainOrGrace
DevSkipTerminated == {"skip_terminated"}                    \* IdleClosedAfterTrigger
DevShutdownStartTO == {"shutdown_waits_startup_timeout"}    \* BoundedShutdown (StartTO > ShutTO)
DevMarkGe == {"mark_request_ge"}                            \* RecycleWindow

Bound == now <= MaxTime
=============================================================================
