---------------------------- MODULE MC_WSock ----------------------------
EXTENDS WSock
NoDev == {}
DevCodeLost == {"client_close_code_lost"}
DevAfterClose == {"messages_after_close_frame"}
DevConnectedEarly == {"connected_before_response"}
DevClosedLate == {"closed_after_refusal"}
=============================================================================
