SPECIFICATION Spec
CONSTANTS
  Streams <- TwoStreams
  MaxChunks = 3
  Chunk = 2
  InitWin = 1
  ConnWin = 4
  MaxCredit = 8
  Dev <- CodeDev
CHECK_DEADLOCK FALSE
