SPECIFICATION Spec
CONSTANTS
  Streams <- OneStream
  MaxChunks = 5
  Chunk = 2
  InitWin = 0
  ConnWin = 0
  MaxCredit = 0
  Faults = {"rst", "close"}
  Dev <- NoDev
INVARIANT TypeOK
INVARIANT Bounded
INVARIANT NoStuckSend
CHECK_DEADLOCK FALSE
