SPECIFICATION Spec
CONSTANTS
  MaxReq = 2
  MaxBody = 2
  QueueCap = 1
  KAMax = 2
  KATimeout = 2
  MaxT = 6
  Plans <- AllPlans
  Dev <- CodeDev
  Faults = {"eof", "reset", "fail", "term"}
CONSTRAINT Bound
CHECK_DEADLOCK FALSE
