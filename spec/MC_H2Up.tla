------------------------------- MODULE MC_H2Up -------------------------------
EXTENDS H2Up
TwoStreams == {1, 3}
NoDev == {}
CodeDev == {"put_blocks_after_close"}
DevNoAckGone == {"no_ack_when_stream_gone"}
DevAckBody == {"ack_body_length_only"}
=============================================================================
