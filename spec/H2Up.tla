-------------------------------- MODULE H2Up --------------------------------
(***************************************************************************)
(* Design specification of the HTTP/2 *receive* side of one connection of   *)
(* hypercorn (protocol/h2.py, H2Protocol._handle_events: DataReceived ->    *)
(* streams[id].handle(Body) -> HTTPStream.app_put on the bounded            *)
(* application queue -> acknowledge_received_data), the counterpart of      *)
(* H2Conn.tla (send side):                                                  *)
(*                                                                         *)
(*   client --DATA (flow controlled)--> reader --Body--> queue[s] --> app   *)
(*      ^                                   |                               *)
(*      +------ WINDOW_UPDATE (credit) <----+  for what was delivered, and   *)
(*                                             for what was discarded        *)
(*                                                                         *)
(* Units: one DATA frame carries one unit of body and `pad` units of        *)
(* padding; both count against the stream and the connection window.        *)
(* There is ONE reader per connection: while it is parked in the put of a   *)
(* message for one stream nothing is read for any stream.                   *)
(*                                                                         *)
(* Deviation switches (constant Dev):                                       *)
(*  "put_blocks_after_close"  (behaviour of the pinned code, F06a / F06c)   *)
(*        a put on the queue of a stream whose application has answered     *)
(*        and will never read again blocks for good - the reader's put of   *)
(*        the next body message, and the put of http.disconnect inside the  *)
(*        application's own final send                                      *)
(*  "no_ack_when_stream_gone" (seeds C04b, C09d, C05f) DATA for a stream    *)
(*        the server has dropped is discarded without credit                *)
(*  "ack_body_length_only"    (seed C01b) credit for the body bytes only,   *)
(*        not for the flow-controlled length (padding)                      *)
(***************************************************************************)
EXTENDS Naturals, Integers, Sequences, FiniteSets, TLC

CONSTANTS Streams,      \* stream identifiers
          Upload,       \* body units each client request carries
          ConnWin,      \* connection receive window (units)
          StreamWin,    \* stream receive window (units)
          QCap,         \* max_app_queue_size
          MaxPad,       \* largest padding of a frame (units)
          Dev

VARIABLES
    csent,      \* [s -> body units the client has sent]
    cwin,       \* connection window as the client knows it
    swin,       \* [s -> stream window as the client knows it]
    net,        \* DATA frames in flight to the server: <<s, pad>>
    q,          \* [s -> messages waiting in the application's queue]
    got,        \* [s -> body units the application has received]
    app,        \* [s -> "run" | "parked" (inside its final send, for good) | "done"]
    open,       \* [s -> the server still has the stream in its table]
    rpc,        \* reader: <<"idle">> | <<"put", s, cost>>
    owed,       \* credit acknowledged and not yet on the wire: [conn |-> n, str |-> [s -> n]]
    lost        \* history: flow-controlled units consumed without credit
vars == <<csent, cwin, swin, net, q, got, app, open, rpc, owed, lost>>

D(x) == x \in Dev
Cost(pad) == 1 + pad
Idle == rpc = <<"idle">>

Init ==
    /\ csent = [s \in Streams |-> 0] /\ cwin = ConnWin /\ swin = [s \in Streams |-> StreamWin]
    /\ net = <<>> /\ q = [s \in Streams |-> 0] /\ got = [s \in Streams |-> 0]
    /\ app = [s \in Streams |-> "run"] /\ open = [s \in Streams |-> TRUE]
    /\ rpc = <<"idle">> /\ owed = [conn |-> 0, str |-> [s \in Streams |-> 0]] /\ lost = 0

(* ---- client -------------------------------------------------------------- *)
ClientSend(s, pad) ==
    /\ csent[s] < Upload /\ Cost(pad) <= cwin /\ Cost(pad) <= swin[s]
    /\ csent' = [csent EXCEPT ![s] = @ + 1]
    /\ cwin' = cwin - Cost(pad) /\ swin' = [swin EXCEPT ![s] = @ - Cost(pad)]
    /\ net' = Append(net, <<s, pad>>)
    /\ UNCHANGED <<q, got, app, open, rpc, owed, lost>>

(* ---- server: the connection's reader -------------------------------------- *)
Ack(s, pad) ==      \* connection.acknowledge_received_data(flow_controlled_length, stream_id)
    LET c == IF D("ack_body_length_only") THEN 1 ELSE Cost(pad) IN
    /\ owed' = [conn |-> owed.conn + c, str |-> [owed.str EXCEPT ![s] = @ + c]]
    /\ lost' = lost + (Cost(pad) - c)
NoAck(pad) == owed' = owed /\ lost' = lost + Cost(pad)

Read ==             \* one DataReceived event
    /\ Idle /\ net # <<>>
    /\ LET s == Head(net)[1] pad == Head(net)[2] IN
       /\ net' = Tail(net)
       /\ IF open[s]
          THEN IF q[s] < QCap
               THEN q' = [q EXCEPT ![s] = @ + 1] /\ Ack(s, pad) /\ UNCHANGED rpc
               ELSE rpc' = <<"put", s, pad>> /\ UNCHANGED <<q, owed, lost>>      \* parked in app_put
          ELSE \* KeyError: "response sent before full request received, nothing to do already closed"
               /\ UNCHANGED <<q, rpc>>
               /\ IF D("no_ack_when_stream_gone") THEN NoAck(pad) ELSE Ack(s, pad)
    /\ UNCHANGED <<csent, cwin, swin, got, app, open>>

ReaderPut ==        \* room in the queue: the parked put completes, the data is acknowledged
    /\ rpc[1] = "put" /\ q[rpc[2]] < QCap
    /\ q' = [q EXCEPT ![rpc[2]] = @ + 1] /\ Ack(rpc[2], rpc[3]) /\ rpc' = <<"idle">>
    /\ UNCHANGED <<csent, cwin, swin, net, got, app, open>>

ReaderReleased ==   \* intended design: the stream was closed under the parked put - the message is dropped
    /\ ~D("put_blocks_after_close")
    /\ rpc[1] = "put" /\ ~open[rpc[2]]
    /\ Ack(rpc[2], rpc[3]) /\ rpc' = <<"idle">>
    /\ UNCHANGED <<csent, cwin, swin, net, q, got, app, open>>

Flush ==            \* _flush(): the WINDOW_UPDATE frames reach the client
    /\ owed.conn > 0 \/ \E s \in Streams : owed.str[s] > 0
    /\ cwin' = cwin + owed.conn
    /\ swin' = [s \in Streams |-> swin[s] + owed.str[s]]
    /\ owed' = [conn |-> 0, str |-> [s \in Streams |-> 0]]
    /\ UNCHANGED <<csent, net, q, got, app, open, rpc, lost>>

(* ---- applications ---------------------------------------------------------- *)
AppRecv(s) ==
    /\ app[s] = "run" /\ q[s] > 0
    /\ q' = [q EXCEPT ![s] = @ - 1] /\ got' = [got EXCEPT ![s] = @ + 1]
    /\ UNCHANGED <<csent, cwin, swin, net, app, open, rpc, owed, lost>>

(* the response is completed (whatever has been read of the request): the stream is closed for the server, *)
(* http.disconnect is put on the application's queue by the application's own final send                  *)
AppAnswer(s) ==
    /\ app[s] = "run"
    /\ open' = [open EXCEPT ![s] = FALSE]
    /\ IF q[s] < QCap \/ ~D("put_blocks_after_close")
       THEN app' = [app EXCEPT ![s] = "done"]
       ELSE app' = [app EXCEPT ![s] = "parked"]
    /\ UNCHANGED <<csent, cwin, swin, net, q, got, rpc, owed, lost>>

ServerNext == Read \/ ReaderPut \/ ReaderReleased \/ Flush
Next == ServerNext \/ (\E s \in Streams : AppRecv(s) \/ AppAnswer(s) \/ \E pad \in 0..MaxPad : ClientSend(s, pad))
Spec == Init /\ [][Next]_vars /\ WF_vars(ServerNext)

(* ===================== properties ===================== *)
RECURSIVE InFlight(_)
InFlight(fs) == IF fs = <<>> THEN 0 ELSE Cost(Head(fs)[2]) + InFlight(Tail(fs))
Held == IF rpc[1] = "put" THEN Cost(rpc[3]) ELSE 0

TypeOK ==
    /\ csent \in [Streams -> 0..Upload] /\ cwin \in 0..ConnWin /\ swin \in [Streams -> 0..StreamWin]
    /\ q \in [Streams -> 0..QCap] /\ got \in [Streams -> 0..Upload]
    /\ app \in [Streams -> {"run", "parked", "done"}] /\ open \in [Streams -> BOOLEAN]

(* C01 / C09 / C05: every flow-controlled unit the client spent is in flight, held by the parked reader, owed, or *)
(* back in its window - none is lost                                                                             *)
CreditConserved == lost = 0 /\ cwin + InFlight(net) + Held + owed.conn = ConnWin

(* C04 (a request on one stream affects at most its own stream) / C08: the one reader of the connection is never *)
(* parked for good - on the queue of an application that will not read again                                     *)
ReaderNeverStuck == ~ENABLED ServerNext => (rpc[1] = "put" => app[rpc[2]] = "run")

(* C05/C06/C07 (F06a): an application's final send always returns *)
FinalSendReturns == \A s \in Streams : app[s] # "parked"

(* liveness, under fairness of the server's own steps: a client that has something left to send to an       *)
(* application that keeps reading is eventually given the credit to send it                                  *)
Quiescent == ~ENABLED ServerNext
CanSend(s) == cwin >= 1 /\ swin[s] >= 1
NoStarvation ==
    Quiescent => \A s \in Streams :
        (csent[s] < Upload /\ app[s] = "run" /\ q[s] = 0 /\ (\A t \in Streams : q[t] = 0 \/ app[t] # "run" \/ t = s))
            => CanSend(s)
=============================================================================
