------------------------------- MODULE C18W ------------------------------
(***************************************************************************)
(* C18 (worker part) - worker recycling after max_requests (+ jitter).     *)
(* Monitor over worker-level traces (harness/worker_env.py).               *)
(*                                                                         *)
(* The number of requests the worker "has taken on" when it begins its     *)
(* graceful exit (trigger source max_requests = context.terminate set) is  *)
(* bracketed by two independent counts: `sent` - complete requests written *)
(* by the clients so far (upper bound), `started` - http application       *)
(* scopes created so far (lower bound; the scope of the request that sets  *)
(* the flag is created right after it).  The jitter actually drawn is in   *)
(* the trace (w_ctx.max_eff) for diagnosis only: the statement allows any  *)
(* jitter in 0..max_requests_jitter, so the monitor accepts the window.    *)
(*                                                                         *)
(*   recycle-early  exit began although sent <= max_requests (or although  *)
(*                  max_requests is not configured)                        *)
(*   recycle-late   started > max_requests + jitter + 1 and no exit began  *)
(***************************************************************************)
EXTENDS Naturals, Integers, Sequences, FiniteSets, TLC

F(clause, ctx) == <<clause, ctx>>
Add(fails, f) == IF \E i \in 1..Len(fails) : fails[i] = f THEN fails ELSE Append(fails, f)
RECURSIVE Merge(_, _)
Merge(fails, new) == IF new = <<>> THEN fails ELSE Merge(Add(fails, Head(new)), Tail(new))

SInit == [w |-> "?", maxReq |-> -1, jitter |-> 0, sent |-> 0, started |-> 0,
          trig |-> FALSE, ended |-> FALSE, conns |-> {}]

Ctx(s) == s.w \o (IF s.jitter = 0 THEN "/no-jitter" ELSE "/with-jitter")
              \o (IF Cardinality(s.conns) <= 1 THEN "/one-connection" ELSE "/several-connections")

LateNow(s) == s.maxReq >= 0 /\ ~s.trig /\ s.started > s.maxReq + s.jitter + 1

Clauses(s, ev) ==
    CASE ev.e = "trigger" ->
            IF ev.source = "max_requests" /\ ~s.trig
            THEN (IF s.maxReq < 0 THEN <<F("recycle-early", s.w \o "/max-requests-not-configured")>>
                  ELSE IF s.sent <= s.maxReq THEN <<F("recycle-early", Ctx(s))>>
                  ELSE IF s.started > s.maxReq + s.jitter + 1 THEN <<F("recycle-late", Ctx(s))>>
                  ELSE <<>>)
            ELSE IF LateNow(s) THEN <<F("recycle-late", Ctx(s))>> ELSE <<>>
      [] ev.e \in {"quiescent", "winddown", "final", "serve_done"} ->
            (IF LateNow(s) /\ ~s.ended THEN <<F("recycle-late", Ctx(s))>> ELSE <<>>)
            \* ... and the exit that began has to happen: the request count was crossed, yet when every timeout
            \* of the wind-down has run out the worker is still serving
            \o (IF ev.e = "final" /\ s.trig /\ s.maxReq >= 0 /\ ~s.ended
                THEN <<F("recycle-late", Ctx(s) \o "/exit-announced-but-never-made")>> ELSE <<>>)
      [] OTHER -> <<>>

Step(s, ev) ==
    CASE ev.e = "w_open" -> [s EXCEPT !.w = ev.worker, !.maxReq = ev.max_requests, !.jitter = ev.jitter]
      [] ev.e = "c_send" -> [s EXCEPT !.sent = IF ev.complete THEN @ + 1 ELSE @,
                                      !.conns = @ \cup {ev.c}]
      [] ev.e = "app_start" -> IF ev.c # 0 THEN [s EXCEPT !.started = @ + 1] ELSE s
      [] ev.e = "trigger" -> [s EXCEPT !.trig = TRUE]
      [] ev.e = "serve_done" -> [s EXCEPT !.ended = TRUE]
      [] OTHER -> s

MInit == [s |-> SInit, fails |-> <<>>]
MStep(m, ev) == [s |-> Step(m.s, ev), fails |-> Merge(m.fails, Clauses(m.s, ev))]
MFails(m) == m.fails
=============================================================================
