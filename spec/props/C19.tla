------------------------------- MODULE C19 -------------------------------
(***************************************************************************)
(* C19 - configuration sources agree; binds parse to the intended sockets. *)
(*                                                                         *)
(* "A setting has the same effect whichever way it is supplied - mapping,  *)
(* keyword, Python object or module, Python file, TOML file or command-    *)
(* line flag - and each command-line flag sets exactly its own setting to  *)
(* exactly the given value and nothing else.  Bind strings (host:port,     *)
(* bare host, [IPv6]:port, unix:path, fd://n) produce sockets of the       *)
(* intended family, address and type, root_path is normalised without a    *)
(* trailing slash, and the server's response headers are a well-formed RFC *)
(* 7231 date plus the server/alt-svc values the configuration asks for."   *)
(*                                                                         *)
(* The oracle (settings, flag -> setting table, Norm, Effective, expected  *)
(* socket, ResponseHeaders) is spec/Config.tla, transcribed from the       *)
(* documentation.  A trace (harness/adapters/c19.py) is one "case" event   *)
(* [e, kind, inp] followed by "result" events [e, kind, out] recorded from *)
(* the real code.  An effective configuration is observed as the sequence  *)
(* of canonical reprs of every setting in KeyTable order; the defaults are *)
(* observed from a fresh Config() and travel in the case event.            *)
(*                                                                         *)
(*   kind      inp                                 out                     *)
(*   load      loader, assign, defaults            loader, outcome, values *)
(*   agree     loaders, assign, defaults           loader, outcome, values *)
(*   cli       file[loader, assign], app, flags,   flags, outcome, values  *)
(*             defaults                            (first result: the same *)
(*                                                 start without options;  *)
(*                                                 pairs: then each alone) *)
(*   rootpath  loader, val                         outcome, value          *)
(*   bind      via, binds                          outcome, socks          *)
(*   headers   date, server, alt, protocol, now    outcome, headers,       *)
(*                                                 date_wellformed         *)
(*                                                                         *)
(* Clauses: wrong-value, side-effect, sources-disagree, bind-family,       *)
(* bind-type, bind-address, root-path, headers, date-malformed.            *)
(* Not demanded (the statement is silent): the port of a bare host, the    *)
(* order between different header names, the case of header names, int vs  *)
(* float representation of a number (the harness canonicalises 5.0 to 5),  *)
(* which of two spellings of the same setting wins, repeated options.      *)
(***************************************************************************)
EXTENDS Naturals, Integers, Sequences, FiniteSets, TLC

INSTANCE Config WITH cur <- 0

F(clause, ctx) == <<clause, ctx>>

RECURSIVE Collect(_, _)
Collect(f, n) == IF n = 0 THEN <<>> ELSE Collect(f, n - 1) \o f[n]

KeyNames(assign) ==
  IF Len(assign) = 0 THEN "<none>"
  ELSE IF Len(assign) = 1 THEN assign[1].key
  ELSE IF Len(assign) = 2 THEN assign[1].key \o "+" \o assign[2].key
  ELSE "<several>"
FlagNames(names) ==
  IF Len(names) = 0 THEN "<no-flag>"
  ELSE IF Len(names) = 1 THEN names[1]
  ELSE IF Len(names) = 2 THEN names[1] \o "," \o names[2]
  ELSE "<several>"
AssignedKeys(assign) == {assign[j].key : j \in 1..Len(assign)}

(* ---- a loader other than the command line -------------------------------- *)
CheckLoad(inp, out) ==
  LET exp == Effective(inp.defaults, inp.assign)
      names == KeyNames(inp.assign)
      one(i) == IF out.values[i] = exp[i] THEN <<>>
                ELSE IF Keys[i] \in AssignedKeys(inp.assign)
                     THEN <<F("wrong-value", out.loader \o ":" \o Keys[i])>>
                     ELSE <<F("side-effect", out.loader \o ":" \o names \o ":" \o Keys[i])>>
  IN IF out.outcome # "ok" THEN <<F("wrong-value", out.loader \o ":" \o names \o ":" \o out.outcome)>>
     ELSE Collect([i \in 1..NKeys |-> one(i)], NKeys)

(* ---- the same assignment through several loaders -------------------------- *)
CheckAgree(inp, seen, out) ==
  IF Len(seen) = 0 THEN <<>>
  ELSE LET ref == seen[1]
           who == ref.loader \o "~" \o out.loader
           one(i) == IF out.values[i] = ref.values[i] THEN <<>>
                     ELSE <<F("sources-disagree", who \o ":" \o Keys[i])>>
       IN IF out.outcome # ref.outcome
          THEN <<F("sources-disagree", who \o ":" \o KeyNames(inp.assign) \o ":" \o out.outcome)>>
          ELSE IF out.outcome # "ok" THEN <<>>
          ELSE Collect([i \in 1..NKeys |-> one(i)], NKeys)

(* ---- the command line ------------------------------------------------------ *)
(* base: what the start without any option must hand to run() (the configuration file's
   settings and the application); exp: base plus each given option's own setting.
   A trace holds the start without options first, then (for a pair) each option alone,
   then all options together.  A setting no given option owns must keep its base value;
   when the same deviation already shows in an earlier start with fewer options it is
   that start's deviation, so it is reported once, against the smallest set of options. *)
FlagsIn(r) == {r.flags[j] : j \in 1..Len(r.flags)}
CheckCli(inp, seen, out) ==
  LET given == SelectSeq(inp.flags, LAMBDA o : o.flag \in FlagsIn(out))
      base == EffectiveCli(inp.defaults, inp.file.assign, inp.app, <<>>)
      exp == EffectiveCli(inp.defaults, inp.file.assign, inp.app, given)
      names == FlagNames(out.flags)
      owned == {FlagKey(given[j].flag) : j \in 1..Len(given)}
      OwnerOf(k) == IF k \in owned THEN given[CHOOSE j \in 1..Len(given) : FlagKey(given[j].flag) = k].flag
                    ELSE AppFlag
      smaller == {s \in 1..Len(seen) : /\ seen[s].outcome = "ok"
                                        /\ FlagsIn(seen[s]) \subseteq FlagsIn(out)
                                        /\ FlagsIn(seen[s]) # FlagsIn(out)}
      one(i) ==
        IF out.values[i] = exp[i] THEN <<>>
        ELSE IF Keys[i] \in owned \/ Keys[i] = "application_path"
             THEN <<F("wrong-value", "cli:" \o OwnerOf(Keys[i]) \o "->" \o Keys[i])>>
        ELSE IF \E s \in smaller : seen[s].values[i] = out.values[i]
             THEN <<>>
        ELSE <<F("side-effect", "cli:" \o names \o ":" \o Keys[i])>>
  IN IF out.outcome # "ok" THEN <<F("wrong-value", "cli:" \o names \o ":" \o out.outcome)>>
     ELSE Collect([i \in 1..NKeys |-> one(i)], NKeys)

(* ---- root_path -------------------------------------------------------------- *)
CheckRootPath(inp, out) ==
  LET ctx == inp.loader \o ":trail=" \o inp.val.trail IN
  IF out.outcome # "ok" THEN <<F("root-path", ctx \o ":" \o out.outcome)>>
  ELSE IF out.value # Norm("root_path", inp.val).repr THEN <<F("root-path", ctx)>>
  ELSE <<>>

(* ---- binds --------------------------------------------------------------------- *)
CheckBind(inp, out) ==
  LET n == Len(inp.binds)
      ctx(i) == inp.binds[i].shape \o "/" \o inp.via
      all == IF n = 1 THEN ctx(1) ELSE "<several>/" \o inp.via
      one(i) ==
        LET b == inp.binds[i]  s == out.socks[i] IN
        IF s.family # ExpectedFamily(b) THEN <<F("bind-family", ctx(i))>>
        ELSE (IF s.type # ExpectedType(inp.via) THEN <<F("bind-type", ctx(i))>> ELSE <<>>)
          \o (IF ~AddressOK(b, s) THEN <<F("bind-address", ctx(i))>> ELSE <<>>)
  IN IF out.outcome # "ok" THEN <<F("bind-family", all \o ":no-socket:" \o out.outcome)>>
     ELSE IF Len(out.socks) # n THEN <<F("bind-family", all \o ":socket-count")>>
     ELSE Collect([i \in 1..n |-> one(i)], n)

(* ---- response headers -------------------------------------------------------- *)
OnOff(b) == IF b THEN "enabled" ELSE "disabled"
CheckHeaders(inp, out) ==
  LET exp == ResponseHeaders(inp)
      obs == out.headers IN
  IF out.outcome # "ok" THEN <<F("headers", "raised:" \o out.outcome)>>
  ELSE (IF Len(ValuesOf(obs, "date")) # Len(ValuesOf(exp, "date"))
        THEN <<F("headers", "date:" \o OnOff(inp.date))>> ELSE <<>>)
    \o (IF ValuesOf(obs, "server") # ValuesOf(exp, "server")
        THEN <<F("headers", "server:" \o OnOff(inp.server))>> ELSE <<>>)
    \o (IF ValuesOf(obs, "alt-svc") # ValuesOf(exp, "alt-svc")
        THEN <<F("headers", "alt-svc")>> ELSE <<>>)
    \o (IF \E i \in 1..Len(obs) : obs[i].name \notin HeaderNames
        THEN <<F("headers", "unexpected-header")>> ELSE <<>>)
    \o (IF inp.date /\ Len(ValuesOf(obs, "date")) > 0 /\ ~out.date_wellformed
        THEN <<F("date-malformed", "date-header")>> ELSE <<>>)

(* ---- monitor ------------------------------------------------------------------ *)
Check(m, out) ==
  CASE m.kind = "load"     -> CheckLoad(m.inp, out)
    [] m.kind = "agree"    -> CheckAgree(m.inp, m.seen, out)
    [] m.kind = "cli"      -> CheckCli(m.inp, m.seen, out)
    [] m.kind = "rootpath" -> CheckRootPath(m.inp, out)
    [] m.kind = "bind"     -> CheckBind(m.inp, out)
    [] m.kind = "headers"  -> CheckHeaders(m.inp, out)
    [] OTHER -> <<>>

MInit == [fails |-> <<>>, kind |-> "", inp |-> <<>>, seen |-> <<>>]
MStep(m, ev) ==
  IF ev.e = "case" THEN [fails |-> m.fails, kind |-> ev.kind, inp |-> ev.inp, seen |-> <<>>]
  ELSE IF ev.e = "result" /\ ev.kind = m.kind
       THEN [m EXCEPT !.fails = @ \o Check(m, ev.out), !.seen = Append(@, ev.out)]
  ELSE m
MFails(m) == m.fails
=============================================================================
