------------------------------- MODULE C02 -------------------------------
(***************************************************************************)
(* C02 - HTTP response delivery fidelity and legal framing.                *)
(*                                                                         *)
(* What the application passed to send() (app_call events) defines the     *)
(* expected response; what the independent client parser recovered (wire   *)
(* events) must equal it.  Applies to responses the application produced   *)
(* (server-generated 4xx/5xx are C04/C05/C06 business).                    *)
(*                                                                         *)
(* Clauses: status, headers, server-headers-only, body-order, body-bytes,  *)
(* body-length (incl. suppression exactly for HEAD/1xx/204/304), end-once, *)
(* end-early, flushed, end-missing, trailers-gated, well-formed,           *)
(* send-raised (a valid send on a healthy connection raised), response-cut *)
(* (the server closed the connection under a response in progress).        *)
(***************************************************************************)
EXTENDS Obs

ServerOwn == {"date", "server", "alt-svc", "connection", "transfer-encoding"}

Prefix(app, wireh) ==
    /\ Len(app) <= Len(wireh)
    /\ \A i \in 1..Len(app) : wireh[i][1] = app[i][1] /\ wireh[i][2] = app[i][2]

OnlyServer(app, wireh) ==
    \A i \in (Len(app) + 1)..Len(wireh) : wireh[i][3] \in ServerOwn

ExpLen(o, a) == IF SuppressBody(Req(o, a).method, App(o, a).status) THEN 0 ELSE App(o, a).called

Clauses(o, ev, o2) ==
    CASE ev.e = "wire" ->
            LET a == ev.app s == App(o, a) w == Wire(o, a) IN
            CASE ev.kind = "error" -> <<F("well-formed", a)>>
              [] ev.kind = "head" /\ s.rstart /\ ~o.cerr ->
                    (IF ev.status = s.status THEN <<>> ELSE <<F("status", a)>>)
                 \o (IF Prefix(s.hdrs, ev.headers) THEN <<>> ELSE <<F("headers", a)>>)
                 \o (IF Len(s.hdrs) > Len(ev.headers) \/ OnlyServer(s.hdrs, ev.headers) THEN <<>>
                     ELSE <<F("server-headers-only", a)>>)
                 \o (IF w.heads = 0 THEN <<>> ELSE <<F("end-once", a)>>)
              [] ev.kind = "data" /\ s.rstart /\ ~o.cerr ->
                    (IF ev.off = w.got THEN <<>> ELSE <<F("body-order", a)>>)
                 \o (IF ev.match THEN <<>> ELSE <<F("body-bytes", a)>>)
                 \o (IF w.ends = 0 THEN <<>> ELSE <<F("end-once", a)>>)
              [] ev.kind = "end" /\ s.rstart /\ ~o.cerr ->
                    (IF w.ends = 0 THEN <<>> ELSE <<F("end-once", a)>>)
                 \o (IF w.got = ExpLen(o, a) THEN <<>> ELSE <<F("body-length", a)>>)
                 \o (IF s.final \/ w.framing \in {"cl", "none"} \/ Has(ev, "by") THEN <<>>
                     ELSE <<F("end-early", a)>>)
              [] ev.kind = "trailers" ->
                    IF Req(o, a).ver = "2" /\ Has(Req(o, a).c, "te") /\ Req(o, a).c.te THEN <<>>
                    ELSE <<F("trailers-gated", a)>>
              [] OTHER -> <<>>
      [] ev.e = "t_close" ->
            \* the server closed under a response the application was still producing, although
            \* nothing had gone wrong (no client error, peer present, no shutdown, application healthy)
            IF /\ ~o.gone /\ ~o.reset /\ ~o.tfail /\ ~o.cerr /\ ~o.shut /\ ~o.winddown /\ ~o.illegal /\ o.goaway = 0
               /\ \E a \in DOMAIN o.apps :
                     /\ Req(o, a).known /\ Req(o, a).kind = "http" /\ ~Req(o, a).bad /\ ~Req(o, a).rst
                     /\ App(o, a).done = "" /\ App(o, a).sendExc = 0 /\ App(o, a).disc = 0
                     /\ (App(o, a).rstart \/ App(o, a).parked = "send")
                     /\ (~App(o, a).final \/ (Wire(o, a).ends = 0 /\ ~o.paused /\ Wire(o, a).framing # "close"))
                     /\ \A b \in DOMAIN o.apps : App(o, b).done \in {"", "return"} /\ App(o, b).sendExc = 0
            THEN <<F("response-cut", IF ParkedPipeline(o) THEN "pipelined-request-pending" ELSE o.cfg.carrier)>> ELSE <<>>
      [] ev.e = "app_ret" ->
            LET s == App(o, ev.app) IN
            IF ev.outcome # "ok" /\ Req(o, ev.app).known /\ (~Has(s.lastCall, "cls") \/ s.lastCall.cls = "ok")
               /\ Connected(o) /\ ~o.cerr /\ s.disc = 0 /\ ~Req(o, ev.app).rst
            THEN <<F("send-raised", s.lastCall.type)>> ELSE <<>>
      [] ev.e = "quiescent" ->
            LET Settled(a) ==
                    LET s == App(o, a) r == Req(o, a) IN
                    \* (a disconnect handed to the application after its last message is how every exchange ends;
                    \*  only one that came earlier makes its sends no-ops)
                    /\ r.known /\ s.rstart /\ (s.parked # "send" \/ r.ver = "2") /\ s.sendExc = 0 /\ ~s.discEarly
                    /\ Connected(o) /\ ~o.paused /\ ~o.cerr /\ ~r.rst
                    /\ (r.ver # "2" \/ (SWin(o, a) > 0 /\ o.cwin > 0))
                Unflushed(a) == Settled(a) /\ Wire(o, a).got # ExpLen(o, a) /\ Wire(o, a).ends = 0
                NoEnd(a) == Settled(a) /\ App(o, a).final /\ ~App(o, a).trailersFlag /\ Wire(o, a).ends = 0
                \* (with trailers announced the end comes with the last trailers message, as soon as it is handed over)
                NoEndTr(a) == LET m == App(o, a).lastCall IN
                              /\ Settled(a) /\ App(o, a).final /\ App(o, a).trailersFlag /\ Wire(o, a).ends = 0
                              /\ m.type = "http.response.trailers" /\ ~(Has(m, "more") /\ m.more)
            IN (IF \E a \in DOMAIN o.apps : Unflushed(a) THEN <<F("flushed", "")>> ELSE <<>>)
            \o (IF \E a \in DOMAIN o.apps : NoEnd(a) THEN <<F("end-missing", "")>> ELSE <<>>)
            \o (IF \E a \in DOMAIN o.apps : NoEndTr(a) THEN <<F("end-missing", "after-trailers")>> ELSE <<>>)
      [] OTHER -> <<>>

MInit == [o |-> OInit, fails |-> <<>>]
MStep(m, ev) == LET o2 == OStep(m.o, ev) IN [o |-> o2, fails |-> m.fails \o Clauses(m.o, ev, o2)]
MFails(m) == m.fails
=============================================================================
