------------------------------- MODULE C05 -------------------------------
(***************************************************************************)
(* C05 - application failures are contained and never yield a falsely      *)
(* complete response.                                                      *)
(*                                                                         *)
(* When an application instance ends (app_done how = raise | return) the   *)
(* monitor records an obligation that is evaluated at the next quiescent   *)
(* point:                                                                  *)
(*   no-500            nothing had been started: a complete 500 must be on *)
(*                     the wire                                            *)
(*   not-terminated    response started, not finished, incompleteness      *)
(*                     expressible: HTTP/1 transport closed / HTTP/2 RST   *)
(*   falsely-complete  ... and the response must never parse as complete   *)
(*   not-logged        a raise must produce an exception log record        *)
(*   collateral        other instances of the connection that behaved      *)
(*                     still get their complete response                   *)
(***************************************************************************)
EXTENDS Obs

(* private state: obligations created by app_done *)
PInit == [due |-> {}, aborted |-> {}, excAt |-> 0]

Healthy(o) == Connected(o) /\ ~o.cerr /\ ~o.paused

Obl(o, ev) ==
    LET a == ev.app s == App(o, a) r == Req(o, a) w == Wire(o, a) IN
    IF ~(ev.how \in {"raise", "return", "self-cancel"}) \/ ~r.known \/ r.kind # "http" \/ s.disc > 0 \/ ~Healthy(o)
       \/ r.rst
    THEN {}
    \* (a response start the server refused - no send of this instance ever succeeded - started nothing)
    ELSE (IF (~s.rstart \/ s.sendOk = 0) /\ w.heads = 0 THEN {<<"no-500", a>>} ELSE {})
    \cup (IF s.rstart /\ s.sendOk > 0 /\ ~s.final /\ w.ends = 0 /\ w.framing # "close" /\ s.sendExc = 0
          THEN {<<"not-terminated", a>>} ELSE {})
    \cup (IF ev.how = "raise" THEN {<<"not-logged", a>>} ELSE {})

CheckDue(o, p) ==
    LET Bad(d) ==
          LET a == d[2] w == Wire(o, a) IN
          CASE d[1] = "no-500" -> ~(w.heads = 1 /\ w.status = 500 /\ w.ends = 1)
            [] d[1] = "not-terminated" ->
                  IF Req(o, a).ver = "2" THEN w.rst = 0 /\ o.closedAt < 0 ELSE o.closedAt < 0
            [] d[1] = "not-logged" -> o.excLogs <= p.excAt
            [] OTHER -> FALSE
        Proto(c) == IF UnreadLeft(o) /\ c = "not-terminated" THEN "request-messages-unread"
                    ELSE IF \E d \in p.due : d[1] = c /\ Bad(d) /\ Req(o, d[2]).ver = "2" THEN "h2" ELSE "h1"
        One(c) == IF \E d \in p.due : d[1] = c /\ Bad(d) THEN <<F(c, Proto(c))>> ELSE <<>>
    IN One("no-500") \o One("not-terminated") \o One("not-logged")

Clauses(o, ev, o2, p) ==
    CASE ev.e = "wire" /\ ev.kind = "end" ->
            IF ev.app \in p.aborted /\ ~Has(ev, "by") /\ Wire(o, ev.app).framing # "cl"
            THEN <<F("falsely-complete", IF Req(o, ev.app).ver = "2" THEN "h2" ELSE "h1")>> ELSE <<>>
      [] ev.e = "quiescent" ->
            CheckDue(o, p)
            \o (IF o.final /\ \E a \in DOMAIN o.apps :
                     /\ a \notin p.aborted /\ App(o, a).rstart /\ App(o, a).final /\ App(o, a).sendExc = 0
                     /\ Req(o, a).known /\ Req(o, a).ver = "2" /\ ~Req(o, a).rst
                     /\ App(o, a).done = "return" /\ p.aborted # {} /\ ~o.cerr
                     /\ ~o.gone /\ ~o.reset /\ ~o.tfail /\ App(o, a).disc = 0
                     /\ Wire(o, a).ends = 0
                THEN <<F("collateral", "h2")>> ELSE <<>>)
            \* ... and keep being fed: after an application has ended, the upload of another stream is held up
            \* at window 0 although everything the client has sent was consumed or belongs to requests that are over
            \o (IF ~o.winddown /\ (\E b \in DOMAIN o.apps : App(o, b).done # "")
                   /\ \E a \in DOMAIN o.stalled : UploadStarved(o, a)
                THEN <<F("collateral", "h2-sibling-upload-starved")>> ELSE <<>>)
      [] OTHER -> <<>>

PStep(p, o, ev, o2) ==
    CASE ev.e = "app_done" ->
            LET a == ev.app s == App(o, a) IN
            [p EXCEPT !.due = @ \cup Obl(o, ev),
                      !.excAt = IF ev.how = "raise" THEN o.excLogs ELSE @,
                      !.aborted = IF ev.how \in {"raise", "return", "self-cancel"} /\ s.rstart /\ s.sendOk > 0 /\ ~s.final
                                     /\ Wire(o, a).ends = 0
                                  THEN @ \cup {a} ELSE @]
      [] ev.e = "quiescent" -> [p EXCEPT !.due = {}]
      [] OTHER -> p

MInit == [o |-> OInit, p |-> PInit, fails |-> <<>>]
MStep(m, ev) == LET o2 == OStep(m.o, ev) IN
                [o |-> o2, p |-> PStep(m.p, m.o, ev, o2), fails |-> m.fails \o Clauses(m.o, ev, o2, m.p)]
MFails(m) == m.fails
=============================================================================
