------------------------------- MODULE C01 -------------------------------
(***************************************************************************)
(* C01 - HTTP request delivery fidelity.                                   *)
(*                                                                         *)
(* The client's request is known from the c_req event as *tokens*: the     *)
(* target is a sequence of <<raw, decoded>> pieces, headers are            *)
(* <<name, value, lower-cased name>>.  ExpectedScope is computed here, in  *)
(* TLA+, and compared field by field with the scope the application saw.   *)
(* Body bytes never enter the trace: offsets and lengths are checked here, *)
(* byte equality at the expected offset arrives as the boolean `match`.    *)
(*                                                                         *)
(* Clauses: one-instance, scope-<field>, body-order, body-bytes,           *)
(* body-beyond, after-end, end-iff-complete, body-incomplete,              *)
(* instance-missing, upload-starved.                                       *)
(***************************************************************************)
EXTENDS Obs

RECURSIVE Cat(_, _)
Cat(seq, j) == IF seq = <<>> THEN "" ELSE Head(seq)[j] \o Cat(Tail(seq), j)

QIdx(toks) == IF \E i \in 1..Len(toks) : toks[i][1] = "?"
              THEN CHOOSE i \in 1..Len(toks) : toks[i][1] = "?" /\ \A j \in 1..(i - 1) : toks[j][1] # "?"
              ELSE 0
PathToks(toks)  == IF QIdx(toks) = 0 THEN toks ELSE SubSeq(toks, 1, QIdx(toks) - 1)
QueryToks(toks) == IF QIdx(toks) = 0 THEN <<>> ELSE SubSeq(toks, QIdx(toks) + 1, Len(toks))

ExpRawPath(c) == Cat(PathToks(c.toks), 1)
ExpPath(c)    == Cat(PathToks(c.toks), 2)
ExpQuery(c)   == Cat(QueryToks(c.toks), 1)

(* HTTP/1: names lower-cased unless raw headers are configured, order kept.            *)
(* HTTP/2: host synthesised from :authority (else the host header) and placed first,   *)
(*         other pseudo-headers and the host header dropped.                           *)
RECURSIVE H1Headers(_, _)
H1Headers(hs, raw) ==
    IF hs = <<>> THEN <<>>
    ELSE <<<<IF raw THEN Head(hs)[1] ELSE Head(hs)[3], Head(hs)[2]>>>> \o H1Headers(Tail(hs), raw)

RECURSIVE H2Rest(_)
H2Rest(hs) ==
    IF hs = <<>> THEN <<>>
    ELSE IF Head(hs)[3] = "host" \/ Head(hs)[3] = ":authority" \/ Head(hs)[3] = ":method"
            \/ Head(hs)[3] = ":path" \/ Head(hs)[3] = ":scheme" \/ Head(hs)[3] = ":protocol"
         THEN H2Rest(Tail(hs))
         ELSE <<<<Head(hs)[3], Head(hs)[2]>>>> \o H2Rest(Tail(hs))

HdrVal(hs, lname) == IF \E i \in 1..Len(hs) : hs[i][3] = lname
                     THEN hs[CHOOSE i \in 1..Len(hs) : hs[i][3] = lname /\ \A j \in 1..(i - 1) : hs[j][3] # lname][2]
                     ELSE ""
HasHdr(hs, lname) == \E i \in 1..Len(hs) : hs[i][3] = lname

ExpHeaders(c, cfg) ==
    IF c.ver = "2"
    THEN <<<<"host", IF HasHdr(c.headers, ":authority") THEN HdrVal(c.headers, ":authority")
                     ELSE HdrVal(c.headers, "host")>>>> \o H2Rest(c.headers)
    ELSE H1Headers(c.headers, cfg.rawhdr)

ExpScheme(kind, cfg) == IF kind = "ws" THEN (IF cfg.tls THEN "wss" ELSE "ws")
                        ELSE (IF cfg.tls THEN "https" ELSE "http")

ScopeFails(a, c, cfg, sc) ==
       (IF sc.type = (IF c.kind = "ws" THEN "websocket" ELSE "http") THEN <<>> ELSE <<F("scope-type", a)>>)
    \o (IF c.kind = "ws" \/ sc.method = c.method THEN <<>> ELSE <<F("scope-method", a)>>)
    \o (IF sc.raw_path = ExpRawPath(c) THEN <<>> ELSE <<F("scope-raw_path", a)>>)
    \o (IF sc.path = ExpPath(c) THEN <<>> ELSE <<F("scope-path", a)>>)
    \o (IF sc.query_string = ExpQuery(c) THEN <<>> ELSE <<F("scope-query_string", a)>>)
    \o (IF sc.headers = ExpHeaders(c, cfg) THEN <<>> ELSE <<F("scope-headers", a)>>)
    \o (IF sc.http_version = c.ver THEN <<>> ELSE <<F("scope-http_version", a)>>)
    \o (IF sc.scheme = ExpScheme(c.kind, cfg) THEN <<>> ELSE <<F("scope-scheme", a)>>)
    \o (IF sc.client = cfg.client THEN <<>> ELSE <<F("scope-client", a)>>)
    \o (IF sc.server = cfg.server THEN <<>> ELSE <<F("scope-server", a)>>)
    \o (IF sc.root_path = cfg.root_path THEN <<>> ELSE <<F("scope-root_path", a)>>)

Clauses(o, ev, o2) ==
    CASE ev.e = "app_start" ->
            LET a == ev.app r == Req(o, a) IN
               (IF ev.dup \/ App(o, a).started > 0 THEN <<F("one-instance", a)>> ELSE <<>>)
            \o (IF r.known /\ r.kind \in {"http", "ws"} THEN ScopeFails(a, r.c, o.cfg, ev.sc) ELSE <<>>)
      [] ev.e = "app_recv" /\ ev.type = "http.request" ->
            LET a == ev.app r == Req(o, a) s == App(o, a) s2 == App(o2, a) IN
            IF ~r.known THEN <<>> ELSE
               (IF ev.off = s.recvd THEN <<>> ELSE <<F("body-order", a)>>)
            \o (IF ev.match THEN <<>> ELSE <<F("body-bytes", a)>>)
            \o (IF s2.recvd <= r.body THEN <<>> ELSE <<F("body-beyond", a)>>)
            \o (IF s.ended = 0 THEN <<>> ELSE <<F("after-end", a)>>)
            \o (IF ev.more \/ (r.done /\ s2.recvd = r.total) THEN <<>> ELSE <<F("end-iff-complete", a)>>)
      [] ev.e = "app_recv" /\ ev.type = "http.disconnect" ->
            \* the request was complete and nothing had gone wrong, yet the instance is told about the
            \* disconnect without ever having seen the end of the body
            LET a == ev.app r == Req(o, a) s == App(o, a) IN
            IF /\ r.known /\ r.kind = "http" /\ r.done /\ s.ended = 0 /\ ~r.rst
               /\ ~o.gone /\ ~o.reset /\ ~o.tfail /\ ~o.cerr /\ ~o.shut /\ ~o.winddown
            THEN <<F("body-incomplete", "disconnect-before-end")>> ELSE <<>>
      [] ev.e = "quiescent" ->
            LET Incomplete(a) ==
                    LET r == Req(o, a) s == App(o, a) IN
                    /\ r.known /\ r.kind = "http" /\ s.started > 0 /\ s.parked = "recv" /\ s.disc = 0
                    /\ Connected(o) /\ ~o.cerr /\ ~r.rst
                    /\ (s.recvd # r.body \/ (r.done /\ s.ended = 0))
                Missing(a) ==
                    LET r == Req(o, a) IN
                    /\ r.known /\ r.kind = "http" /\ ~r.bad /\ r.head /\ ~r.rst
                    /\ (r.idx = 1 \/ r.ver = "2"
                        \* a pipelined HTTP/1 request: the exchange before it finished and left the
                        \* connection reusable, and this request is completely buffered
                        \/ (r.idx - 1 <= Len(o.order) /\ r.done
                            /\ Reusable(o, o.order[r.idx - 1]) /\ App(o, o.order[r.idx - 1]).ended > 0))
                    /\ Connected(o) /\ ~o.cerr /\ ~o.shut
                    /\ App(o, a).started = 0
                \* (HTTP/2: another stream's application has answered without taking all of its upload - the one
                \*  reader of the connection may be parked on that queue: F06c)
                Behind(a) == Req(o, a).ver = "2" /\ \E b \in DOMAIN o.apps :
                                /\ b # a /\ Req(o, b).known /\ App(o, b).rstart /\ App(o, b).final
                                /\ App(o, b).recvd < Req(o, b).body
            IN (IF \E a \in DOMAIN o.apps : Incomplete(a) /\ ~Behind(a) THEN <<F("body-incomplete", "")>> ELSE <<>>)
            \o (IF \E a \in DOMAIN o.apps : Incomplete(a) /\ Behind(a)
                THEN <<F("body-incomplete", "sibling-answered-with-upload-unread")>> ELSE <<>>)
            \o (IF \E a \in DOMAIN o.reqs : Missing(a) THEN <<F("instance-missing", "")>> ELSE <<>>)
            \* HTTP/2: the client cannot complete the body because the server keeps back flow-control
            \* credit for data it has already consumed
            \o (IF ~o.winddown /\ \E a \in DOMAIN o.stalled : UploadStarved(o, a)
                THEN <<F("upload-starved", StarvedBy(o, CHOOSE a \in DOMAIN o.stalled : UploadStarved(o, a)))>> ELSE <<>>)
      [] OTHER -> <<>>

MInit == [o |-> OInit, fails |-> <<>>]
MStep(m, ev) == LET o2 == OStep(m.o, ev) IN [o |-> o2, fails |-> m.fails \o Clauses(m.o, ev, o2)]
MFails(m) == m.fails
=============================================================================
