------------------------------- MODULE C16W -------------------------------
(***************************************************************************)
(* C16, WSGI part - a WSGI application script behaves the same under both   *)
(* worker classes.  A trace is <<case, result, case, result>>: the same     *)
(* request and the same WSGI application shape run through the asyncio and  *)
(* the trio adapter of the same kind (worker task group + WSGIWrapper, or   *)
(* the WSGI middleware class), with the same send timing (sends that        *)
(* return at once / sends that suspend like a transport under pressure).    *)
(* What the application was given and what reached the protocol layer must  *)
(* be equal, message for message.                                           *)
(*                                                                         *)
(*  pair-differs   <what>: called | environ | response | order | close |    *)
(*                 exception                                                *)
(***************************************************************************)
EXTENDS Naturals, Integers, Sequences, FiniteSets, TLC

F(clause, ctx) == <<clause, ctx>>
If(cond, fails) == IF cond THEN fails ELSE <<>>

Ctx(c) == c.app.raise_at \o "/" \o c.app.start \o "/" \o c.app.ret \o "/" \o (IF c.slow_send THEN "slow-sends" ELSE "prompt-sends")

Same(c1, c2) == c1.req = c2.req /\ c1.app = c2.app /\ c1.slow_send = c2.slow_send

Compare(c, r1, r2) ==
       If(r1.called # r2.called \/ r1.off_loop # r2.off_loop, <<F("pair-differs", "called/" \o Ctx(c))>>)
    \o If(r1.env # r2.env, <<F("pair-differs", "environ/" \o Ctx(c))>>)
    \o If([r1.resp EXCEPT !.serial = TRUE] # [r2.resp EXCEPT !.serial = TRUE], <<F("pair-differs", "response/" \o Ctx(c))>>)
    \o If(r1.resp.serial # r2.resp.serial, <<F("pair-differs", "order/" \o Ctx(c))>>)
    \o If(r1.close_calls # r2.close_calls, <<F("pair-differs", "close/" \o Ctx(c))>>)
    \o If((r1.exc = "") # (r2.exc = ""), <<F("pair-differs", "exception/" \o Ctx(c))>>)
    \o If(r1.ws # r2.ws, <<F("pair-differs", "websocket/" \o Ctx(c))>>)

MInit == [c |-> [e |-> "none"], r |-> [e |-> "none"], have |-> FALSE, fails |-> <<>>]
MStep(m, ev) ==
    IF ev.e = "case" THEN
        IF m.have /\ ~Same(m.c, ev) THEN [m EXCEPT !.fails = m.fails \o <<F("pair-differs", "not-a-pair")>>]
        ELSE [m EXCEPT !.c = ev]
    ELSE IF ev.e = "result" /\ m.c.e = "case" THEN
        IF m.have THEN [m EXCEPT !.fails = m.fails \o Compare(m.c, m.r, ev), !.have = FALSE]
        ELSE [m EXCEPT !.r = ev, !.have = TRUE]
    ELSE m
MFails(m) == m.fails
=============================================================================
