------------------------------- MODULE C18 -------------------------------
(***************************************************************************)
(* C18 - configured limits are enforced against any client (connection      *)
(* level; the worker-recycling part is C18W.tla).                           *)
(*  incomplete-limit   a request head still incomplete after more than      *)
(*                     h11_max_incomplete_size bytes was not answered 4xx + *)
(*                     close (or reached an application)                    *)
(*  limit-off-by-one   a complete head of at most the limit was rejected    *)
(*  h2-conc-exceeded   more HTTP/2 streams than h2_max_concurrent_streams   *)
(*                     were being served at once                            *)
(*  h2-header-list     a header block beyond h2_max_header_list_size        *)
(*                     reached an application                               *)
(*  ka-max             more than keep_alive_max_requests (one more on       *)
(*                     HTTP/2) requests were served on one connection       *)
(*  ka-max-not-told    the limit was reached but the client was not told to *)
(*                     stop (connection: close / GOAWAY)                    *)
(***************************************************************************)
EXTENDS Obs

IsH2(o) == o.cfg.carrier \in {"h2", "h2prior"}
OpenApps(o) == {a \in DOMAIN o.apps : App(o, a).started > 0 /\ App(o, a).done = "" /\ Wire(o, a).ends = 0
                                      /\ App(o, a).disc = 0}
\* (requests of the client; streams the server pushed on its own account are not "requests served")
Served(o) == Cardinality({a \in DOMAIN o.apps : App(o, a).started > 0 /\ App(o, a).kind # "lifespan" /\ Req(o, a).known})

Clauses(o, ev, o2) ==
    CASE ev.e = "app_start" ->
            LET a == ev.app r == Req(o, a) IN
               (IF r.known /\ r.kind = "oversize" THEN <<F("incomplete-limit", "application-started")>> ELSE <<>>)
            \o (IF r.known /\ r.kind = "bighdr" THEN <<F("h2-header-list", "application-started")>> ELSE <<>>)
            \o (IF IsH2(o) /\ Cardinality(OpenApps(o2)) > o.cfg.h2conc THEN <<F("h2-conc-exceeded", "")>> ELSE <<>>)
            \o (IF Served(o2) > o.cfg.kamax + (IF IsH2(o) THEN 1 ELSE 0) THEN <<F("ka-max", o.cfg.carrier)>> ELSE <<>>)
      [] ev.e = "quiescent" ->
            LET Over(a) == /\ Req(o, a).known /\ Req(o, a).kind = "oversize" /\ ~Req(o, a).head
                           /\ o.fed > o.cfg.maxinc /\ ~o.gone /\ ~o.reset /\ ~o.tfail
                           /\ ~(Wire(o, a).heads = 1 /\ Wire(o, a).status >= 400 /\ Wire(o, a).status < 500 /\ o.closedAt >= 0)
                AtLimit(a) == /\ Req(o, a).known /\ Req(o, a).kind = "atlimit" /\ Req(o, a).head /\ Connected(o)
                              /\ App(o, a).started = 0
                Told == IF IsH2(o) THEN o.goaway > 0 \/ o.closedAt >= 0
                        ELSE \E w \in DOMAIN o.wire : Wire(o, w).close
            IN (IF \E d \in DOMAIN o.reqs : Over(d) THEN <<F("incomplete-limit", "not-rejected")>> ELSE <<>>)
            \o (IF \E b \in DOMAIN o.reqs : AtLimit(b) \/ (Req(o, b).kind = "atlimit" /\ Wire(o, b).heads > 0 /\ Wire(o, b).status >= 400 /\ App(o, b).started = 0)
                THEN <<F("limit-off-by-one", "")>> ELSE <<>>)
            \o (IF Served(o) >= o.cfg.kamax + (IF IsH2(o) THEN 1 ELSE 0) /\ ~Told /\ ~o.gone /\ ~o.reset /\ ~o.tfail
                   /\ (\A c \in DOMAIN o.apps : App(o, c).started > 0 => Wire(o, c).heads > 0)
                THEN <<F("ka-max-not-told", o.cfg.carrier)>> ELSE <<>>)
      [] OTHER -> <<>>

MInit == [o |-> OInit, fails |-> <<>>]
MStep(m, ev) == LET o2 == OStep(m.o, ev) IN [o |-> o2, fails |-> m.fails \o Clauses(m.o, ev, o2)]
MFails(m) == m.fails
=============================================================================
