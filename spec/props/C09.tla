------------------------------- MODULE C09 -------------------------------
(***************************************************************************)
(* C09 - HTTP/2 flow control respected; multiplexed delivery live, ordered. *)
(*                                                                         *)
(* Credit is recomputed from the client's own frames (c_frame wupd /        *)
(* settings as actually sent) and every DATA frame the server wrote is      *)
(* checked against it.                                                      *)
(*  window-overrun      DATA exceeds the stream or connection window        *)
(*  frame-too-large     DATA frame longer than the client's max frame size  *)
(*  data-order          offsets not contiguous / bytes differ               *)
(*  end-once            second END_STREAM, or DATA after END_STREAM         *)
(*  stalled-with-window quiescent, stream not reset, data outstanding,      *)
(*                      both windows positive, yet nothing more was sent    *)
(*  end-missing         all data delivered and the application finished,    *)
(*                      but no END_STREAM                                   *)
(*  upload-starved      a client upload stalled at window 0 although all it  *)
(*                      sent was consumed                                   *)
(*  spinning            the server does not become quiescent                *)
(*  sender-died         the connection's tasks ended with an exception      *)
(*                      although the client sent nothing illegal            *)
(*  end-missing/connection-closed-under-streams   the server closed,        *)
(*                      unprovoked, under a response that was under way     *)
(***************************************************************************)
EXTENDS Obs

IsH2(o) == o.opened /\ o.cfg.carrier \in {"h2", "h2prior"}
ExpLen(o, a) == IF SuppressBody(Req(o, a).method, App(o, a).status) THEN 0 ELSE App(o, a).called

Clauses(o, ev, o2) ==
    IF ~IsH2(o2) THEN <<>> ELSE
    CASE ev.e = "wire" /\ ev.kind = "data" ->
            LET a == ev.app w == Wire(o, a) IN
               (IF ev.flow <= SWin(o, a) /\ ev.flow <= o.cwin THEN <<>>
                ELSE <<F("window-overrun", IF ev.flow > o.cwin THEN "connection" ELSE "stream")>>)
            \o (IF ev.too_big THEN <<F("frame-too-large", "data")>> ELSE <<>>)
            \o (IF ev.off = w.got /\ ev.match THEN <<>> ELSE <<F("data-order", "")>>)
            \o (IF w.ends = 0 THEN <<>> ELSE <<F("end-once", "data-after-end")>>)
      [] ev.e = "wire" /\ ev.kind = "frame" ->
            (IF ev.flow <= SWin(o, ev.app) /\ ev.flow <= o.cwin THEN <<>>
             ELSE <<F("window-overrun", IF ev.flow > o.cwin THEN "connection" ELSE "stream")>>)
            \o (IF ev.too_big THEN <<F("frame-too-large", "data")>> ELSE <<>>)
      [] ev.e = "wire" /\ ev.kind = "end" ->
            IF Wire(o, ev.app).ends = 0 THEN <<>> ELSE <<F("end-once", "second-end")>>
      [] ev.e = "spin" -> <<F("spinning", "")>>
      \* the connection's tasks - the sending task among them - ended with an exception although the client sent
      \* nothing illegal: no stream is delivered any more
      [] ev.e = "handler_done" ->
            IF ev.exc \notin {"none", "cancelled"} /\ ~o.illegal /\ ~o.cerr /\ ~o.winddown
            THEN <<F("sender-died", IF o.unusual # {} THEN CHOOSE u \in o.unusual : TRUE ELSE ev.exc)>> ELSE <<>>
      \* the server closes the connection, unprovoked, under a stream whose response is under way (whatever made
      \* the connection's tasks give up: no stream is delivered any more)
      [] ev.e = "t_close" ->
            IF /\ ~o.gone /\ ~o.reset /\ ~o.tfail /\ ~o.shut /\ ~o.cerr /\ ~o.illegal /\ o.goaway = 0 /\ ~o.winddown /\ ~o.paused
               /\ \E a \in DOMAIN o.apps :
                     /\ Req(o, a).known /\ Req(o, a).ver = "2" /\ ~Req(o, a).rst /\ App(o, a).rstart
                     /\ App(o, a).sendExc = 0 /\ ~App(o, a).discEarly /\ App(o, a).disc = 0
                     /\ Wire(o, a).rst = 0 /\ Wire(o, a).ends = 0
                     /\ App(o, a).done \in {"", "return"}
            THEN <<F("end-missing", IF o.unusual # {} THEN "connection-closed-under-streams/" \o (CHOOSE u \in o.unusual : TRUE)
                                    ELSE "connection-closed-under-streams")>> ELSE <<>>
      [] ev.e = "quiescent" ->
            LET Live(a) == /\ Req(o, a).known /\ Req(o, a).ver = "2" /\ ~Req(o, a).rst /\ App(o, a).rstart
                           /\ App(o, a).sendExc = 0 /\ ~App(o, a).discEarly /\ Wire(o, a).rst = 0
                           /\ Connected(o) /\ ~o.paused /\ ~o.illegal /\ o.goaway = 0
                Stalled(a) == Live(a) /\ Wire(o, a).got < ExpLen(o, a) /\ SWin(o, a) > 0 /\ o.cwin > 0
                NoEnd(a) == Live(a) /\ App(o, a).final /\ ~App(o, a).trailersFlag /\ Wire(o, a).got = ExpLen(o, a)
                            /\ Wire(o, a).ends = 0
            IN (IF \E a \in DOMAIN o.apps : Stalled(a) THEN <<F("stalled-with-window", "")>> ELSE <<>>)
            \o (IF \E a \in DOMAIN o.apps : NoEnd(a) THEN <<F("end-missing", "")>> ELSE <<>>)
            \* the other direction: what the server has consumed (delivered, or discarded for a finished stream)
            \* is credited back, so that no stream's upload - and with it its response - is held up for good
            \o (IF ~o.winddown /\ \E a \in DOMAIN o.stalled : UploadStarved(o, a)
                THEN <<F("upload-starved", StarvedBy(o, CHOOSE a \in DOMAIN o.stalled : UploadStarved(o, a)))>> ELSE <<>>)
      [] OTHER -> <<>>

MInit == [o |-> OInit, fails |-> <<>>]
MStep(m, ev) == LET o2 == OStep(m.o, ev) IN [o |-> o2, fails |-> m.fails \o Clauses(m.o, ev, o2)]
MFails(m) == m.fails
=============================================================================
