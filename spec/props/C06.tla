------------------------------- MODULE C06 -------------------------------
(***************************************************************************)
(* C06 - HTTP/1.x persistent-connection and pipelining safety.             *)
(*                                                                         *)
(* Requests on one HTTP/1.x connection are numbered by arrival (c_req.idx).*)
(* Clauses (each names what the statement forbids):                        *)
(*  overlap              instance k+1 started before response k complete   *)
(*  served-after-close   instance k+1 started although k was not reusable  *)
(*  leak                 an instance received body bytes that are not the  *)
(*                       next bytes of its own request                     *)
(*  wire-corrupt         responses interleave / do not parse one by one    *)
(*  close-not-announced  non-reusable (reason known at head time) response *)
(*                       without "connection: close"                       *)
(*  not-closed           non-reusable exchange finished, transport open    *)
(*  pipeline-stalled     reusable exchange finished, next request fully    *)
(*                       buffered, connection healthy, but never served    *)
(***************************************************************************)
EXTENDS Obs

IsH1(o) == o.opened /\ o.cfg.carrier = "h1"

Prev(o, a) == LET k == Req(o, a).idx IN IF k > 1 /\ k - 1 <= Len(o.order) THEN o.order[k - 1] ELSE ""

(* The close reason was known when the head was written *)
KnownClose(o, a) ==
    LET r == Req(o, a) IN
    r.known /\ (r.wantclose \/ r.ver = "1.0" \/ r.idx >= o.cfg.kamax \/ r.bad
                 \* (an aborted message: the client ended its side in the middle of this request - and the server has
                 \*  seen that: everything sent before the end has been taken by the application, nothing waits in
                 \*  front of the reader)
                 \/ (o.gone /\ r.begun /\ ~r.done /\ ~o.cerr /\ ~o.reset /\ App(o, a).recvd = r.body))

Clauses(o, ev, o2) ==
    IF ~IsH1(o2) THEN <<>> ELSE
    CASE ev.e = "app_start" ->
            LET a == ev.app p == Prev(o, a) IN
            IF ~Req(o, a).known \/ p = "" THEN <<>>
            \* (judged, like the design's NoOverlap, while the client can still be reached: once a write has
            \*  failed or the peer has reset, no response can be complete for the client whatever the server does)
            ELSE (IF Wire(o, p).ends > 0 \/ o.tfail \/ o.reset \/ o.closedAt >= 0 THEN <<>> ELSE <<F("overlap", a)>>)
              \o (IF Reusable(o, p) \/ Wire(o, p).ends = 0 THEN <<>> ELSE <<F("served-after-close", a)>>)
      [] ev.e = "app_recv" ->
            IF ev.type = "http.request" /\ Req(o, ev.app).known
            THEN (IF ev.match /\ ev.off = App(o, ev.app).recvd THEN <<>> ELSE <<F("leak", ev.app)>>)
              \o (IF App(o2, ev.app).recvd <= Req(o, ev.app).body THEN <<>> ELSE <<F("leak", ev.app)>>)
            ELSE <<>>
      [] ev.e = "wire" ->
            CASE ev.kind = "error" -> <<F("wire-corrupt", ev.app)>>
              [] ev.kind = "data" -> IF ev.match /\ ev.off = Wire(o, ev.app).got THEN <<>>
                                     ELSE <<F("wire-corrupt", ev.app)>>
              [] ev.kind = "head" ->
                    IF KnownClose(o, ev.app) /\ ~ev.close THEN <<F("close-not-announced", ev.app)>>
                    ELSE <<>>
              [] OTHER -> <<>>
      [] ev.e = "t_close" ->
            \* a message that went wrong after its head (a malformed body, or the client's EOF inside it) before its
            \* application had started a response: the server closes - but only after a response of its own that
            \* announces the close
            LET Broken(a) ==
                    LET r == Req(o, a) IN
                    /\ r.known /\ r.kind = "http" /\ r.head /\ ~r.bad
                    /\ \/ (Has(r.c, "badbody") /\ r.c.badbody /\ o.cerr)
                       \/ (o.gone /\ ~r.done /\ r.begun /\ ~o.cerr)
                    /\ ~o.reset /\ ~o.tfail /\ ~o.shut /\ ~o.paused /\ ~o.winddown
                    /\ ~App(o, a).rstart /\ App(o, a).done = "" /\ Wire(o, a).heads = 0
                    \* (... on a connection the exchange before it left open for another one)
                    /\ (r.idx = 1 \/ Reusable(o, o.order[r.idx - 1]))
                \* ... and never under a request it is serving, unprovoked (no shutdown, the client present, no
                \* write failure, no client error, the application still at work and well-behaved)
                Under(a) ==
                    LET r == Req(o, a) IN
                    /\ r.known /\ r.kind = "http" /\ r.head /\ ~r.bad /\ r.done
                    /\ ~o.gone /\ ~o.reset /\ ~o.tfail /\ ~o.shut /\ ~o.cerr /\ ~o.winddown /\ ~o.paused
                    /\ App(o, a).started > 0 /\ App(o, a).done = "" /\ App(o, a).sendExc = 0 /\ App(o, a).disc = 0
                    /\ Wire(o, a).ends = 0
                    /\ (r.idx = 1 \/ Reusable(o, o.order[r.idx - 1]))
                    /\ ~UnreadLeft(o)
            IN (IF \E a \in DOMAIN o.reqs : Broken(a)
                THEN <<F("close-not-announced", "message-went-wrong-before-any-response")>> ELSE <<>>)
            \o (IF \E a \in DOMAIN o.reqs : Under(a)
                THEN <<F("close-not-announced",
                         IF \E a \in DOMAIN o.reqs : /\ Under(a) /\ Req(o, a).idx >= o.cfg.kamax
                                                       /\ \E b \in DOMAIN o.reqs : Req(o, b).begun /\ Req(o, b).idx > Req(o, a).idx
                         THEN "closed-under-a-request-in-progress/at-request-maximum-with-pipelined-request-pending"
                         ELSE "closed-under-a-request-in-progress")>> ELSE <<>>)
      [] ev.e = "quiescent" ->
            LET n == Len(o.order)
                NotClosed(k) ==
                    LET a == o.order[k] IN
                    /\ Wire(o, a).ends > 0 /\ ~Reusable(o, a) /\ o.closedAt < 0
                Stalled(k) ==
                    LET a == o.order[k] b == o.order[k + 1] IN
                    /\ Reusable(o, a) /\ App(o, a).ended > 0 /\ App(o, a).started > 0
                    /\ Req(o, b).head /\ Req(o, b).done /\ ~Req(o, b).bad /\ Req(o, b).kind = "http"
                    /\ Connected(o) /\ ~o.shut /\ ~o.cerr
                    /\ App(o, b).started = 0
                \* (request messages the application has not taken: body bytes, or just the end-of-body message
                \*  of a bodyless request - with max_app_queue_size = 1 that alone fills the queue)
                Unread(a) == App(o, a).recvd < Req(o, a).body \/ (Req(o, a).done /\ App(o, a).ended = 0)
                Ctx == IF \E a \in DOMAIN o.apps : App(o, a).parked = "send" /\ Unread(a)
                       THEN "final-send-parked-body-unread"
                       ELSE IF \E a \in DOMAIN o.apps : App(o, a).parked = "send" THEN "send-parked"
                       ELSE IF UnreadLeft(o) THEN "request-messages-unread"
                       ELSE "after-response"
            IN (IF \E k \in 1..n : NotClosed(k) THEN <<F("not-closed", Ctx)>> ELSE <<>>)

            \o (IF \E k \in 1..(IF n > 0 THEN n - 1 ELSE 0) : Stalled(k) THEN <<F("pipeline-stalled", "")>> ELSE <<>>)
            \* ... or was started but is not being fed: the client has sent the whole request, the exchange before
            \* it is complete, the connection is healthy, and the application still waits for the rest of its body
            \o (IF \E k \in 2..n :
                      LET b == o.order[k] a == o.order[k - 1] IN
                      /\ Reusable(o, a) /\ Wire(o, a).ends > 0
                      /\ Req(o, b).done /\ ~Req(o, b).bad /\ Req(o, b).kind = "http"
                      /\ App(o, b).started > 0 /\ App(o, b).parked = "recv" /\ App(o, b).ended = 0 /\ App(o, b).disc = 0
                      /\ Connected(o) /\ ~o.shut /\ ~o.cerr /\ ~o.paused
                THEN <<F("pipeline-stalled", "request-not-delivered")>> ELSE <<>>)
      [] OTHER -> <<>>

MInit == [o |-> OInit, fails |-> <<>>]
MStep(m, ev) == LET o2 == OStep(m.o, ev) IN [o |-> o2, fails |-> m.fails \o Clauses(m.o, ev, o2)]
MFails(m) == m.fails
=============================================================================
