------------------------------- MODULE C10 -------------------------------
(***************************************************************************)
(* C10 - WebSocket message fidelity and message-size limit.                 *)
(*                                                                         *)
(* The client's messages are numbered in sending order (c_ws.mid); a        *)
(* websocket.receive seen by the application carries the number of the      *)
(* client message it equals (type and payload compared by the harness,      *)
(* 0 / -1 when it equals none).                                             *)
(*  order / payload / type   the application must receive exactly the next  *)
(*                        complete client message                           *)
(*  over-limit-delivered  a message larger than websocket_max_message_size  *)
(*                        (characters for text, bytes for binary), or       *)
(*                        anything after it, was delivered                  *)
(*  no-1009               ... and the server must close with 1009           *)
(*  limit-boundary        1009 although no message exceeded the limit       *)
(*  undelivered           at a quiescent point an application waiting in    *)
(*                        receive() has not been given a complete message   *)
(*  pong                  every ping answered by a pong with its payload    *)
(*  send-fidelity         messages the application sent reach the client    *)
(*                        with identical type and payload, in order         *)
(***************************************************************************)
EXTENDS Obs

PInit == [sent |-> Empty, nsent |-> Empty, del |-> Empty, over |-> Empty, pings |-> Empty, pongs |-> Empty,
          outCalled |-> Empty, outSeen |-> Empty, closedBy |-> Empty, saw1009 |-> Empty]

Sent(p, a) == Get(p.nsent, a, 0)
Del(p, a) == Get(p.del, a, 0)
Over(p, a) == Get(p.over, a, 0)          \* number of the first over-limit message, 0 = none

Clauses(o, ev, o2, p) ==
    CASE ev.e = "app_recv" /\ ev.type = "websocket.receive" ->
            LET a == ev.app IN
               (IF ev.mid = Del(p, a) + 1 THEN <<>>
                ELSE IF ev.mid >= 1 THEN <<F("order", "")>> ELSE <<F("payload", "")>>)
            \o (IF ev.both THEN <<F("type", "both-text-and-bytes")>> ELSE <<>>)
            \o (IF Over(p, a) > 0 /\ Del(p, a) + 1 >= Over(p, a) THEN <<F("over-limit-delivered", ev.kind)>> ELSE <<>>)
      [] ev.e = "wire" /\ ev.kind = "ws_pong" ->
            IF ev.match THEN <<>> ELSE <<F("pong", "payload")>>
      [] ev.e = "wire" /\ ev.kind = "ws_msg" ->
            IF ev.idx = ev.seq /\ ev.idx >= 1 THEN <<>> ELSE <<F("send-fidelity", ev.mkind)>>
      [] ev.e = "quiescent" ->
            LET Healthy(a) == Connected(o) /\ ~o.paused /\ App(o, a).disc = 0 /\ App(o, a).kind = "websocket"
                              /\ Wire(o, a).ends = 0 /\ Get(p.closedBy, a, "") = "" /\ ~o.illegal
                Undel(a) == /\ Healthy(a) /\ App(o, a).parked = "recv" /\ Over(p, a) = 0
                            /\ Del(p, a) < Sent(p, a)
                No1009(a) == Healthy(a) /\ Over(p, a) > 0 /\ Get(p.closedBy, a, "") = ""
                NoPong(a) == Healthy(a) /\ Get(p.pongs, a, 0) < Get(p.pings, a, 0) /\ Over(p, a) = 0
                Unsent(a) == /\ Healthy(a) /\ App(o, a).parked # "send" /\ App(o, a).sendExc = 0
                             /\ Get(p.outSeen, a, 0) < Get(p.outCalled, a, 0)
                             /\ (Req(o, a).ver # "2" \/ (SWin(o, a) > 0 /\ o.cwin > 0))
                \* 1009 although no message exceeded the limit (a message of exactly the limit is legal);
                \* judged at the end, when every message the client started has been accounted for
                Spurious(a) == o.final /\ Get(p.saw1009, a, FALSE) /\ Over(p, a) = 0
            IN (IF \E a \in DOMAIN p.saw1009 : Spurious(a) THEN <<F("limit-boundary", "1009-without-oversize-message")>> ELSE <<>>)
            \o (IF \E a \in DOMAIN o.apps : Undel(a) THEN <<F("undelivered", "")>> ELSE <<>>)
            \o (IF \E a \in DOMAIN p.over : No1009(a) THEN <<F("no-1009", "")>> ELSE <<>>)
            \o (IF \E a \in DOMAIN p.pings : NoPong(a) THEN <<F("pong", "missing")>> ELSE <<>>)
            \o (IF \E a \in DOMAIN p.outCalled : Unsent(a) THEN <<F("send-fidelity", "not-delivered")>> ELSE <<>>)
      [] OTHER -> <<>>

PStep(p, o, ev, o2) ==
    CASE ev.e = "c_ws" ->
            LET a == ev.app IN
            CASE ev.kind \in {"text", "bytes"} ->
                    [p EXCEPT !.nsent = Put(@, a, ev.mid),
                              !.over = IF ev.over /\ Over(p, a) = 0 THEN Put(@, a, ev.mid) ELSE @]
              [] ev.kind = "ping" -> [p EXCEPT !.pings = Put(@, a, Get(p.pings, a, 0) + 1)]
              [] ev.kind \in {"close", "raw"} -> [p EXCEPT !.closedBy = Put(@, a, "client")]
              [] OTHER -> p
      [] ev.e = "app_recv" /\ ev.type = "websocket.receive" ->
            [p EXCEPT !.del = Put(@, ev.app, IF ev.mid >= 1 THEN ev.mid ELSE Del(p, ev.app) + 1)]
      [] ev.e = "wire" /\ ev.kind = "ws_pong" -> [p EXCEPT !.pongs = Put(@, ev.app, Get(p.pongs, ev.app, 0) + 1)]
      [] ev.e = "wire" /\ ev.kind = "ws_msg" -> [p EXCEPT !.outSeen = Put(@, ev.app, Get(p.outSeen, ev.app, 0) + 1)]
      [] ev.e = "wire" /\ ev.kind = "ws_close" ->
            [p EXCEPT !.closedBy = IF Get(p.closedBy, ev.app, "") = "" THEN Put(@, ev.app, "server") ELSE @,
                      !.saw1009 = IF ev.code = 1009 THEN Put(@, ev.app, TRUE) ELSE @]
      [] ev.e = "app_call" /\ ev.op = "send" ->
            IF ev.m.type = "websocket.send"
            THEN [p EXCEPT !.outCalled = Put(@, ev.app, Get(p.outCalled, ev.app, 0) + 1)]
            ELSE IF ev.m.type = "websocket.close"
                 THEN [p EXCEPT !.closedBy = IF Get(p.closedBy, ev.app, "") = "" THEN Put(@, ev.app, "app") ELSE @]
                 ELSE p
      [] OTHER -> p

MInit == [o |-> OInit, p |-> PInit, fails |-> <<>>]
MStep(m, ev) == LET o2 == OStep(m.o, ev) IN
                [o |-> o2, p |-> PStep(m.p, m.o, ev, o2), fails |-> m.fails \o Clauses(m.o, ev, o2, m.p)]
MFails(m) == m.fails
=============================================================================
