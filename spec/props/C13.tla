------------------------------- MODULE C13 -------------------------------
(***************************************************************************)
(* C13 - protocol selection and upgrades lose no bytes and ignore           *)
(* segmentation.                                                            *)
(*                                                                         *)
(* The opening the client used is in the open event (cfg.opening):          *)
(*   "alpn-h2" "preface" "h2c" "h2c-body" "ws" "plain" "tls-h1"             *)
(* A trace may contain several executions of the same session that differ   *)
(* only in how the bytes were split across reads, separated by a `variant`  *)
(* event; their final observation summaries must be equal.                  *)
(*  wrong-protocol     the application saw a different HTTP version / scope *)
(*                     type than the opening determines                     *)
(*  h2c-handover       no 101 + "upgrade: h2c", or stream 1 not answered in *)
(*                     HTTP/2 (or an h2c upgrade carrying a body honoured)  *)
(*  bytes-lost         a request sent after the switch never reached an     *)
(*                     application / its body is incomplete                 *)
(*  bytes-duplicated   ... or reached two                                   *)
(*  split-dependent    observation summary differs between two splits       *)
(***************************************************************************)
EXTENDS Obs

PInit == [prev |-> <<>>, have |-> FALSE, sawSwitch |-> FALSE, info101 |-> FALSE, wsSent |-> 0, wsDel |-> 0]

ExpVer(o, a) == Req(o, a).c.ver
Summary(o) ==
    [apps |-> [a \in DOMAIN o.apps |-> <<App(o, a).started, App(o, a).kind, App(o, a).recvd, App(o, a).ended>>],
     wire |-> [a \in DOMAIN o.wire |-> <<Wire(o, a).heads, Wire(o, a).status, Wire(o, a).got, Wire(o, a).ends,
                                        Wire(o, a).framing, Wire(o, a).bad>>],
     closed |-> o.closedAt >= 0,
     errs |-> o.wireErrs]

Clauses(o, ev, o2, p) ==
    CASE ev.e = "app_start" ->
            LET a == ev.app r == Req(o, a) IN
            IF ~r.known THEN <<>> ELSE
               (IF ev.sc.type = "lifespan" \/ ev.sc.http_version = ExpVer(o, a) THEN <<>>
                ELSE <<F("wrong-protocol", o.cfg.opening \o "/version")>>)
            \o (IF ev.sc.type = (IF r.kind = "ws" THEN "websocket" ELSE "http") THEN <<>>
                ELSE <<F("wrong-protocol", o.cfg.opening \o "/scope-type")>>)
            \o (IF ev.dup \/ App(o, a).started > 0 THEN <<F("bytes-duplicated", o.cfg.opening)>> ELSE <<>>)
      [] ev.e = "wire" /\ ev.kind = "switch" ->
            IF (o.cfg.opening = "h2c" /\ ev.to = "h2c") \/ (o.cfg.opening = "ws" /\ ev.to = "websocket") THEN <<>>
            ELSE <<F("h2c-handover", "unexpected-switch/" \o o.cfg.opening)>>
      [] ev.e = "wire" /\ ev.kind = "head" ->
            LET a == ev.app IN
            IF ~Req(o, a).known \/ o.cerr THEN <<>>
            ELSE IF (ExpVer(o, a) = "2") = (ev.framing = "h2") THEN <<>>
                 ELSE <<F(IF o.cfg.opening \in {"h2c", "h2c-body"} THEN "h2c-handover" ELSE "wrong-protocol",
                          o.cfg.opening \o "/response-protocol")>>
      [] ev.e = "app_recv" /\ ev.type = "http.request" ->
            IF ev.match /\ ev.off = App(o, ev.app).recvd THEN <<>> ELSE <<F("bytes-lost", "body-bytes")>>
      [] ev.e = "quiescent" /\ ~o.final ->
            \* (a message written right behind the handshake: the connection is refused, or it arrives)
            IF o.cfg.opening = "ws" /\ p.sawSwitch /\ Connected(o) /\ ~o.paused /\ ~o.cerr /\ p.wsDel < p.wsSent
                   /\ \E a \in DOMAIN o.apps : /\ App(o, a).kind = "websocket" /\ App(o, a).parked = "recv"
                                                /\ App(o, a).disc = 0 /\ Wire(o, a).ends = 0
                THEN <<F("bytes-lost", "ws/message-behind-handshake")>> ELSE <<>>
      [] ev.e = "quiescent" /\ o.final ->
            LET Lost(a) == /\ Req(o, a).known /\ Req(o, a).head /\ ~Req(o, a).bad /\ Req(o, a).kind \in {"http", "ws"}
                           /\ ~o.cerr /\ ~Req(o, a).rst
                           /\ (Req(o, a).idx = 1 \/ ExpVer(o, a) = "2")
                           /\ (App(o, a).started = 0
                               \/ (Req(o, a).done /\ Req(o, a).kind = "http" /\ App(o, a).done = "return"
                                   /\ (App(o, a).recvd # Req(o, a).total \/ App(o, a).ended = 0)))
            IN (IF \E a \in DOMAIN o.reqs : Lost(a) THEN <<F("bytes-lost", o.cfg.opening)>> ELSE <<>>)
            \o (IF o.cfg.opening = "h2c" /\ ~p.sawSwitch /\ ~o.cerr THEN <<F("h2c-handover", "no-101")>> ELSE <<>>)
            \o (IF o.cfg.opening = "h2c" /\ p.sawSwitch /\ ~o.cerr /\ ~o.reset /\ ~o.tfail
                   /\ \E a \in DOMAIN o.reqs : /\ Req(o, a).idx = 1 /\ App(o, a).final /\ App(o, a).sendExc = 0
                                                /\ App(o, a).done = "return" /\ Wire(o, a).ends = 0
                THEN <<F("h2c-handover", "stream-1-unanswered")>> ELSE <<>>)
            \o (IF p.have /\ p.prev # Summary(o) THEN <<F("split-dependent", o.cfg.opening)>> ELSE <<>>)
      [] OTHER -> <<>>

PStep(p, o, ev, o2) ==
    CASE ev.e = "variant" -> [prev |-> Summary(o), have |-> TRUE, sawSwitch |-> FALSE, info101 |-> FALSE,
                              wsSent |-> 0, wsDel |-> 0]
      [] ev.e = "c_ws" /\ ev.kind \in {"text", "bytes"} -> [p EXCEPT !.wsSent = @ + 1]
      [] ev.e = "app_recv" /\ ev.type = "websocket.receive" -> [p EXCEPT !.wsDel = @ + 1]
      [] ev.e = "wire" /\ ev.kind = "switch" -> [p EXCEPT !.sawSwitch = TRUE]
      [] OTHER -> p

MInit == [o |-> OInit, p |-> PInit, fails |-> <<>>]
MStep(m, ev) ==
    IF ev.e = "variant"
    THEN [o |-> OInit, p |-> PStep(m.p, m.o, ev, m.o), fails |-> m.fails]
    ELSE LET o2 == OStep(m.o, ev) IN
         [o |-> o2, p |-> PStep(m.p, m.o, ev, o2), fails |-> m.fails \o Clauses(m.o, ev, o2, m.p)]
MFails(m) == m.fails
=============================================================================
