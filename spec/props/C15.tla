------------------------------- MODULE C15 -------------------------------
(***************************************************************************)
(* C15 - graceful shutdown is orderly and bounded.                         *)
(* Monitor over worker-level traces (harness/worker_env.py); all times are *)
(* virtual milliseconds.  T = time of the first `trigger` event (callable  *)
(* shutdown_trigger fired by the script, or context.terminate set because  *)
(* of max_requests).  SLACK = 1000 ms.                                     *)
(*                                                                         *)
(* Clauses                                                                 *)
(*   accepted-after-trigger        the server took a connection off the    *)
(*                                 listening socket after T                *)
(*   idle-survives                 a keep-alive connection (>= 1 complete  *)
(*                                 exchange, nothing outstanding) is still *)
(*                                 open at a quiescent point after T       *)
(*   request-after-trigger-served  a request whose first byte was sent     *)
(*                                 after T started an application          *)
(*   cut-short                     an application running at T finished a  *)
(*                                 complete response before T + graceful,  *)
(*                                 the client stayed, yet the client did   *)
(*                                 not get the complete response; or it    *)
(*                                 was cancelled before T + graceful       *)
(*                                 ("lets requests already in progress     *)
(*                                 finish for up to graceful_timeout")     *)
(*   unbounded-shutdown            serve() ended later than T + graceful + *)
(*                                 shutdown_timeout + SLACK, or never      *)
(*   not-cancelled                 an application running at T is still    *)
(*                                 running after T + graceful + SLACK      *)
(*   lifespan-shutdown-skipped     serve() returned without sending        *)
(*                                 lifespan.shutdown to a started-up app   *)
(*   lifespan-shutdown-cut-short   the application was cancelled while it  *)
(*                                 worked on lifespan.shutdown, before     *)
(*                                 shutdown_timeout had passed             *)
(* Not demanded (statement silent or ambiguous): the fate of a connection  *)
(* with a partially sent request head or of a fresh connection that never  *)
(* sent anything; a request whose head was begun before T and completed    *)
(* after T; the way serve() ends (return or exception) - only when.        *)
(* HTTP/2 GOAWAY and WebSocket connections are not exercised at this level. *)
(***************************************************************************)
EXTENDS Naturals, Integers, Sequences, FiniteSets, TLC

SLACK == 1000

F(clause, ctx) == <<clause, ctx>>
Add(fails, f) == IF \E i \in 1..Len(fails) : fails[i] = f THEN fails ELSE Append(fails, f)
RECURSIVE Merge(_, _)
Merge(fails, new) == IF new = <<>> THEN fails ELSE Merge(Add(fails, Head(new)), Tail(new))

Get(f, k, d) == IF k \in DOMAIN f THEN f[k] ELSE d
Put(f, k, v) == [x \in (DOMAIN f) \cup {k} |-> IF x = k THEN v ELSE f[x]]
Empty == [x \in {} |-> 0]

NoConn == [acc |-> FALSE, closed |-> TRUE, byClient |-> FALSE, reqs |-> 0, resps |-> 0,
           partial |-> FALSE, accAfter |-> FALSE]
NoApp  == [c |-> 0, atTrig |-> FALSE, done |-> FALSE, doneAt |-> -1, how |-> "", resp |-> "", bytes |-> 0]
NoReq  == [after |-> FALSE, c |-> 0]
NoRecv == [complete |-> FALSE, len |-> -1]

SInit == [w |-> "?", graceful |-> 0, shutdownTo |-> 0, prelisten |-> TRUE,
          trigAt |-> -1, src |-> "", conns |-> Empty, apps |-> Empty, reqs |-> Empty,
          recv |-> Empty, serveAt |-> -1, winddown |-> FALSE,
          lifeUp |-> FALSE, shutRecv |-> 0, lifeEnd |-> "", shutAt |-> -1, shutAnswered |-> FALSE]

Conn(s, c) == Get(s.conns, c, NoConn)
App(s, a)  == Get(s.apps, a, NoApp)

Trig(s) == s.trigAt >= 0
Late(s, a) == App(s, a).atTrig /\ (~App(s, a).done \/ App(s, a).doneAt > s.trigAt + s.graceful)
Stuck(s) == Cardinality({a \in DOMAIN s.apps : Late(s, a)})
Situation(s) == s.w \o (IF Stuck(s) = 0
                        THEN (IF \E a \in DOMAIN s.apps : s.apps[a].atTrig
                              THEN "/requests-finished-within-grace" ELSE "/no-request-in-progress")
                        ELSE IF Stuck(s) = 1 THEN "/one-stuck-request"
                        ELSE "/several-stuck-requests")
Source(s) == s.w \o "/" \o s.src

ServerTook(s, ev) ==
    CASE ev.e = "c_accepted" -> TRUE
      [] ev.e = "c_connect" -> ev.accepted \/ (ev.connected /\ ~s.prelisten)
      [] OTHER -> FALSE

StillRunning(s, now) ==
    IF Trig(s) /\ now > s.trigAt + s.graceful + SLACK
          /\ \E a \in DOMAIN s.apps : s.apps[a].atTrig /\ ~s.apps[a].done
    THEN <<F("not-cancelled", Situation(s))>> ELSE <<>>

Clauses(s, ev) ==
    (IF Trig(s) /\ ServerTook(s, ev) THEN <<F("accepted-after-trigger", Source(s))>> ELSE <<>>)
    \o
    (CASE ev.e = "app_start" ->
            IF Trig(s) /\ ev.c # 0 /\ Get(s.reqs, ev.app, NoReq).after /\ ~Conn(s, ev.c).accAfter
            THEN <<F("request-after-trigger-served",
                     s.w \o (IF Conn(s, ev.c).resps >= 1 THEN "/keep-alive-connection"
                             ELSE IF Conn(s, ev.c).reqs >= 1 THEN "/connection-with-request-in-progress"
                             ELSE "/fresh-connection"))>>
            ELSE <<>>
       [] ev.e = "app_done" ->
            (IF Trig(s) /\ App(s, ev.app).atTrig /\ ev.now > s.trigAt + s.graceful + SLACK
             THEN <<F("not-cancelled", Situation(s))>> ELSE <<>>)
            \o (IF Trig(s) /\ App(s, ev.app).atTrig /\ ev.how = "cancelled" /\ ~s.winddown
                    /\ ev.now < s.trigAt + s.graceful /\ ~Conn(s, App(s, ev.app).c).byClient
                THEN <<F("cut-short", s.w \o "/cancelled-before-grace-elapsed")>> ELSE <<>>)
       [] ev.e = "quiescent" ->
            (IF Trig(s) /\ ~s.winddown
                /\ \E c \in DOMAIN s.conns :
                      LET k == s.conns[c] IN
                      k.acc /\ ~k.closed /\ ~k.partial /\ k.reqs = k.resps /\ k.resps >= 1
             THEN <<F("idle-survives", Source(s) \o "/keep-alive-connection")>> ELSE <<>>)
            \o StillRunning(s, ev.now)
       [] ev.e = "winddown" ->
            (IF Trig(s) /\ \E a \in DOMAIN s.apps :
                    LET p == s.apps[a] r == Get(s.recv, a, NoRecv) IN
                    /\ p.atTrig /\ p.done /\ p.how = "return" /\ p.resp = "complete"
                    /\ p.doneAt < s.trigAt + s.graceful
                    /\ ~Conn(s, p.c).byClient
                    /\ ~(r.complete /\ r.len = p.bytes)
             THEN <<F("cut-short", s.w \o "/finished-within-grace")>> ELSE <<>>)
            \o StillRunning(s, ev.now)
       [] ev.e = "serve_done" ->
            (IF Trig(s) /\ ev.now > s.trigAt + s.graceful + s.shutdownTo + SLACK
             THEN <<F("unbounded-shutdown", Situation(s))>> ELSE <<>>)
            \* "... cancels what remains, runs lifespan shutdown, and returns": the application had started up
            \* and was still waiting for the shutdown message when serve() returned without delivering it
            \o (IF Trig(s) /\ ev.outcome = "return" /\ s.lifeUp /\ s.shutRecv = 0 /\ s.lifeEnd \in {"", "cancelled"}
                THEN <<F("lifespan-shutdown-skipped", Situation(s))>> ELSE <<>>)
       \* "... runs lifespan shutdown": an application still working on lifespan.shutdown is given shutdown_timeout,
       \* not less (it is cancelled - or serve() gives up on it - only when that time is up)
       [] ev.e = "life_done" ->
            IF Trig(s) /\ ev.how = "cancelled" /\ s.shutRecv >= 1 /\ ~s.shutAnswered /\ ev.now < s.shutAt + s.shutdownTo
            THEN <<F("lifespan-shutdown-cut-short", Situation(s))>> ELSE <<>>
       [] ev.e = "final" ->
            (IF Trig(s) /\ s.serveAt < 0 THEN <<F("unbounded-shutdown", Situation(s))>> ELSE <<>>)
            \o StillRunning(s, ev.now)
       [] OTHER -> <<>>)

Step(s, ev) ==
    CASE ev.e = "w_open" ->
            [s EXCEPT !.w = ev.worker, !.graceful = ev.graceful, !.shutdownTo = ev.shutdown_to,
                      !.prelisten = ev.prelisten]
      [] ev.e = "c_connect" ->
            LET took == ev.accepted \/ (ev.connected /\ ~s.prelisten) IN
            [s EXCEPT !.conns = Put(@, ev.c, [NoConn EXCEPT !.acc = took, !.closed = ~ev.connected,
                                                          !.accAfter = took /\ Trig(s)])]
      [] ev.e = "c_accepted" ->
            [s EXCEPT !.conns = Put(@, ev.c, [Conn(s, ev.c) EXCEPT !.acc = TRUE, !.accAfter = Trig(s)])]
      [] ev.e = "c_send" ->
            LET k == Conn(s, ev.c) IN
            [s EXCEPT !.conns = Put(@, ev.c, [k EXCEPT !.reqs = IF ev.complete THEN @ + 1 ELSE @,
                                                     !.partial = IF ev.complete THEN FALSE
                                                                 ELSE (@ \/ ev.n > 0)]),
                      !.reqs = IF ev.rid \in DOMAIN @ THEN @
                               ELSE Put(@, ev.rid, [after |-> Trig(s), c |-> ev.c])]
      [] ev.e = "c_recv" ->
            LET k == Conn(s, ev.c) IN
            [s EXCEPT !.conns = Put(@, ev.c, [k EXCEPT !.resps = IF ev.complete THEN @ + 1 ELSE @]),
                      !.recv = Put(@, ev.rid, [complete |-> ev.complete, len |-> ev.len])]
      [] ev.e = "c_closed_by_server" ->
            [s EXCEPT !.conns = Put(@, ev.c, [Conn(s, ev.c) EXCEPT !.closed = TRUE])]
      [] ev.e = "c_close" ->
            [s EXCEPT !.conns = Put(@, ev.c, [Conn(s, ev.c) EXCEPT !.closed = TRUE, !.byClient = TRUE])]
      [] ev.e = "app_start" ->
            IF ev.c = 0 THEN s
            ELSE [s EXCEPT !.apps = Put(@, ev.app, [NoApp EXCEPT !.c = ev.c])]
      [] ev.e = "app_done" ->
            [s EXCEPT !.apps = Put(@, ev.app, [App(s, ev.app) EXCEPT !.done = TRUE, !.doneAt = ev.now,
                                                    !.how = ev.how, !.resp = ev.resp, !.bytes = ev.bytes])]
      [] ev.e = "trigger" ->
            IF Trig(s) THEN s
            ELSE [s EXCEPT !.trigAt = ev.now, !.src = ev.source,
                           !.apps = [a \in DOMAIN s.apps |->
                                        [s.apps[a] EXCEPT !.atTrig = ~s.apps[a].done]]]
      [] ev.e = "serve_done" -> [s EXCEPT !.serveAt = ev.now]
      [] ev.e = "life_send" ->
            IF ev.type = "lifespan.startup.complete" /\ ev.outcome = "ok" THEN [s EXCEPT !.lifeUp = TRUE]
            ELSE IF ev.type \in {"lifespan.shutdown.complete", "lifespan.shutdown.failed"} THEN [s EXCEPT !.shutAnswered = TRUE]
            ELSE s
      [] ev.e = "life_recv" -> IF ev.type = "lifespan.shutdown"
                               THEN [s EXCEPT !.shutRecv = @ + 1, !.shutAt = IF s.shutAt < 0 THEN ev.now ELSE @] ELSE s
      [] ev.e = "life_done" -> [s EXCEPT !.lifeEnd = ev.how]
      [] ev.e = "winddown" -> [s EXCEPT !.winddown = TRUE]
      [] OTHER -> s

MInit == [s |-> SInit, fails |-> <<>>]
MStep(m, ev) == [s |-> Step(m.s, ev), fails |-> Merge(m.fails, Clauses(m.s, ev))]
MFails(m) == m.fails
=============================================================================
