------------------------------- MODULE C05W -------------------------------
(***************************************************************************)
(* C05, WSGI part - a failing WSGI application is an application failure    *)
(* like any other: the adapter (WSGIWrapper / *WSGIMiddleware) must hand    *)
(* the failure on and must not finish the response on the application's     *)
(* behalf.                                                                  *)
(*                                                                         *)
(* A trace is <<case, result>> as for C17 (harness/adapters/c17.py): the    *)
(* case names where the WSGI callable raises (before start_response, after  *)
(* it, between two chunks of its iterable), the result is what the real     *)
(* adapter sent towards the protocol layer and whether the exception came   *)
(* out (the worker logs it and ends the response: 500 or truncation - that  *)
(* part is decided on the protocol level by C05).                           *)
(*                                                                         *)
(*  falsely-complete   the application raised after the response had been   *)
(*                     started, yet the adapter sent the terminating        *)
(*                     message (more_body = FALSE): the client would parse  *)
(*                     a complete response                                  *)
(*  failure-swallowed  the application raised but no exception left the     *)
(*                     adapter: nothing is logged, no 500 is produced       *)
(***************************************************************************)
EXTENDS Naturals, Integers, Sequences, FiniteSets, TLC

F(clause, ctx) == <<clause, ctx>>
If(cond, fails) == IF cond THEN fails ELSE <<>>

Ctx(c) == c.app.raise_at \o "/" \o c.app.start \o "/" \o c.app.ret \o "/" \o c.runner

Checks(c, r) ==
    IF c.req.kind # "http" \/ c.app.raise_at = "none" \/ r.called = 0 THEN <<>>
    ELSE If(r.resp.start_count >= 1 /\ r.resp.final, <<F("falsely-complete", Ctx(c))>>)
         \o If(r.exc = "", <<F("failure-swallowed", Ctx(c))>>)

MInit == [c |-> [e |-> "none"], fails |-> <<>>]
MStep(m, ev) ==
    IF ev.e = "case" THEN [m EXCEPT !.c = ev]
    ELSE IF ev.e = "result" /\ m.c.e = "case" THEN [m EXCEPT !.fails = m.fails \o Checks(m.c, ev)]
    ELSE m
MFails(m) == m.fails
=============================================================================
