------------------------------- MODULE C03 -------------------------------
(***************************************************************************)
(* C03 - exactly-once disconnect and access record; sends after close are  *)
(* no-ops.                                                                 *)
(*                                                                         *)
(* Clauses: second-disconnect, recv-after-disconnect,                      *)
(* send-after-close-raised, second-access-record, missing-disconnect,      *)
(* missing-access-record (the two "missing" clauses are evaluated at the   *)
(* final quiescent point, after the wind-down of every execution: all      *)
(* gates open, client gone, clock run past every timeout).                 *)
(***************************************************************************)
EXTENDS Obs

ValidCall(mm) == ~Has(mm, "cls") \/ mm.cls = "ok"

Clauses(o, ev, o2) ==
    CASE ev.e = "app_recv" ->
            LET s == App(o, ev.app)
                isDisc == ev.type \in {"http.disconnect", "websocket.disconnect"} IN
            IF s.disc = 0 THEN <<>>
            ELSE IF isDisc THEN <<F("second-disconnect", s.kind)>> ELSE <<F("recv-after-disconnect", s.kind)>>
      [] ev.e = "app_ret" ->
            LET s == App(o, ev.app) IN
            IF ev.outcome # "ok" /\ s.disc > 0 /\ ValidCall(s.lastCall)
            THEN <<F("send-after-close-raised", s.lastCall.type)>> ELSE <<>>
      [] ev.e = "log" ->
            IF ev.kind = "access" /\ Acc(o, ev.app) >= 1
            THEN <<F("second-access-record",
                     IF App(o, ev.app).kind = "websocket" THEN "websocket"
                     ELSE IF Get(o.accFirst, ev.app, 0) = -1 /\ App(o, ev.app).final
                          THEN "http-closed-record-then-completion-record"
                     ELSE IF Get(o.accFirst, ev.app, 0) = -1 THEN "http-closed-record-then-unfinished-application"
                     ELSE "http")>>
            ELSE <<>>
      [] ev.e = "quiescent" /\ o.final ->
            LET NoDisc(a) == App(o, a).started > 0 /\ App(o, a).parked = "recv" /\ App(o, a).disc = 0
                NoAcc(a)  == App(o, a).started > 0 /\ App(o, a).kind \in {"http", "websocket"} /\ Acc(o, a) = 0
                \* (a reader parked on a pipelined request does not see the peer go - F07c - but a failing write
                \*  of the application in progress tells the server all the same)
                Ctx == IF ParkedPipeline(o) /\ o.lossWrite THEN "pipelined-request-parked/write-failed"
                       ELSE IF ParkedPipeline(o) THEN "pipelined-request-parked"
                       ELSE IF UnreadLeft(o) THEN "request-messages-unread" ELSE o.cfg.carrier
            IN (IF \E a \in DOMAIN o.apps : NoDisc(a) THEN <<F("missing-disconnect", Ctx)>> ELSE <<>>)
            \o (IF \E a \in DOMAIN o.apps : NoAcc(a) THEN <<F("missing-access-record", Ctx)>> ELSE <<>>)
      [] OTHER -> <<>>

MInit == [o |-> OInit, fails |-> <<>>]
MStep(m, ev) == LET o2 == OStep(m.o, ev) IN [o |-> o2, fails |-> m.fails \o Clauses(m.o, ev, o2)]
MFails(m) == m.fails
=============================================================================
