------------------------------- MODULE C20 -------------------------------
(***************************************************************************)
(* C20 - middleware semantics: proxy trust boundary, dispatch routing and  *)
(* lifespan fan-out, HTTPS redirect.                                       *)
(*                                                                         *)
(* A trace is one function-level execution of a real middleware class      *)
(* (harness/adapters/c20.py): a "<kind>.case" event carrying the           *)
(* STRUCTURED abstract input, then what was observed at the wrapped        *)
(* application / at the server's send.  The expectation is computed here,  *)
(* from the abstract input, with the oracle operators of Middleware.tla    *)
(* (instantiated below - they exist once and are the ones TLC checks the   *)
(* trust-boundary theorem, the routing lemmas and the fan-out invariants   *)
(* for in MC_Middleware.cfg).                                              *)
(*                                                                         *)
(* Events (every event of one kind has the same fields):                   *)
(*  proxy.case     mode hops scope client scheme headers                   *)
(*                 headers[i] = [lname, casing, values, elems, sep, lead,  *)
(*                 trail]; elems[j] = [for, proto, host, by, order, text]  *)
(*  proxy.result   called client client_port scheme hosts headers          *)
(*                 seen_equal_orig caller_unchanged same_object raised     *)
(*  dispatch.case  impl scope mounts path   (sequences of characters)      *)
(*  dispatch.result invoked calls path_seen status msgs raised             *)
(*  fanout.case    backend n scripts schedule                              *)
(*  fanout.mount   mount phase        mount application sends <phase>.complete *)
(*  fanout.fwd     type done_startup done_shutdown    message reached the server's send *)
(*  fanout.end     raised             quiescent after the whole schedule   *)
(*  redirect.case  scope scheme http_version host_cfg host_hdr raw_path    *)
(*                 query root_path ext                                     *)
(*  redirect.result passed same_scope raised status location msgs          *)
(*                                                                         *)
(* Clauses: client scheme host-header untouched-when-untrusted             *)
(* scope-mutated | wrong-mount path-not-stripped empty-path no-404 |       *)
(* startup-complete-early startup-complete-missing shutdown-complete-early *)
(* shutdown-complete-missing | location status secure-not-passed           *)
(* cleartext-passed.                                                       *)
(*                                                                         *)
(* Where the property is silent the monitor is silent (decisions):         *)
(*  - the port put next to the forwarded client, the order/preservation of *)
(*    the other headers, parsing of quoted / upper-case Forwarded          *)
(*    parameters are not judged (the generator does not produce the        *)
(*    latter);                                                             *)
(*  - "modern" mode with no trusted Forwarded element: the property speaks *)
(*    of "the forwarding headers" without distinguishing the modes, so     *)
(*    both leaving the scope untouched and taking the values `hops` from   *)
(*    the right of the X-Forwarded-* headers (what the code does) are      *)
(*    accepted; anything else is flagged.  StrictModern = TRUE demands     *)
(*    "untouched" (reports ctx modern/.../legacy-fallback).                *)
(*  - prefix match is the plain string prefix the property names ("/a"     *)
(*    matches "/ab"); the caller's scope["path"] being rewritten in place  *)
(*    is not part of the property for the dispatcher;                      *)
(*  - a cleartext WebSocket without the "websocket.http.response"          *)
(*    extension cannot be redirected in ASGI: only "not passed through"    *)
(*    is demanded; likewise when no host is known;                         *)
(*  - WebSocket over HTTP/2 may be redirected to https or wss;             *)
(*  - the redirect status may be any of 301 302 303 307 308;               *)
(*  - the redirect path is root_path + raw_path (external URL of a server  *)
(*    mounted under root_path), an empty query adds no "?".                *)
(***************************************************************************)
EXTENDS Naturals, Integers, Sequences, FiniteSets, TLC

MW == INSTANCE Middleware WITH sec <- "monitor", inp <- 0, fo <- 0

StrictModern == FALSE

None == MW!None
F(clause, ctx) == <<clause, ctx>>
S(n) == ToString(n)
If(c, s) == IF c THEN s ELSE <<>>

(***************************************************************************)
(* ProxyFixMiddleware                                                      *)
(***************************************************************************)
ProxyFails(c, r) ==
    LET h      == c.headers
        hops   == c.hops
        leg    == MW!LegacyExpect(h, hops)
        mod    == MW!ModernExpect(h, hops)
        nFwd   == Len(MW!FlattenElems(h, "forwarded"))
        fallback == c.scope # "lifespan" /\ c.mode = "modern" /\ MW!TrustedIdx(nFwd, hops) = 0
                    /\ ~MW!AllNone(leg)
        exp    == IF c.scope = "lifespan" THEN MW!Untrusted
                  ELSE IF c.mode = "legacy" THEN leg ELSE mod
        origHosts == MW!Flatten(h, "host")
        ExpClient(x) == IF x.client = None THEN c.client ELSE x.client
        ExpScheme(x) == IF x.scheme = None THEN c.scheme ELSE x.scheme
        ExpHosts(x)  == IF x.host = None THEN origHosts ELSE <<x.host>>
        Match(x) == /\ r.called = 1
                    /\ r.client = ExpClient(x) /\ r.scheme = ExpScheme(x) /\ r.hosts = ExpHosts(x)
                    /\ (MW!AllNone(x) => r.seen_equal_orig)
        N(name) == Len(MW!Flatten(h, name))
        base   == c.mode \o "/hops=" \o S(hops)
        Vals(name) == base \o "/values=" \o S(IF c.mode = "legacy" THEN N(name) ELSE nFwd)
        why    == IF hops = 0 THEN base ELSE base \o "/too-few-values"
        touched == ~MW!AllNone(exp) \/ fallback
        Field(clause, name, expv, seen, orig) ==
            IF expv = None
            THEN If(seen # orig, <<F("untouched-when-untrusted", why \o "/field=" \o clause)>>)
            ELSE If(seen # expv, <<F(clause, Vals(name))>>)
    IN
    (IF c.scope = "lifespan"
     THEN If(~(r.called = 1 /\ r.seen_equal_orig), <<F("untouched-when-untrusted", "lifespan-scope")>>)
     ELSE IF fallback /\ ~StrictModern
     THEN If(~(Match(MW!Untrusted) \/ Match(leg)),
             <<F("untouched-when-untrusted", base \o "/no-trusted-forwarded-element/neither-untouched-nor-legacy")>>)
     ELSE IF fallback
     THEN If(~Match(MW!Untrusted), <<F("untouched-when-untrusted", base \o "/no-trusted-forwarded-element/legacy-fallback")>>)
     ELSE IF r.called # 1
     THEN <<F(IF MW!AllNone(exp) THEN "untouched-when-untrusted" ELSE "client", base \o "/application-called=" \o S(r.called))>>
     ELSE IF MW!AllNone(exp)
     THEN If(~Match(exp), <<F("untouched-when-untrusted", why)>>)
     ELSE Field("client", "x-forwarded-for", exp.client, r.client, c.client)
          \o Field("scheme", "x-forwarded-proto", exp.scheme, r.scheme, c.scheme)
          \o (IF exp.host = None
              THEN If(r.hosts # origHosts, <<F("untouched-when-untrusted", why \o "/field=host-header")>>)
              ELSE If(r.hosts # <<exp.host>>, <<F("host-header", Vals("x-forwarded-host"))>>)))
    \o If(~r.caller_unchanged,
          <<F("scope-mutated", c.scope \o "/" \o c.mode \o "/" \o (IF touched THEN "trusted-values" ELSE "nothing-trusted"))>>)

(***************************************************************************)
(* DispatcherMiddleware - routing                                          *)
(***************************************************************************)
DispatchFails(c, r) ==
    LET exp == MW!Route(c.mounts, c.path)
        k   == MW!NumMatches(c.mounts, c.path)
        rem == IF exp.idx = 0 THEN "" ELSE
               IF MW!Remainder(c.mounts[exp.idx], c.path) = <<>> THEN "/prefix-equals-path" ELSE "/prefix-proper"
        base == c.scope \o "/matches=" \o S(k)
        isMatch(i) == i \in 1..Len(c.mounts) /\ MW!IsPrefix(c.mounts[i], c.path)
    IN
    IF exp.idx = 0
    THEN If(r.invoked # 0 \/ r.status # 404,
            <<F("no-404", c.scope \o (IF r.invoked # 0 THEN "/application-invoked" ELSE "/status=" \o S(r.status)))>>)
    ELSE IF r.invoked # exp.idx \/ r.calls # 1
    THEN <<F("wrong-mount", base \o (IF r.invoked = 0 THEN "/none-invoked"
                                      ELSE IF r.calls # 1 THEN "/several-invoked"
                                      ELSE IF isMatch(r.invoked) THEN "/later-match-invoked"
                                      ELSE "/non-matching-invoked"))>>
    ELSE IF r.path_seen = ""
    THEN <<F("empty-path", c.scope \o rem)>>
    ELSE If(r.path_seen # exp.path, <<F("path-not-stripped", c.scope \o rem)>>)

(***************************************************************************)
(* DispatcherMiddleware - lifespan fan-out                                 *)
(***************************************************************************)
FoInit == [ds |-> {}, dd |-> {}, fs |-> 0, fd |-> 0]

FanoutMount(st, ev) ==
    IF ev.phase = "startup" THEN [st EXCEPT !.ds = @ \cup {ev.mount}]
    ELSE IF ev.phase = "shutdown" THEN [st EXCEPT !.dd = @ \cup {ev.mount}]
    ELSE st

FanoutFwd(st, ev) ==
    IF ev.type = "lifespan.startup.complete" THEN [st EXCEPT !.fs = @ + 1]
    ELSE IF ev.type = "lifespan.shutdown.complete" THEN [st EXCEPT !.fd = @ + 1]
    ELSE st

Min(a, b) == IF a <= b THEN a ELSE b

\* forwarded although not every mount has completed (monitor's own count and the harness' count)
FanoutFwdFails(c, st, ev) ==
    LET base == c.backend \o "/mounts=" \o S(c.n) \o "/completed=" IN
    IF ev.type = "lifespan.startup.complete"
    THEN LET k == Min(Cardinality(st.ds), ev.done_startup) IN
         If(k < c.n, <<F("startup-complete-early", base \o S(k))>>)
    ELSE IF ev.type = "lifespan.shutdown.complete"
    THEN LET k == Min(Cardinality(st.dd), ev.done_shutdown) IN
         If(k < c.n, <<F("shutdown-complete-early", base \o S(k))>>)
    ELSE <<>>

FanoutEndFails(c, st) ==
    LET base == c.backend \o "/mounts=" \o S(c.n) IN
    If(Cardinality(st.ds) = c.n /\ st.fs = 0, <<F("startup-complete-missing", base)>>)
    \o If(Cardinality(st.dd) = c.n /\ st.fd = 0, <<F("shutdown-complete-missing", base)>>)

(***************************************************************************)
(* HTTPToHTTPSRedirectMiddleware                                           *)
(***************************************************************************)
RedirectFails(c, r) ==
    LET host == IF c.host_cfg # None THEN c.host_cfg ELSE c.host_hdr
        base == c.scope \o "/" \o c.scheme
        Url(s) == MW!NewUrl(s, host, c.root_path, c.raw_path, c.query)
        okLoc == IF c.scope = "http" THEN r.location = Url("https")
                 ELSE IF c.http_version = "2" THEN r.location = Url("https") \/ r.location = Url("wss")
                 ELSE r.location = Url("wss")
        ctx  == c.scope \o "/http_version=" \o c.http_version
                \o "/host=" \o (IF c.host_cfg # None THEN "configured" ELSE "header")
                \o "/root_path=" \o (IF c.root_path = "" THEN "empty" ELSE "set")
                \o "/query=" \o (IF c.query = "" THEN "empty" ELSE "set")
    IN
    IF MW!Secure(c.scheme)
    THEN If(~(r.passed /\ r.same_scope),
            <<F("secure-not-passed", base \o (IF r.passed THEN "/scope-changed" ELSE "/not-passed"))>>)
    ELSE IF r.passed
    THEN <<F("cleartext-passed", base \o (IF c.scope = "websocket" /\ ~c.ext THEN "/no-response-extension" ELSE ""))>>
    ELSE IF host = None \/ (c.scope = "websocket" /\ ~c.ext)
    THEN <<>>
    ELSE If(r.status \notin MW!RedirectStatuses, <<F("status", c.scope \o "/status=" \o S(r.status))>>)
         \o If(~okLoc, <<F("location", ctx)>>)

(***************************************************************************)
MInit == [fails |-> <<>>, c |-> [e |-> "none"], st |-> FoInit]

MStep(m, ev) ==
    CASE ev.e \in {"proxy.case", "dispatch.case", "redirect.case", "fanout.case"} ->
            [m EXCEPT !.c = ev, !.st = FoInit]
      [] ev.e = "proxy.result" ->
            IF m.c.e = "proxy.case" THEN [m EXCEPT !.fails = @ \o ProxyFails(m.c, ev)] ELSE m
      [] ev.e = "dispatch.result" ->
            IF m.c.e = "dispatch.case" THEN [m EXCEPT !.fails = @ \o DispatchFails(m.c, ev)] ELSE m
      [] ev.e = "redirect.result" ->
            IF m.c.e = "redirect.case" THEN [m EXCEPT !.fails = @ \o RedirectFails(m.c, ev)] ELSE m
      [] ev.e = "fanout.mount" ->
            [m EXCEPT !.st = FanoutMount(m.st, ev)]
      [] ev.e = "fanout.fwd" ->
            IF m.c.e = "fanout.case"
            THEN [m EXCEPT !.fails = @ \o FanoutFwdFails(m.c, m.st, ev), !.st = FanoutFwd(m.st, ev)]
            ELSE m
      [] ev.e = "fanout.end" ->
            IF m.c.e = "fanout.case" THEN [m EXCEPT !.fails = @ \o FanoutEndFails(m.c, m.st)] ELSE m
      [] OTHER -> m

MFails(m) == m.fails
=============================================================================
