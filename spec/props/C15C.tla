------------------------------- MODULE C15C ------------------------------
(***************************************************************************)
(* C15 (connection level) - what a connection does once shutdown has been   *)
(* triggered (the worker-level part - accept loop, grace period, lifespan,  *)
(* serve() returning - is C15.tla).                                         *)
(*  cut-short                      a request in progress at the trigger     *)
(*                                 whose application then completed its     *)
(*                                 response: the client must receive it in  *)
(*                                 full                                     *)
(*  request-after-trigger-served   a request that arrived after the trigger *)
(*                                 reached an application                   *)
(*  idle-survives                  an idle connection is still open at the  *)
(*                                 quiescent point after the trigger        *)
(*  not-told-to-go-away            HTTP/2: a stream opened after the        *)
(*                                 trigger was neither refused nor was      *)
(*                                 GOAWAY sent                              *)
(***************************************************************************)
EXTENDS Obs

\* (HTTP/2 by ALPN or prior knowledge - or reached by an h2c upgrade of an HTTP/1.1 connection)
IsH2(o) == o.cfg.carrier \in {"h2", "h2prior"} \/ \E a \in DOMAIN o.reqs : Req(o, a).known /\ Req(o, a).ver = "2"
ExpLen(o, a) == IF SuppressBody(Req(o, a).method, App(o, a).status) THEN 0 ELSE App(o, a).called

PInit == [late |-> {}]     \* requests whose head arrived after the trigger

Clauses(o, ev, o2, p) ==
    CASE ev.e = "app_start" ->
            IF ev.app \in p.late THEN <<F("request-after-trigger-served", o.cfg.carrier)>> ELSE <<>>
      [] ev.e = "quiescent" /\ o.shut ->
            LET Done(a) == /\ Req(o, a).known /\ Req(o, a).kind = "http" /\ a \notin p.late /\ ~Req(o, a).rst
                           /\ Req(o, a).headAt >= 0 /\ Req(o, a).headAt <= o.shutAt
                           /\ App(o, a).started > 0 /\ App(o, a).rstart /\ App(o, a).final /\ App(o, a).parked # "send"
                           /\ App(o, a).sendExc = 0 /\ App(o, a).done \in {"", "return"}
                           /\ ~o.gone /\ ~o.reset /\ ~o.tfail /\ ~o.cerr /\ ~o.paused /\ ~o.illegal
                           /\ (~IsH2(o) \/ (SWin(o, a) > 0 /\ o.cwin > 0))
                Cut(a) == Done(a) /\ (Wire(o, a).ends = 0 \/ Wire(o, a).got # ExpLen(o, a))
                Idle == ~Busy(o) /\ \A a \in DOMAIN o.apps : App(o, a).done # "" \/ Wire(o, a).ends > 0
                Refused(a) == Wire(o, a).rst > 0 \/ o.goaway > 0 \/ o.closedAt >= 0
                OnlyEnd(a) == Cut(a) /\ IsH2(o) /\ Wire(o, a).got = ExpLen(o, a)
            IN (IF \E a \in DOMAIN o.apps : Cut(a) /\ ~OnlyEnd(a)
                THEN <<F("cut-short", IF IsH2(o) /\ o.cfg.carrier = "h1" THEN "h2c" ELSE o.cfg.carrier)>> ELSE <<>>)
            \o (IF \E a \in DOMAIN o.apps : OnlyEnd(a) THEN <<F("cut-short", "h2-end-stream-not-sent")>> ELSE <<>>)
            \o (IF Idle /\ o.closedAt < 0 /\ ~o.gone /\ ~o.reset /\ ~o.tfail /\ ~ParkedPipeline(o) /\ ~UnreadLeft(o)
                   /\ ~(\E a \in DOMAIN o.apps : App(o, a).kind = "websocket" /\ App(o, a).disc = 0)
                THEN <<F("idle-survives", o.cfg.carrier)>> ELSE <<>>)
            \o (IF IsH2(o) /\ \E a \in p.late : Req(o, a).head /\ ~Refused(a) /\ ~o.gone /\ ~o.reset
                THEN <<F("not-told-to-go-away", "")>> ELSE <<>>)
      [] OTHER -> <<>>

PStep(p, o, ev, o2) ==
    CASE ev.e = "c_send" /\ o.shut ->
            [p EXCEPT !.late = @ \cup {a \in DOMAIN o2.reqs : Req(o2, a).begun /\ ~Req(o, a).begun}]
      [] OTHER -> p

MInit == [o |-> OInit, p |-> PInit, fails |-> <<>>]
MStep(m, ev) == LET o2 == OStep(m.o, ev) IN
                [o |-> o2, p |-> PStep(m.p, m.o, ev, o2), fails |-> m.fails \o Clauses(m.o, ev, o2, m.p)]
MFails(m) == m.fails
=============================================================================
