------------------------------- MODULE C14 -------------------------------
(***************************************************************************)
(* C14 - lifespan ordering, failure handling, state isolation.             *)
(* Monitor over worker-level traces (harness/worker_env.py); all times are *)
(* virtual milliseconds.                                                   *)
(*                                                                         *)
(* Derived lifespan phase `life`:                                          *)
(*   init         lifespan.startup not yet received by the application     *)
(*   sent         lifespan.startup received, no answer yet                 *)
(*   up           lifespan.startup.complete sent                           *)
(*   unsupported  the application raised before completing startup         *)
(*   returned     the application returned without completing startup and  *)
(*                without raising: the statement names neither outcome     *)
(*                (serve / refuse) for this case, so NO clause applies     *)
(*   failed       lifespan.startup.failed sent                             *)
(*   timeout      more than startup_timeout passed in `sent` (or the       *)
(*                server cancelled the application while in init/sent)     *)
(*                                                                         *)
(* "The server accepted a connection" is observed at the server's accept   *)
(* call (c_accepted / c_connect.accepted); when the harness did not put    *)
(* the socket into listening state itself, a completed TCP handshake       *)
(* (c_connect.connected) counts as well.  An http app_start counts too.    *)
(*                                                                         *)
(* Clauses                                                                 *)
(*   startup-not-first     listeners created while the running lifespan    *)
(*                         application had not yet received startup        *)
(*   accept-before-startup accepted / scope created in init or sent        *)
(*   served-after-failure  accepted / scope created in failed or timeout   *)
(*   no-error              failed / timeout, but serve() returned normally *)
(*                         or never ended                                  *)
(*   shutdown-twice        second lifespan.shutdown                        *)
(*   shutdown-missing      serve() returned normally, startup had          *)
(*                         completed, application still there, but no      *)
(*                         lifespan.shutdown was delivered                 *)
(*   shutdown-before-drain lifespan.shutdown delivered while a request was *)
(*                         in progress and before trigger + graceful       *)
(*   state-shared          connection scopes share a state object, a value *)
(*                         written through one connection shows up in      *)
(*                         another one or in the lifespan state, or a      *)
(*                         startup value is missing in a connection        *)
(* Not demanded (statement silent): what happens after shutdown.failed or  *)
(* a raising/hanging shutdown handler; whether the server serves when the  *)
(* lifespan application returns without completing startup; closing of     *)
(* idle connections before lifespan.shutdown (only requests in progress    *)
(* are ordered reliably against server-side events in the trace).          *)
(***************************************************************************)
EXTENDS Naturals, Integers, Sequences, FiniteSets, TLC

F(clause, ctx) == <<clause, ctx>>
Add(fails, f) == IF \E i \in 1..Len(fails) : fails[i] = f THEN fails ELSE Append(fails, f)
RECURSIVE Merge(_, _)
Merge(fails, new) == IF new = <<>> THEN fails ELSE Merge(Add(fails, Head(new)), Tail(new))

Has(r, fld) == fld \in DOMAIN r
MaxOf(S) == CHOOSE x \in S : \A y \in S : y <= x
NONE == "<none>"
LastVal(ws, c, k) ==
    LET idx == {i \in 1..Len(ws) : ws[i].c = c /\ ws[i].key = k}
    IN IF idx = {} THEN NONE ELSE ws[MaxOf(idx)].val

SInit == [w |-> "?", graceful |-> 0, startupTo |-> 0, prelisten |-> TRUE,
          life |-> "init", lifeEnd |-> "", startupAt |-> -1,
          trigAt |-> -1, shutRecv |-> 0, busy |-> {}, serveOut |-> "",
          sids |-> <<>>, writes |-> <<>>, failJust |-> FALSE, kept |-> FALSE]

(* time passes: a pending startup becomes a timed-out one *)
Pre0(s, ev) ==
    IF s.life = "sent" /\ Has(ev, "now")
    THEN (IF ev.now > s.startupAt + s.startupTo THEN [s EXCEPT !.life = "timeout"] ELSE s)
    ELSE s
(* did the application survive its own lifespan.startup.failed?  (the event right after the *)
(* send is its life_done when it let the exception out)                                     *)
Pre(s, ev) ==
    LET s0 == Pre0(s, ev) IN
    IF s0.failJust THEN [s0 EXCEPT !.failJust = FALSE, !.kept = (ev.e # "life_done")] ELSE s0

IsAccept(s, ev) ==
    CASE ev.e = "c_accepted" -> TRUE
      [] ev.e = "c_connect" -> ev.accepted \/ (ev.connected /\ ~s.prelisten)
      [] ev.e = "app_start" -> ev.c # 0
      [] OTHER -> FALSE

FailureCtx(s) ==
    s.w \o (IF s.life = "timeout" THEN "/startup-timeout"
            ELSE IF s.kept THEN "/startup-failed-application-keeps-running"
            ELSE "/startup-failed")

AcceptClauses(s, ev) ==
    IF ~IsAccept(s, ev) THEN <<>>
    ELSE IF s.life \in {"failed", "timeout"} THEN <<F("served-after-failure", FailureCtx(s))>>
    ELSE IF s.life = "sent" THEN <<F("accept-before-startup", s.w \o "/startup-pending")>>
    ELSE IF s.life = "init" THEN <<F("accept-before-startup", s.w \o "/startup-not-delivered")>>
    ELSE <<>>

StateClauses(s, ev) ==
    IF ev.e = "app_start" /\ ev.c # 0
    THEN (IF \E i \in 1..Len(s.sids) : s.sids[i].sid = ev.state_id /\ s.sids[i].c = 0
          THEN <<F("state-shared", s.w \o "/connection-scope-is-the-lifespan-state-object")>>
          ELSE IF \E i \in 1..Len(s.sids) : s.sids[i].sid = ev.state_id /\ s.sids[i].c # ev.c
          THEN <<F("state-shared", s.w \o "/connections-share-one-state-object")>>
          ELSE <<>>)
    ELSE IF ev.e = "app_state" /\ ev.op = "get"
    THEN LET own   == LastVal(s.writes, ev.c, ev.key)
             lifeV == LastVal(s.writes, 0, ev.key)
             base  == IF ev.c # 0 /\ lifeV # NONE THEN lifeV ELSE "<unset>"
             exp   == IF own # NONE THEN own ELSE base
             foreign == \E i \in 1..Len(s.writes) :
                           /\ s.writes[i].key = ev.key /\ s.writes[i].val = ev.val
                           /\ s.writes[i].c # ev.c /\ s.writes[i].c # 0
         IN IF ev.val = exp \/ ev.val = base THEN <<>>   \* (a fresh copy per request is not forbidden)
            ELSE IF foreign
            THEN <<F("state-shared", s.w \o (IF ev.c = 0 THEN "/lifespan-state-sees-connection-write"
                                              ELSE "/connection-sees-other-connection-write"))>>
            ELSE IF ev.c # 0 /\ own = NONE /\ lifeV # NONE
            THEN <<F("state-shared", s.w \o "/startup-value-missing-in-connection")>>
            ELSE <<F("state-shared", s.w \o "/unexpected-value")>>
    ELSE <<>>

Clauses(s, ev) ==
    AcceptClauses(s, ev) \o StateClauses(s, ev) \o
    (CASE ev.e = "listening" ->
            IF s.startupAt < 0 /\ s.lifeEnd = ""
            THEN <<F("startup-not-first", s.w \o "/listeners-before-startup-delivered")>> ELSE <<>>
       [] ev.e = "life_recv" ->
            IF ev.type = "lifespan.shutdown"
            THEN (IF s.shutRecv >= 1 THEN <<F("shutdown-twice", s.w \o "/second-shutdown")>> ELSE <<>>)
                 \o (IF s.busy # {} /\ (s.trigAt < 0 \/ ev.now < s.trigAt + s.graceful)
                     THEN <<F("shutdown-before-drain", s.w \o "/request-in-progress")>> ELSE <<>>)
            ELSE <<>>
       [] ev.e = "serve_done" ->
            IF ev.outcome = "return"
            THEN (IF s.life \in {"failed", "timeout"}
                  THEN <<F("no-error", FailureCtx(s))>> ELSE <<>>)
                 \o (IF s.life = "up" /\ s.shutRecv = 0 /\ s.lifeEnd \in {"", "cancelled"}
                     THEN <<F("shutdown-missing", s.w \o "/application-waiting-for-shutdown")>> ELSE <<>>)
            ELSE <<>>
       [] ev.e = "final" ->
            IF s.life \in {"failed", "timeout"} /\ s.serveOut = ""
            THEN <<F("no-error", FailureCtx(s) \o "/serve-never-ended")>> ELSE <<>>
       [] OTHER -> <<>>)

Step(s, ev) ==
    CASE ev.e = "w_open" ->
            [s EXCEPT !.w = ev.worker, !.graceful = ev.graceful, !.startupTo = ev.startup_to,
                      !.prelisten = ev.prelisten]
      [] ev.e = "life_recv" ->
            IF ev.type = "lifespan.startup"
            THEN (IF s.life = "init" THEN [s EXCEPT !.life = "sent", !.startupAt = ev.now]
                  ELSE IF s.startupAt < 0 THEN [s EXCEPT !.startupAt = ev.now] ELSE s)
            ELSE IF ev.type = "lifespan.shutdown" THEN [s EXCEPT !.shutRecv = @ + 1]
            ELSE s
      [] ev.e = "life_send" ->
            IF ev.type = "lifespan.startup.complete" /\ ev.outcome = "ok" /\ s.life \in {"init", "sent"}
            THEN [s EXCEPT !.life = "up"]
            ELSE IF ev.type = "lifespan.startup.failed" /\ s.life \in {"init", "sent"}
            THEN [s EXCEPT !.life = "failed", !.failJust = TRUE]
            ELSE s
      [] ev.e = "life_done" ->
            [s EXCEPT !.lifeEnd = ev.how,
                      !.life = IF s.life \in {"init", "sent"}
                               THEN (IF ev.how = "raise" THEN "unsupported"
                                     ELSE IF ev.how = "return" THEN "returned" ELSE "timeout")
                               ELSE @]
      [] ev.e = "trigger" -> IF s.trigAt < 0 THEN [s EXCEPT !.trigAt = ev.now] ELSE s
      [] ev.e = "app_start" ->
            [s EXCEPT !.sids = Append(@, [c |-> ev.c, sid |-> ev.state_id]),
                      !.busy = IF ev.c # 0 THEN @ \cup {ev.app} ELSE @]
      [] ev.e = "app_done" -> [s EXCEPT !.busy = @ \ {ev.app}]
      [] ev.e = "app_state" ->
            IF ev.op = "set" THEN [s EXCEPT !.writes = Append(@, [c |-> ev.c, key |-> ev.key, val |-> ev.val])]
            ELSE s
      [] ev.e = "serve_done" -> [s EXCEPT !.serveOut = ev.outcome]
      [] OTHER -> s

MInit == [s |-> SInit, fails |-> <<>>]
MStep(m, ev) == LET s1 == Pre(m.s, ev) IN
                [s |-> Step(s1, ev), fails |-> Merge(m.fails, Clauses(s1, ev))]
MFails(m) == m.fails
=============================================================================
