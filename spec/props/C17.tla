------------------------------- MODULE C17 -------------------------------
(***************************************************************************)
(* C17 - the WSGI adapter conforms to PEP 3333.                            *)
(*                                                                         *)
(* A trace is  <<case, result>> :                                          *)
(*   case    the abstract input: runner, req (abstract request), app       *)
(*           (abstract WSGI application shape) - see spec/Wsgi.tla         *)
(*   result  what harness/adapters/c17.py observed when the real           *)
(*           WSGIWrapper / *WSGIMiddleware handled that request with a     *)
(*           real WSGI callable of that shape on a real event loop         *)
(* The expected values are computed here, from the case, by the oracle     *)
(* operators of spec/Wsgi.tla (the design specification TLC model-checks   *)
(* against the same operators).                                            *)
(*                                                                         *)
(* Clauses: called-count, ran-on-loop-thread, environ-<KEY>,               *)
(* response-status, response-headers, response-body, response-order,       *)
(* close-count,                                                            *)
(* limit-boundary, websocket-not-refused, exception-escaped.               *)
(*                                                                         *)
(* Deliberately NOT demanded (the statement is silent): anything about a   *)
(* path outside root_path (the code answers 404); what the client sees     *)
(* when the application itself misbehaves (raises, never calls             *)
(* start_response) - only the close() accounting is demanded there;        *)
(* wsgi.url_scheme, SERVER_NAME/PORT, REMOTE_ADDR; the number of body      *)
(* messages; the case of response header names; "" versus "/" as PATH_INFO *)
(* of the application root; "," versus ", " as the joiner.                 *)
(***************************************************************************)
EXTENDS Naturals, Integers, Sequences, FiniteSets, TLC

W == INSTANCE Wsgi WITH Dev <- {}, req <- 0, app <- 0, st <- 0

F(clause, ctx) == <<clause, ctx>>
If(cond, fails) == IF cond THEN fails ELSE <<>>

(* ---- a WebSocket request is refused -------------------------------------- *)
WsChecks(c, r) ==
    IF r.ws.accept THEN <<F("websocket-not-refused", "accepted")>>
    ELSE IF r.called > 0 THEN <<F("websocket-not-refused", "application-called")>>
    ELSE IF ~(r.ws.close \/ r.ws.denied \/ r.exc # "") THEN <<F("websocket-not-refused", "no-refusal-sent")>>
    ELSE <<>>

(* ---- the body limit --------------------------------------------------------- *)
OverCtx(rq) == IF W!BodyLen(rq) = rq.max_body + 1 THEN "body-one-over-limit" ELSE "body-over-limit"
Is400(r) == r.resp.status = 400 /\ r.resp.final

LimitChecks(rq, r) ==
    IF W!OverLimit(rq)
    THEN If(r.called # 0, <<F("limit-boundary", OverCtx(rq) \o "-application-called")>>)
         \o If(~Is400(r), <<F("limit-boundary", OverCtx(rq) \o "-not-answered-400")>>)
    ELSE If(r.called = 0 /\ r.resp.status = 400,
            <<F("limit-boundary", IF W!BodyLen(rq) = rq.max_body THEN "body-equals-limit-rejected"
                                  ELSE "body-under-limit-rejected")>>)

(* ---- environ ------------------------------------------------------------------ *)
BodyCtx(rq) == IF W!BodyLen(rq) = 0 THEN "empty-body"
               ELSE IF Len(rq.body) > 1 THEN "body-in-several-messages"
               ELSE IF W!BodyLen(rq) = rq.max_body THEN "body-equals-limit"
               ELSE "body"
PresenceCtx(rq, k) == IF k \in W!EnvKeys(rq) THEN "header-present" ELSE "header-absent"

ObservedHttp(r) == {p \in W!Range(r.env.http) : p[1] \notin {"HTTP_CONTENT_TYPE", "HTTP_CONTENT_LENGTH"}}
HttpChecks(rq, r) ==
    LET obs == ObservedHttp(r)
        keys == W!HttpKeys(rq)
        okeys == {p[1] : p \in obs}
        wrong == {k \in keys : \E p \in obs : p[1] = k /\ p[2] \notin W!ExpectedVar(rq, k)}
    IN If(\E k \in wrong : W!Repeated(rq, k), <<F("environ-HTTP", "repeated-header")>>)
       \o If(\E k \in wrong : ~W!Repeated(rq, k), <<F("environ-HTTP", "single-header")>>)
       \o If(keys \ okeys # {}, <<F("environ-HTTP", "variable-missing")>>)
       \o If(okeys \ keys # {}, <<F("environ-HTTP", "unexpected-variable")>>)

EnvChecks(rq, r) ==
    LET e == r.env IN
       If(e.method # rq.method, <<F("environ-REQUEST_METHOD", rq.method)>>)
    \o If(e.script_name # W!ExpectedScriptName(rq), <<F("environ-SCRIPT_NAME", W!PathCtx(rq))>>)
    \o If(e.path_info \notin W!ExpectedPathInfos(rq), <<F("environ-PATH_INFO", W!PathCtx(rq))>>)
    \o If(e.query_string # rq.query,
          <<F("environ-QUERY_STRING", IF rq.query = "" THEN "empty-query" ELSE "query")>>)
    \o If(e.server_protocol # W!ExpectedProtocol(rq), <<F("environ-SERVER_PROTOCOL", "http-" \o rq.version)>>)
    \o If(e.content_type \notin W!ExpectedVar(rq, "CONTENT_TYPE"),
          <<F("environ-CONTENT_TYPE", PresenceCtx(rq, "CONTENT_TYPE"))>>)
    \o If(e.content_length \notin W!ExpectedVar(rq, "CONTENT_LENGTH"),
          <<F("environ-CONTENT_LENGTH", PresenceCtx(rq, "CONTENT_LENGTH"))>>)
    \o HttpChecks(rq, r)
    \o If(e.input_len # W!BodyLen(rq) \/ ~e.input_eq, <<F("environ-wsgi.input", BodyCtx(rq))>>)

(* ---- what the application produced reaches the client ------------------------- *)
RespChecks(a, r) ==
    LET ctx == W!ShapeCtx(a)
        p == r.resp
    IN If(p.start_count # 1 \/ p.status # a.code, <<F("response-status", ctx)>>)
       \o If(p.start_count >= 1 /\ p.headers # W!ExpectedHeaders(a), <<F("response-headers", ctx)>>)
       \o If(p.total # W!ExpectedTotal(a) \/ ~p.body_eq \/ ~p.final,
             <<F("response-body", ctx)>>)
       \o If(r.exc # "", <<F("exception-escaped", ctx)>>)
       \* the adapter waits for each send before it makes the next (however long the write takes)
       \o If(~p.serial, <<F("response-order", ctx)>>)

HttpChecksAll(c, r) ==
    LET rq == c.req
        a == c.app
    IN LimitChecks(rq, r)
       \o (IF W!OverLimit(rq) \/ (r.called = 0 /\ r.resp.status = 400) THEN <<>>
           ELSE IF ~W!Specified(rq)
           THEN If(r.called > 1, <<F("called-count", "called-more-than-once")>>)
           ELSE If(r.called = 0, <<F("called-count", "not-called")>>)
                \o If(r.called > 1, <<F("called-count", "called-more-than-once")>>)
                \o (IF r.called = 0 THEN <<>>
                    ELSE If(~r.off_loop, <<F("ran-on-loop-thread", c.runner)>>)
                         \o EnvChecks(rq, r)
                         \o If(a.ret # "list" /\ r.close_calls # W!ExpectedClose(a),
                               <<F("close-count", W!ShapeCtx(a))>>)
                         \o (IF W!ExpectsResponse(a) THEN RespChecks(a, r) ELSE <<>>)))

Checks(c, r) == IF c.req.kind = "websocket" THEN WsChecks(c, r) ELSE HttpChecksAll(c, r)

MInit == [c |-> [e |-> "none"], fails |-> <<>>]
MStep(m, ev) ==
    IF ev.e = "case" THEN [m EXCEPT !.c = ev]
    ELSE IF ev.e = "result" /\ m.c.e = "case" THEN [m EXCEPT !.fails = m.fails \o Checks(m.c, ev)]
    ELSE m
MFails(m) == m.fails
=============================================================================
