------------------------------- MODULE C16 -------------------------------
(***************************************************************************)
(* C16 - protocol behaviour does not depend on the worker class.            *)
(*                                                                         *)
(* A trace holds the asyncio execution of a stimulus script, a `variant`    *)
(* event, and the trio execution of the same script.  For every application *)
(* instance the sequence of messages it received and the outcomes of its    *)
(* sends, and for every request/stream the sequence of parsed client events *)
(* (statuses, headers apart from the date, body offsets, ends, resets,      *)
(* websocket messages), must be equal, as must whether and when (virtual    *)
(* time) the server closed the transport.  Order between different          *)
(* instances inside one scheduling batch is not compared.                   *)
(*  app-seq-differs   wire-differs   close-differs                          *)
(***************************************************************************)
EXTENDS Obs

PInit == [app |-> Empty, wire |-> Empty, prevApp |-> Empty, prevWire |-> Empty, have |-> FALSE,
          prevClose |-> -2, cur |-> "asyncio", wsCC |-> FALSE, wsAC |-> FALSE, wsSrv |-> FALSE]

RECURSIVE NoDate(_)
NoDate(hs) == IF hs = <<>> THEN <<>>
              ELSE IF Head(hs)[3] = "date" THEN NoDate(Tail(hs)) ELSE <<<<Head(hs)[1], Head(hs)[2]>>>> \o NoDate(Tail(hs))

AppItem(ev) ==
    CASE ev.e = "app_start" -> <<"start", ev.sc.type>>
      [] ev.e = "app_recv" ->
            IF ev.type = "http.request" THEN <<"recv", ev.type, ev.len, ev.more, ev.match>>
            ELSE IF ev.type = "websocket.receive" THEN <<"recv", ev.type, ev.mid, ev.size>>
            ELSE IF ev.type = "websocket.disconnect" THEN <<"recv", ev.type, ev.code>>
            ELSE <<"recv", ev.type>>
      [] ev.e = "app_ret" -> <<"ret", ev.outcome>>
      [] ev.e = "app_done" -> <<"done", ev.how>>
      [] OTHER -> <<>>

WireItem(ev) ==
    CASE ev.kind = "head" -> <<"head", ev.status, NoDate(ev.headers), ev.framing>>
      [] ev.kind = "info" -> <<"info", ev.status, NoDate(ev.headers)>>
      [] ev.kind = "data" -> <<"data", ev.off, ev.len, ev.match>>
      [] ev.kind = "end" -> <<"end">>
      [] ev.kind = "rst" -> <<"rst", ev.code>>
      [] ev.kind = "goaway" -> <<"goaway", ev.code>>
      [] ev.kind = "trailers" -> <<"trailers", NoDate(ev.headers)>>
      [] ev.kind = "ws_msg" -> <<"ws_msg", ev.mkind, ev.size, ev.idx>>
      [] ev.kind = "ws_close" -> <<"ws_close", ev.code>>
      [] ev.kind = "ws_pong" -> <<"ws_pong", ev.match>>
      [] ev.kind = "truncated" -> <<"truncated">>
      [] ev.kind = "error" -> <<"error">>
      [] OTHER -> <<>>

(* DATA frame boundaries may differ between the workers (trio's send path yields inside a    *)
(* write, so the send task can coalesce differently): data items are merged before comparing *)
RECURSIVE Merge(_)
Merge(s) ==
    IF Len(s) < 2 THEN s
    ELSE LET a == s[1] b == s[2] IN
         IF a[1] = "data" /\ b[1] = "data" /\ b[2] = a[2] + a[3]
         THEN Merge(<<<<"data", a[2], a[3] + b[3], a[4] /\ b[4]>>>> \o SubSeq(s, 3, Len(s)))
         ELSE IF a[1] = "data" /\ a[3] = 0 THEN Merge(Tail(s))
         ELSE <<a>> \o Merge(Tail(s))
RECURSIVE DropEmpty(_)
DropEmpty(s) == IF s = <<>> THEN <<>>
                ELSE IF Head(s)[1] = "data" /\ Head(s)[3] = 0 THEN DropEmpty(Tail(s)) ELSE <<Head(s)>> \o DropEmpty(Tail(s))
NormWire(f) == [a \in DOMAIN f |-> DropEmpty(Merge(f[a]))]

\* (a client close frame and an application close, each made before the server had put any close frame on the
\*  wire: which of the two the server acts on first is a race between the reader and the application task that
\*  the two runtimes schedule differently)
Ctx(o, p) == IF p.wsCC /\ p.wsAC THEN "websocket-closes-crossed"
          ELSE IF o.cerr THEN "client-protocol-error"
          ELSE IF o.shut THEN "during-shutdown"
          ELSE IF ParkedPipeline(o) THEN "pipelined-request-pending"
          ELSE IF o.gone THEN "after-peer-eof"
          ELSE IF o.unusual # {} THEN CHOOSE u \in o.unusual : TRUE
          ELSE o.cfg.carrier

Clauses(o, ev, o2, p) ==
    CASE ev.e = "quiescent" /\ o.final /\ p.have ->
            (IF p.prevApp = p.app THEN <<>> ELSE <<F("app-seq-differs", Ctx(o, p))>>)
         \o (IF NormWire(p.prevWire) = NormWire(p.wire) THEN <<>> ELSE <<F("wire-differs", Ctx(o, p))>>)
         \* after a peer reset or a failed write the transport is gone whatever the server does:
         \* when the handler lets go of it is C07's business, not a protocol event
         \o (IF p.prevClose = o.closedAt \/ o.reset \/ o.tfail THEN <<>>
             ELSE <<F("close-differs", (IF (p.prevClose < 0) # (o.closedAt < 0) THEN "whether" ELSE "when") \o "/" \o Ctx(o, p))>>)
      [] OTHER -> <<>>

PStep(p, o, ev, o2) ==
    CASE ev.e = "variant" -> [PInit EXCEPT !.prevApp = p.app, !.prevWire = p.wire, !.have = TRUE,
                                           !.prevClose = o.closedAt, !.cur = "trio", !.wsCC = p.wsCC, !.wsAC = p.wsAC]
      [] ev.e = "c_ws" /\ ev.kind = "close" -> [p EXCEPT !.wsCC = @ \/ ~p.wsSrv]
      [] ev.e = "app_call" /\ ev.op = "send" /\ ev.m.type = "websocket.close" -> [p EXCEPT !.wsAC = @ \/ ~p.wsSrv]
      \* (a request first taken up after a failed write or a reset is not compared: whether the reader
      \*  survives the loss of the write side is a property of the transport, asyncio's dies, trio's need not)
      [] ev.e \in {"app_start", "app_recv", "app_ret", "app_done"} /\ ~o.final ->
            IF (o.tfail \/ o.reset) /\ ev.app \notin DOMAIN p.app THEN p
            ELSE [p EXCEPT !.app = Put(@, ev.app, Append(Get(p.app, ev.app, <<>>), AppItem(ev)))]
      \* (after a peer reset or a failed write nothing more is compared: what the client-side parser reports
      \*  at the loss of the transport depends on the fake transport, not on the server)
      [] ev.e = "wire" /\ ~o.final ->
            LET p1 == IF ev.kind = "ws_close" THEN [p EXCEPT !.wsSrv = TRUE] ELSE p IN
            IF WireItem(ev) = <<>> \/ o.reset \/ o.tfail THEN p1
            ELSE [p1 EXCEPT !.wire = Put(@, ev.app, Append(Get(p.wire, ev.app, <<>>), WireItem(ev)))]
      [] OTHER -> p

MInit == [o |-> OInit, p |-> PInit, fails |-> <<>>]
MStep(m, ev) ==
    IF ev.e = "variant"
    THEN [o |-> OInit, p |-> PStep(m.p, m.o, ev, m.o), fails |-> m.fails]
    ELSE LET o2 == OStep(m.o, ev) IN
         [o |-> o2, p |-> PStep(m.p, m.o, ev, o2), fails |-> m.fails \o Clauses(m.o, ev, o2, m.p)]
MFails(m) == m.fails
=============================================================================
