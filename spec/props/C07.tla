------------------------------- MODULE C07 -------------------------------
(***************************************************************************)
(* C07 - idle connections time out, busy ones do not, dead ones are        *)
(* released.  All times are virtual milliseconds.                          *)
(*                                                                         *)
(* The monitor derives idleness from observables only: a connection is     *)
(* busy between a complete request head and the end of its response (or    *)
(* while a WebSocket is open) and idle otherwise; idleStart is the instant *)
(* it last became idle.                                                    *)
(*                                                                         *)
(*  closed-early          closed by the server while idle, before          *)
(*                        idleStart + keep_alive_timeout, with no cause    *)
(*  not-closed-when-idle  still open at a quiescent point although idle    *)
(*                        for >= the timeout since the later of idleStart  *)
(*                        and the last client byte (or shutdown began)     *)
(*  closed-while-busy     closed while busy although nothing went wrong    *)
(*  handler-lingers       peer gone / server closed, every application     *)
(*                        returned, yet the handler is still alive at the  *)
(*                        quiescent point (it does finish later)           *)
(*  handler-leaked        ... and is still alive at the final quiescent    *)
(*                        point, after every timeout has run out           *)
(*  task-leaked           handler finished but one of its tasks is alive   *)
(***************************************************************************)
EXTENDS Obs

PInit == [idle |-> TRUE, idleStart |-> 0, everBusy |-> FALSE, lastKind |-> "fresh"]

T(o) == o.cfg.ka

NoCause(o) == ~o.shut /\ ~o.gone /\ ~o.reset /\ ~o.tfail /\ ~o.cerr /\ ~o.winddown
AllAppsQuiet(o) == \A a \in DOMAIN o.apps : App(o, a).done \in {"", "return"} /\ App(o, a).sendExc = 0
\* (an application that ended without its last message abandoned its response: even where the bytes on the wire
\*  look complete - a HEAD response ends with its head - the connection cannot be kept)
Abandoned(o, a) == App(o, a).rstart /\ ~App(o, a).final /\ App(o, a).done # ""
CleanHistory(o) == \A a \in DOMAIN o.reqs : Wire(o, a).ends > 0 =>
                        ((Reusable(o, a) \/ Req(o, a).kind = "badhost" \/ Req(o, a).ver = "2") /\ ~Abandoned(o, a))
WsOpen(o) == \E a \in DOMAIN o.apps : App(o, a).kind = "websocket" /\ App(o, a).done = ""
                                        /\ App(o, a).disc = 0 /\ Wire(o, a).heads > 0 /\ Wire(o, a).status \in {101, 200}
                                        /\ Wire(o, a).ends = 0

IdleNow(o) == ~Busy(o) /\ ~WsOpen(o)

AllReturned(o) == \A a \in DOMAIN o.apps : App(o, a).done # ""
Cause(o) == IF o.reset THEN "peer-reset" ELSE IF o.gone THEN "peer-eof"
            ELSE IF o.tfail THEN "write-failed" ELSE "server-close"

Clauses(o, ev, o2, p) ==
    CASE ev.e = "t_close" ->
            IF ~NoCause(o) \/ ~AllAppsQuiet(o) THEN <<>>
            ELSE IF p.idle /\ CleanHistory(o)
                 THEN (IF ev.now < p.idleStart + T(o) THEN <<F("closed-early", p.lastKind)>> ELSE <<>>)
                 ELSE IF ~p.idle /\ CleanHistory(o)
                         /\ \A a \in DOMAIN o.reqs : BusyReq(o, a) => App(o, a).done = ""
                         \* (a response delimited by the end of the connection is finished by this very close)
                         \* (... or has been handed over completely by its application while the client was not
                         \*  reading: what is on the wire is then unknown to the observer, and a connection that
                         \*  cannot be kept - HTTP/1.0, connection: close - is closed right behind the last message)
                         /\ \A b \in DOMAIN o.reqs : BusyReq(o, b) =>
                                ~(App(o, b).final /\ (Wire(o, b).framing = "close" \/ Req(o, b).ver = "1.0" \/ Req(o, b).wantclose
                                                      \/ o.paused))
                      THEN <<F("closed-while-busy", IF WsOpen(o) THEN "websocket"
                                                    ELSE IF ParkedPipeline(o) THEN "pipelined-request-pending"
                                                    ELSE o.cfg.carrier)>>
                      ELSE <<>>
      [] ev.e = "quiescent" ->
            (IF /\ p.idle /\ o.closedAt < 0 /\ ~o.gone /\ ~o.reset /\ ~o.tfail /\ o.opened
                /\ (o.shut \/ ev.now >= Max(p.idleStart, o.lastByteAt) + T(o))
             THEN <<F("not-closed-when-idle", IF UnreadLeft(o) THEN "request-messages-unread"
                                              ELSE IF o.shut THEN "shutdown"
                                              ELSE IF o.cfg.carrier = "h2prior" /\ p.lastKind = "fresh" THEN "fresh-prior-knowledge"
                                              ELSE p.lastKind)>> ELSE <<>>)
         \o (IF /\ (o.gone \/ o.reset \/ o.closedAt >= 0) /\ AllReturned(o) /\ o.opened
                /\ ~o.paused
             THEN (IF ev.handler
                   THEN (IF o.final
                         THEN <<F("handler-leaked",
                                  IF ParkedPipeline(o) THEN "pipelined-request-parked"
                                  ELSE IF UnreadLeft(o) THEN "request-messages-unread" ELSE Cause(o))>>
                         ELSE IF ParkedPipeline(o) \/ UnreadLeft(o) THEN <<>>   \* judged at the final point
                         ELSE <<F("handler-lingers", Cause(o))>>)
                   ELSE IF ev.live > 0 THEN <<F("task-leaked", o.cfg.carrier)>> ELSE <<>>)
             ELSE <<>>)
      [] OTHER -> <<>>

PStep(p, o, ev, o2) ==
    LET idle2 == IdleNow(o2) IN
    [p EXCEPT !.idle = idle2,
              !.idleStart = IF idle2 /\ ~p.idle THEN o2.now ELSE @,
              !.everBusy = @ \/ ~idle2,
              !.lastKind = IF idle2 /\ ~p.idle
                           THEN (IF ev.e = "wire" /\ Req(o, ev.app).kind = "badhost" THEN "after-error-response"
                                 ELSE IF o.cfg.carrier = "h1" THEN "keep-alive" ELSE "no-open-streams")
                           ELSE @]

MInit == [o |-> OInit, p |-> PInit, fails |-> <<>>]
MStep(m, ev) == LET o2 == OStep(m.o, ev) IN
                [o |-> o2, p |-> PStep(m.p, m.o, ev, o2), fails |-> m.fails \o Clauses(m.o, ev, o2, m.p)]
MFails(m) == m.fails
=============================================================================
