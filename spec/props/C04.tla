------------------------------- MODULE C04 -------------------------------
(***************************************************************************)
(* C04 - no client input causes an internal error; HTTP/2 faults stay on    *)
(* their stream.                                                            *)
(*                                                                         *)
(*  internal-error          the connection handler ended with an exception, *)
(*                          or the event loop's exception handler was hit   *)
(*  server-output-malformed what the server wrote does not parse            *)
(*  h1-4xx-close            malformed HTTP/1 with no response in progress:  *)
(*                          hinted 4xx, then the transport is closed        *)
(*  h2-goaway-close         HTTP/2 protocol violation: GOAWAY and/or close  *)
(*  h2-sibling-harmed       a merely unusual request on one stream: the     *)
(*                          sibling stream must still complete normally     *)
(*  h2-sibling-starved      ... and must not lose its upload credit         *)
(*  h2-connection-dropped   ... and the connection must stay open           *)
(*  not-terminated          after the client closed its side, and all       *)
(*                          applications returned, the handler never ends   *)
(***************************************************************************)
EXTENDS Obs

IsH2(o) == o.opened /\ o.cfg.carrier \in {"h2", "h2prior"}

Clauses(o, ev, o2) ==
    CASE ev.e = "handler_done" ->
            \* (context: the unusual input the script is about when there is one, else the exception)
            IF ev.exc \in {"none", "cancelled"} THEN <<>>
            ELSE <<F("internal-error", IF o.unusual # {} THEN CHOOSE u \in o.unusual : TRUE ELSE ev.exc)>>
      [] ev.e = "loop_error" -> <<F("internal-error", "loop:" \o ev.exc)>>
      [] ev.e = "wire" /\ ev.kind = "error" -> <<F("server-output-malformed", o.cfg.carrier)>>
      [] ev.e = "quiescent" ->
            LET BadFirst(a) == /\ Req(o, a).known /\ Req(o, a).bad /\ Req(o, a).ver # "2" /\ o.cerr
                               /\ (Req(o, a).idx = 1 \/ Wire(o, o.order[Req(o, a).idx - 1]).ends > 0)
                               /\ ~o.gone /\ ~o.reset /\ ~o.tfail
                No4xx(a) == BadFirst(a) /\ ~(Wire(o, a).heads = 1 /\ Wire(o, a).status >= 400 /\ Wire(o, a).status < 500
                                             /\ o.closedAt >= 0)
                Sib(a) == /\ IsH2(o) /\ o.unusual # {} /\ ~o.illegal /\ Req(o, a).known /\ Req(o, a).kind = "http"
                          /\ App(o, a).done = "return" /\ App(o, a).final /\ App(o, a).sendExc = 0
                          /\ ~Req(o, a).rst
                Harmed(a) == Sib(a) /\ o.final /\ Wire(o, a).ends = 0
                \* ... or was never taken up at all: its head reached a connection that nothing had ended, yet no
                \* application instance was started for it
                Ignored(a) == /\ IsH2(o) /\ o.unusual # {} /\ ~o.illegal /\ o.final /\ Req(o, a).known /\ Req(o, a).kind = "http"
                              /\ Req(o, a).head /\ ~Req(o, a).bad /\ ~Req(o, a).rst /\ App(o, a).started = 0
                              /\ Wire(o, a).heads = 0 /\ Wire(o, a).rst = 0
                              /\ o.goaway = 0 /\ ~o.shut /\ ~o.reset /\ ~o.tfail /\ ~o.cerr
            IN (IF \E a \in DOMAIN o.reqs : No4xx(a) THEN <<F("h1-4xx-close", "")>> ELSE <<>>)
            \o (IF IsH2(o) /\ o.illegal /\ ~o.gone /\ ~o.reset /\ ~o.tfail /\ o.goaway = 0 /\ o.closedAt < 0
                THEN <<F("h2-goaway-close", "")>> ELSE <<>>)
            \o (IF \E a \in DOMAIN o.reqs : Harmed(a) \/ Ignored(a)
                THEN <<F("h2-sibling-harmed", CHOOSE u \in o.unusual : TRUE)>> ELSE <<>>)
            \o (IF IsH2(o) /\ o.unusual # {} /\ ~o.winddown /\ \E a \in DOMAIN o.stalled : UploadStarved(o, a)
                THEN <<F("h2-sibling-starved", CHOOSE u \in o.unusual : TRUE)>> ELSE <<>>)
            \o (IF IsH2(o) /\ o.unusual # {} /\ ~o.illegal /\ ~o.winddown /\ ~o.gone /\ ~o.reset /\ ~o.tfail /\ ~o.shut
                   /\ o.closedAt >= 0 /\ o.now < o.cfg.ka
                THEN <<F("h2-connection-dropped", CHOOSE u \in o.unusual : TRUE)>> ELSE <<>>)
            \o (IF o.final /\ ev.handler /\ ~ParkedPipeline(o) /\ ~UnreadLeft(o)
                   /\ \A a \in DOMAIN o.apps : App(o, a).done # ""
                THEN <<F("not-terminated", IF o.unusual # {} THEN CHOOSE u \in o.unusual : TRUE ELSE o.cfg.carrier)>>
                ELSE <<>>)
      [] OTHER -> <<>>

MInit == [o |-> OInit, fails |-> <<>>]
MStep(m, ev) == LET o2 == OStep(m.o, ev) IN [o |-> o2, fails |-> m.fails \o Clauses(m.o, ev, o2)]
MFails(m) == m.fails
=============================================================================
