------------------------------- MODULE C12 -------------------------------
(***************************************************************************)
(* C12 - invalid application messages are rejected without corrupting the   *)
(* wire.  The reference automata live in Asgi.tla (ASGI specification +     *)
(* the statement's own list); this monitor runs them next to the real       *)
(* stream for every application instance.                                   *)
(*  accepted-invalid   a send the automaton says must raise returned ok      *)
(*  wire-touched       ... or put something on the wire before raising      *)
(*  two-heads          more than one final response head for one request    *)
(*  ctl-on-wire        CR, LF or NUL inside a header that reached the wire  *)
(*  prefix-invalid     the bytes written no longer parse                    *)
(*  accepted-lost      the accepted messages form a complete response but   *)
(*                     the client never gets its end                        *)
(* Applies while the request is alive (no disconnect delivered, client      *)
(* present): after closure sends are no-ops by C03.                         *)
(***************************************************************************)
EXTENDS Obs

A == INSTANCE Asgi WITH MaxLen <- 0, st <- 0, n <- 0, kind <- 0, starts <- 0, afterClosed <- 0

PInit == [as |-> Empty, call |-> [app |-> "", verdict |-> "", touched |-> FALSE, ctx |-> "", type |-> ""]]

Norm(mm) == [type |-> mm.type,
             cls |-> IF Has(mm, "cls") THEN mm.cls ELSE "ok",
             more |-> IF Has(mm, "more") THEN mm.more ELSE FALSE,
             trailers |-> IF Has(mm, "trailers") THEN mm.trailers ELSE FALSE]

StOf(p, o, a) == Get(p.as, a, IF App(o, a).kind = "websocket" THEN A!WsInit ELSE A!HttpInit)
Step(p, o, a, mm) == IF App(o, a).kind = "websocket" THEN A!WsStep(StOf(p, o, a), Norm(mm))
                     ELSE A!HttpStep(StOf(p, o, a), Norm(mm), Req(o, a).ver)
Alive(o, a) == App(o, a).disc = 0 /\ Connected(o) /\ ~o.cerr /\ Req(o, a).known /\ ~Req(o, a).rst

Clauses(o, ev, o2, p) ==
    CASE ev.e = "app_ret" /\ ev.op = "send" ->
            IF p.call.app = ev.app /\ p.call.verdict = "raise" /\ Alive(o, ev.app)
            THEN (IF ev.outcome = "ok" THEN <<F("accepted-invalid", p.call.ctx)>> ELSE <<>>)
              \o (IF p.call.touched THEN <<F("wire-touched", p.call.ctx)>> ELSE <<>>)
            ELSE <<>>
      [] ev.e = "wire" ->
            (IF ev.kind = "head" /\ Wire(o, ev.app).heads >= 1 THEN <<F("two-heads", o.cfg.carrier)>> ELSE <<>>)
         \o (IF ev.kind \in {"head", "info", "trailers", "push"} /\ Has(ev, "ctl") /\ ev.ctl
             THEN <<F("ctl-on-wire", o.cfg.carrier \o "/" \o p.call.type)>> ELSE <<>>)
         \o (IF ev.kind = "error" THEN <<F("prefix-invalid", o.cfg.carrier)>> ELSE <<>>)
      [] ev.e = "quiescent" /\ ~o.winddown ->
            \* the messages the automaton accepted (and the server accepted) amount to a complete response:
            \* it has to be on the wire, whatever invalid or unspecified messages were interleaved
            \* (the disconnect an application is handed after its last message is part of a normal ending)
            LET Lost(a) == /\ App(o, a).kind = "http" /\ ~o.paused
                           /\ Connected(o) /\ ~o.cerr /\ Req(o, a).known /\ ~Req(o, a).rst
                           /\ a \in DOMAIN p.as /\ p.as[a].s = "CLOSED"
                           /\ Wire(o, a).ends = 0 /\ Wire(o, a).rst = 0
            IN IF \E a \in DOMAIN o.apps : Lost(a)
               THEN <<F("accepted-lost", o.cfg.carrier)>> ELSE <<>>
      [] OTHER -> <<>>

PStep(p, o, ev, o2) ==
    CASE ev.e = "app_call" /\ ev.op = "send" ->
            LET a == ev.app r == Step(p, o, a, ev.m) IN
            [p EXCEPT !.call = [app |-> a, verdict |-> r.verdict, touched |-> FALSE,
                                ctx |-> ev.m.type \o "/"
                                        \o (IF A!MustRaisePayload(Norm(ev.m)) THEN Norm(ev.m).cls ELSE StOf(p, o, a).s)
                                        \o "/" \o (IF Req(o, a).ver = "2" THEN "h2" ELSE "h1"),
                                type |-> ev.m.type]]
      [] ev.e = "wire" /\ p.call.app # "" /\ ev.kind \in {"head", "info", "data", "end", "trailers", "push", "rst",
                                                         "ws_msg", "ws_close", "frame", "ws_accept"} ->
            IF ev.app = p.call.app \/ ev.kind = "push" THEN [p EXCEPT !.call.touched = TRUE] ELSE p
      [] ev.e = "app_ret" /\ ev.op = "send" ->
            LET a == ev.app IN
            IF p.call.app # a THEN p
            ELSE LET r == Step(p, o, a, App(o, a).lastCall) IN
                 [p EXCEPT !.call = [app |-> "", verdict |-> "", touched |-> FALSE, ctx |-> "", type |-> ""],
                           !.as = Put(@, a, IF ev.outcome = "ok" /\ r.verdict # "raise" THEN r.st ELSE StOf(p, o, a))]
      [] OTHER -> p

MInit == [o |-> OInit, p |-> PInit, fails |-> <<>>]
MStep(m, ev) == LET o2 == OStep(m.o, ev) IN
                [o |-> o2, p |-> PStep(m.p, m.o, ev, o2), fails |-> m.fails \o Clauses(m.o, ev, o2, m.p)]
MFails(m) == m.fails
=============================================================================
