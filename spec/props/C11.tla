------------------------------- MODULE C11 -------------------------------
(***************************************************************************)
(* C11 - WebSocket handshake validation and lifecycle mapping.              *)
(*                                                                         *)
(* Domain: requests that open a WebSocket (HTTP/1: GET + Upgrade: websocket *)
(* + a Connection token "upgrade"; HTTP/2: CONNECT) - c_req.hs.domain.      *)
(* The handshake arrives structured (c_req.hs) and validity is decided here.*)
(*  invalid-accepted     invalid handshake not answered 400 / app started   *)
(*  valid-rejected       valid handshake answered by the server itself      *)
(*  connect-first        first message is not websocket.connect             *)
(*  accept-rendering     accept: 101 (h1) / 200 (h2), RFC 6455 token, only  *)
(*                       an offered subprotocol, the extra headers          *)
(*  close-403            websocket.close during the handshake: 403          *)
(*  denial-rendering     http.response extension rendered exactly           *)
(*  client-code          client-initiated close: its code (1005 if none)    *)
(*  own-1000             close initiated by the application: 1000           *)
(*  lost-1006            connection lost: 1006                              *)
(***************************************************************************)
EXTENDS Obs

Valid(h) == IF h.ver = "2" THEN h.wsver = "13" /\ h.method = "CONNECT"
            ELSE h.ver = "1.1" /\ h.method = "GET" /\ h.key /\ h.wsver = "13"

HS(o, a) == Req(o, a).c.hs

PInit == [decision |-> Empty, sub |-> Empty, xh |-> Empty, denial |-> Empty, closer |-> Empty, ccode |-> Empty,
          early |-> {}, appClose |-> Empty, srvClose |-> Empty, crossed |-> Empty]

InSeq(x, s) == \E i \in 1..Len(s) : s[i] = x
HasHdr(hs, n, v) == \E i \in 1..Len(hs) : hs[i][3] = n /\ hs[i][2] = v

Clauses(o, ev, o2, p) ==
    CASE ev.e = "app_start" /\ ev.sc.type = "websocket" ->
            IF Req(o, ev.app).known /\ HS(o, ev.app).domain /\ ~Valid(HS(o, ev.app))
            THEN <<F("invalid-accepted", "application-started")>>
            \* a request that is not an opening handshake at all (another method, no Upgrade: websocket, no
            \* Connection: upgrade) is plain HTTP: no WebSocket application may be started for it
            ELSE IF Req(o, ev.app).known /\ ~HS(o, ev.app).domain /\ Req(o, ev.app).kind = "http"
                 THEN <<F("invalid-accepted", "upgrade-outside-domain")>> ELSE <<>>
      \* ... and a valid opening handshake is a WebSocket, however its header values are spelled
      [] ev.e = "app_start" /\ ev.sc.type = "http" ->
            IF Req(o, ev.app).known /\ Req(o, ev.app).kind = "ws" /\ HS(o, ev.app).domain /\ Valid(HS(o, ev.app)) /\ ~o.cerr
            THEN <<F("valid-rejected", "served-as-http")>> ELSE <<>>
      [] ev.e = "app_recv" ->
            LET a == ev.app s == App(o, a) IN
            IF s.kind # "websocket" THEN <<>> ELSE
               (IF s.msgs = 0 /\ ev.type # "websocket.connect" THEN <<F("connect-first", ev.type)>> ELSE <<>>)
            \o (IF ev.type = "websocket.disconnect"
                THEN LET who == Get(p.closer, a, "") IN
                     CASE who = "client" /\ ~Has(p.appClose, a) ->
                            IF ev.code = Get(p.ccode, a, 1005) THEN <<>> ELSE <<F("client-code", "")>>
                       \* (the application closed as well, after the client's frame had been written: judged at the
                       \*  end by the close frame the server put on the wire - see `crossed`)
                       [] who = "client" -> <<>>
                       [] who = "app" -> IF ev.code = 1000 THEN <<>> ELSE <<F("own-1000", "")>>
                       [] who = "" /\ (o.gone \/ o.reset \/ o.tfail) /\ Get(p.decision, a, "") = "accept" ->
                            IF ev.code = 1006 THEN <<>> ELSE <<F("lost-1006", "")>>
                       [] OTHER -> <<>>
                ELSE <<>>)
      [] ev.e = "wire" /\ ev.kind \in {"head", "info"} /\ Req(o, ev.app).known /\ Req(o, ev.app).kind = "ws" ->
            LET a == ev.app h == HS(o, a) d == Get(p.decision, a, "") IN
            IF ~h.domain \/ o.cerr THEN <<>>
            ELSE IF ~Valid(h) THEN (IF ev.status = 400 THEN <<>> ELSE <<F("invalid-accepted", "not-400")>>)
            ELSE CASE d = "accept" ->
                        (IF ev.status = (IF h.ver = "2" THEN 200 ELSE 101) THEN <<>> ELSE <<F("accept-rendering", "status")>>)
                     \o (IF \A i \in 1..Len(Get(p.xh, a, <<>>)) :
                                HasHdr(ev.headers, Get(p.xh, a, <<>>)[i][1], Get(p.xh, a, <<>>)[i][2])
                         THEN <<>> ELSE <<F("accept-rendering", "extra-headers")>>)
                   [] d = "close" -> IF ev.status = 403 THEN <<>> ELSE <<F("close-403", "")>>
                   [] d = "denial" ->
                        (IF ev.status = Get(p.denial, a, [status |-> 0]).status THEN <<>> ELSE <<F("denial-rendering", "status")>>)
                   \* (a client that writes frames before the handshake is answered has left the protocol: the 400
                   \*  that refuses it is the server's own, whatever the application was about to decide)
                   [] d = "" /\ App(o, a).done = "" /\ App(o, a).started > 0 /\ ev.status # 500
                      /\ ~(a \in p.early /\ ev.status = 400) ->
                        <<F("valid-rejected", "response-without-decision")>>
                   [] d = "" /\ App(o, a).started = 0 /\ ev.status = 400 /\ ~o.shut ->
                        <<F("valid-rejected", "400")>>
                   [] OTHER -> <<>>
      [] ev.e = "wire" /\ ev.kind = "ws_accept" ->
            LET a == ev.app h == HS(o, a) IN
               (IF ev.token_ok /\ (ev.has_token <=> h.ver # "2") THEN <<>> ELSE <<F("accept-rendering", "accept-token")>>)
            \o (IF ev.subprotocol = Get(p.sub, a, "") /\ (ev.subprotocol = "" \/ InSeq(ev.subprotocol, h.subprotos))
                THEN <<>> ELSE <<F("accept-rendering", "subprotocol")>>)
      [] ev.e = "quiescent" ->
            LET Settled(a) == Req(o, a).known /\ Req(o, a).kind = "ws" /\ HS(o, a).domain
                              \* (an extended CONNECT leaves its stream open: the request is its head)
                              /\ (Req(o, a).done \/ (Req(o, a).ver = "2" /\ Req(o, a).head))
                              /\ Connected(o) /\ ~o.cerr /\ ~o.paused /\ ~o.shut
                BadNo400(a) == Settled(a) /\ ~Valid(HS(o, a)) /\ Req(o, a).ver # "2" /\ Wire(o, a).heads = 0
                DenialBody(a) == /\ Settled(a) /\ Get(p.decision, a, "") = "denial" /\ App(o, a).final /\ App(o, a).parked # "send"
                                 /\ App(o, a).sendExc = 0
                                 /\ (Wire(o, a).ends = 0 \/ Wire(o, a).bad > 0
                                     \/ Wire(o, a).got # (IF SuppressBody("GET", Get(p.denial, a, [status |-> 0]).status)
                                                          THEN 0 ELSE App(o, a).called))
                \* crossing closes: the client's close frame was written first and the application closed too.  If the
                \* only close frame the server sent is the echo of the client's code it was a client-initiated close
                \* for the server as well, and the application is told that code; if the server sent the
                \* application's own close, the orders differ by observer and either answer is accepted.
                Crossed(a) == /\ o.final /\ Has(p.crossed, a) /\ Has(p.srvClose, a)
                              /\ p.srvClose[a] = Get(p.ccode, a, 1005) /\ p.srvClose[a] # p.appClose[a]
                              /\ p.crossed[a] # Get(p.ccode, a, 1005)
            IN (IF \E a \in DOMAIN o.reqs : BadNo400(a) THEN <<F("invalid-accepted", "no-400")>> ELSE <<>>)
            \o (IF \E a \in DOMAIN p.crossed : Crossed(a) THEN <<F("client-code", "crossing-closes")>> ELSE <<>>)
            \o (IF \E a \in DOMAIN o.reqs : DenialBody(a) THEN <<F("denial-rendering", "body")>> ELSE <<>>)
      [] OTHER -> <<>>

PStep(p, o, ev, o2) ==
    CASE ev.e = "app_call" /\ ev.op = "send" ->
            LET a == ev.app mm == ev.m d == Get(p.decision, a, "") IN
            CASE mm.type = "websocket.accept" /\ d = "" ->
                    [p EXCEPT !.decision = Put(@, a, "accept"),
                              !.sub = Put(@, a, IF Has(mm, "subprotocol") THEN mm.subprotocol ELSE ""),
                              !.xh = Put(@, a, IF Has(mm, "headers") THEN mm.headers ELSE <<>>)]
              [] mm.type = "websocket.close" /\ d = "" -> [p EXCEPT !.decision = Put(@, a, "close")]
              [] mm.type = "websocket.close" /\ d = "accept" /\ Get(p.closer, a, "") = "" ->
                    [p EXCEPT !.closer = Put(@, a, "app")]
              [] mm.type = "websocket.close" /\ d = "accept" /\ ~Has(p.appClose, a) ->
                    [p EXCEPT !.appClose = Put(@, a, IF Has(mm, "code") THEN mm.code ELSE 1000)]
              [] mm.type = "websocket.http.response.start" /\ d = "" ->
                    [p EXCEPT !.decision = Put(@, a, "denial"), !.denial = Put(@, a, [status |-> mm.status])]
              [] OTHER -> p
      [] ev.e = "c_ws" /\ Has(ev, "early") /\ ev.early -> [p EXCEPT !.early = @ \cup {ev.app}]
      [] ev.e = "c_ws" /\ ev.kind = "close" ->
            IF Get(p.closer, ev.app, "") = ""
            THEN [p EXCEPT !.closer = Put(@, ev.app, "client"),
                           !.ccode = Put(@, ev.app, IF ev.size < 0 THEN 1005 ELSE ev.size)]
            ELSE p
      [] ev.e = "wire" /\ ev.kind = "ws_close" ->
            [p EXCEPT !.closer = IF Get(p.closer, ev.app, "") = "" THEN Put(@, ev.app, "server") ELSE @,
                      !.srvClose = IF Has(p.srvClose, ev.app) THEN @ ELSE Put(@, ev.app, ev.code)]
      [] ev.e = "app_recv" /\ ev.type = "websocket.disconnect" /\ Get(p.closer, ev.app, "") = "client"
         /\ Has(p.appClose, ev.app) /\ ~Has(p.crossed, ev.app) ->
            [p EXCEPT !.crossed = Put(@, ev.app, ev.code)]
      [] OTHER -> p

MInit == [o |-> OInit, p |-> PInit, fails |-> <<>>]
MStep(m, ev) == LET o2 == OStep(m.o, ev) IN
                [o |-> o2, p |-> PStep(m.p, m.o, ev, o2), fails |-> m.fails \o Clauses(m.o, ev, o2, m.p)]
MFails(m) == m.fails
=============================================================================
