------------------------------- MODULE C08 -------------------------------
(***************************************************************************)
(* C08 - send backpressure is applied, bounded, and always released.        *)
(*                                                                         *)
(*  held-unbounded        at a quiescent point the server holds (accepted   *)
(*                        from applications, not yet taken by the client)   *)
(*                        more than the bound: per stream the buffer high   *)
(*                        water mark + 2 application chunks, plus the       *)
(*                        transport's own high water mark                   *)
(*  send-never-released   a send is still waiting at a quiescent point      *)
(*                        although its stream was reset, the connection     *)
(*                        closed / the peer went away, or the pressure      *)
(*                        abated (transport resumed, windows positive)      *)
(*  sibling-blocked       while one stream waits for credit another stream  *)
(*                        with credit does not progress                     *)
(***************************************************************************)
EXTENDS Obs

HW == 32768
THW == 65536

NStreams(o) == Cardinality({a \in DOMAIN o.apps : App(o, a).started > 0 /\ App(o, a).done = ""})
Bound(o) == (IF NStreams(o) > 0 THEN NStreams(o) ELSE 1) * (HW + 2 * o.cfg.maxchunk) + THW + o.cfg.maxchunk + 16384

ExpLen(o, a) == IF SuppressBody(Req(o, a).method, App(o, a).status) THEN 0 ELSE App(o, a).called
IsH2(o) == o.cfg.carrier \in {"h2", "h2prior"}

Waiting(o, a) == App(o, a).parked = "send"

Clauses(o, ev, o2) ==
    CASE ev.e = "quiescent" /\ o.opened ->
            \* (what applications pass for a stream the client has reset is discarded, not held; the
            \*  harness's figure does not tell the two apart, so such histories are not judged)
            (IF Connected(o) /\ ev.held + ev.tbuf > Bound(o) /\ ~\E a \in DOMAIN o.reqs : Req(o, a).rst
             THEN <<F("held-unbounded",
                      IF IsH2(o) /\ (o.cwin <= 0 \/ \E a \in DOMAIN o.apps : Waiting(o, a) /\ SWin(o, a) <= 0)
                      THEN "h2-window-exhausted"
                      ELSE IF IsH2(o) /\ \E a \in DOMAIN o.apps : App(o, a).rstart /\ SWin(o, a) <= 0
                      THEN "h2-window-exhausted" ELSE o.cfg.carrier)>>
             ELSE <<>>)
         \o (LET Reset(a)  == Waiting(o, a) /\ Req(o, a).rst
                 \* (a client that half-closed but does not read leaves the transport paused: the
                 \*  pressure has not abated and nothing is demanded until it reads, resets or is closed)
                 Gone(a)   == Waiting(o, a) /\ ((o.gone /\ ~o.paused) \/ o.reset \/ o.closedAt >= 0)
                 Abated(a) == /\ Waiting(o, a) /\ ~o.paused /\ ~o.gone /\ ~o.reset /\ o.closedAt < 0 /\ ~o.tfail
                              /\ ~Req(o, a).rst
                              /\ (IsH2(o) => (SWin(o, a) > 0 /\ o.cwin > 0))
             IN (IF \E a \in DOMAIN o.apps : Reset(a) THEN <<F("send-never-released", "stream-reset")>> ELSE <<>>)
             \o (IF \E a \in DOMAIN o.apps : Gone(a)
                 THEN <<F("send-never-released", IF o.gone \/ o.reset THEN "peer-gone"
                                                 ELSE IF o.tfail THEN "write-failed" ELSE "server-close")>>
                 ELSE <<>>)
             \o (IF \E a \in DOMAIN o.apps : Abated(a) THEN <<F("send-never-released", "pressure-abated")>> ELSE <<>>))
         \o (IF IsH2(o) /\ Connected(o) /\ ~o.paused
                /\ \E a \in DOMAIN o.apps : \E b \in DOMAIN o.apps :
                     /\ a # b /\ Waiting(o, a) /\ SWin(o, a) <= 0
                     /\ App(o, b).rstart /\ ~Req(o, b).rst /\ App(o, b).disc = 0 /\ App(o, b).sendExc = 0
                     /\ SWin(o, b) > 0 /\ o.cwin > 0 /\ Wire(o, b).got < ExpLen(o, b)
             THEN <<F("sibling-blocked", "")>> ELSE <<>>)
      [] OTHER -> <<>>

(* ... including the send the server makes on the application's behalf when it ends: on HTTP/2 an abandoned  *)
(* response is flushed and reset after the application has returned, and that wait must end with the          *)
(* connection as well - visible only as a connection handler that never finishes.                            *)
Hidden(o, ev) ==
    IF ev.e = "quiescent" /\ o.opened /\ IsH2(o) /\ o.final /\ ev.handler
       /\ (o.gone \/ o.reset \/ o.closedAt >= 0)
       /\ \A a \in DOMAIN o.apps : App(o, a).done # ""
    THEN <<F("send-never-released", "after-application-ended")>> ELSE <<>>

MInit == [o |-> OInit, fails |-> <<>>]
MStep(m, ev) == LET o2 == OStep(m.o, ev) IN [o |-> o2, fails |-> m.fails \o Clauses(m.o, ev, o2) \o Hidden(m.o, ev)]
MFails(m) == m.fails
=============================================================================
