SPECIFICATION Spec
CONSTANT MaxLen = 4
INVARIANT AtMostOneStart
INVARIANT NothingAfterCompletion
INVARIANT StateTyped
CHECK_DEADLOCK FALSE
