\* cd /verif/spec && tlc -workers 8 -metadir /tmp/mw_meta -noGenerateSpecTE -config MC_Middleware.cfg Middleware.tla
\* Deviation switch (expects InvFanoutNeverEarly to be violated):  CONSTANT DevFanoutAny <- On
SPECIFICATION Spec
INVARIANTS
    InvTrustBoundary
    InvTrustedPosition
    InvRouteFirstMatch
    InvRouteNeverEmpty
    InvFanoutNeverEarly
    InvFanoutAtMostOnce
    InvFanoutIffAll
    InvFanoutOrder
CHECK_DEADLOCK FALSE
