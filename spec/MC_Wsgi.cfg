\* cd /verif/spec && tlc -workers 8 -metadir /tmp/wsgi_meta -noGenerateSpecTE -config MC_Wsgi.cfg Wsgi.tla
\* Deviation switches (set Dev to e.g. {"EarlyStartCheck"} to see the invariants catch them):
\*   "EarlyStartCheck"  the pinned code: start_response demanded right after the callable returned
\*                      (violates CloseExactlyOnce, ResponseUnchanged)
\*   "GeLimit"          >= instead of > at the body limit (Reject400IffOverLimit, CalledAsExpected)
\*   "DoubleClose"      close() called twice (CloseAtMostOnce)
\*   "NoCloseOnError"   close() skipped when the iteration raised (CloseExactlyOnce)
\*   "DropChunk"        second chunk not forwarded (ResponseUnchanged)
SPECIFICATION Spec
CONSTANT Dev = {}
INVARIANT TypeOK
INVARIANT CalledAtMostOnce
INVARIANT CalledAsExpected
INVARIANT Reject400IffOverLimit
INVARIANT WebSocketRefused
INVARIANT CloseAtMostOnce
INVARIANT CloseExactlyOnce
INVARIANT CloseOnlyAfterReturn
INVARIANT ResponseUnchanged
INVARIANT NoResponseStartWithoutStartResponse
INVARIANT NothingAfterFinal
PROPERTY Termination
CHECK_DEADLOCK FALSE
