------------------------------- MODULE Worker ------------------------------
(***************************************************************************)
(* Design specification of one hypercorn worker: lifespan, accept loop,    *)
(* graceful shutdown and recycling.  Shaped like                           *)
(*   asyncio/run.py:80-181 (worker_serve), asyncio/lifespan.py             *)
(*   trio/run.py:40-121    (worker_serve), trio/lifespan.py                *)
(* with one action per step of the serve coroutine between two points at   *)
(* which it can block (`pc` is its control location):                      *)
(*                                                                         *)
(*   init            StartLifespan      create the lifespan task           *)
(*   send_startup    SendStartup        put lifespan.startup (if supported)*)
(*   wait_startup    StartupDone | StartupTimeout                          *)
(*   check_startup   CheckStartup       re-raise a start-up failure        *)
(*   open            OpenListeners      start_server / SocketListener,     *)
(*                                      draw max_requests + jitter         *)
(*   serving         Trigger | TriggerMaxRequests   (blocked until then)   *)
(*   set_terminated  SetTerminated      context.terminated.set(): idle     *)
(*                                      connections close themselves       *)
(*   close_listeners CloseListeners     server.close() / cancel serve_     *)
(*                                      listeners; trio sets the deadline  *)
(*   wait_closed     WaitClosed         asyncio only: server.wait_closed() *)
(*   grace           Drained | GraceExpire                                 *)
(*   cancel_rest     CancelRest         cancel the remaining connections   *)
(*   send_shutdown   SendShutdown       put lifespan.shutdown              *)
(*   wait_shutdown   ShutdownDone | ShutdownTimeout                        *)
(*   finish          Return | Raise                                        *)
(*   done                                                                  *)
(*                                                                         *)
(* Environment: the lifespan application (AppRecvStartup, AppStartup-      *)
(* Complete / Failed / FailedKeepsRunning / Raise / Return / Hang /        *)
(* Unknown, AppRecvShutdown, AppShutdownComplete / Failed / Raise /        *)
(* Return / Hang), clients (Accept(c), RequestStart(c) with MarkRequest,   *)
(* RequestFinish(c), ClientClose(c)), the callable Trigger and time        *)
(* (Tick).                                                                 *)
(*                                                                         *)
(* Timing model: the clock is discrete; a step of the serve coroutine that *)
(* is not blocked takes no time and is atomic with respect to the          *)
(* environment (Tick and environment actions are enabled only while the    *)
(* coroutine is blocked and no timeout it waits for is due).  Races below  *)
(* that granularity are the "scheduling slack" of C15.                     *)
(*                                                                         *)
(* Deviation switches (constant Dev); Dev = {} is the intended design.     *)
(*  Behaviour of the pinned code:                                          *)
(*   "asyncio_wait_closed_unbounded"     asyncio, Python >= 3.12: `await   *)
(*        server.wait_closed()` returns only when every connection of the  *)
(*        server is gone, and it is awaited BEFORE the graceful wait       *)
(*   "lifespan_failed_swallowed_serves"  asyncio: start-up failure is only *)
(*        noticed through the lifespan task's exception; an application    *)
(*        that swallows the exception raised by send(startup.failed) is    *)
(*        served                                                           *)
(*   "trio_return_closes_channel"        trio: an application returning    *)
(*        from the lifespan scope closes the channel; the next put raises  *)
(*        ClosedResourceError (violates none of the invariants below: the  *)
(*        statement does not oblige the server to serve in that case)      *)
(*  Seeded faults (mirror the harness mutants, each violates one invariant):*)
(*   "servers_before_startup" "shutdown_before_drain" "skip_terminated"    *)
(*   "mark_request_ge" "shutdown_waits_startup_timeout" (the wait for     *)
(*   lifespan.shutdown.complete bounded by the other timeout)              *)
(***************************************************************************)
EXTENDS Naturals, Integers, FiniteSets, TLC

CONSTANTS Workers,     \* subset of {"asyncio", "trio"}: the worker class is chosen initially
          Dev,         \* deviation switches
          Conns,       \* connection identifiers
          Grace,       \* graceful_timeout (ticks)
          StartTO,     \* startup_timeout
          ShutTO,      \* shutdown_timeout
          MaxReqs,     \* choices for config.max_requests; -1 = not configured
          Jitter,      \* config.max_requests_jitter
          MaxServed,   \* bound: requests the clients issue
          MaxTime      \* bound: clock

VARIABLES
    worker,        \* "asyncio" | "trio"
    pc,            \* control location of worker_serve
    lifeApp,       \* lifespan application: "idle" "wait_startup" "has_startup" "up" "has_shutdown" "hang" "ended"
    lifeEnd,       \* how it ended: "" | "return" | "raise" | "failure" (LifespanFailureError propagated)
    startupQ, shutdownQ,      \* lifespan.startup / lifespan.shutdown put on the application's queue
    startupEv, shutdownEv,    \* Lifespan.startup / Lifespan.shutdown events
    supported,                \* Lifespan.supported
    startupFailed,            \* the application sent lifespan.startup.failed
    timedOut,                 \* startup_timeout expired
    chanClosed,               \* trio: lifespan channel closed
    okToServe,                \* history: startup.complete sent, or non-support shown by raising / returning
    listening,
    conns,         \* [Conns -> {"none","idle","busy","stuck","closed"}]
    served,        \* requests taken on (WorkerContext.requests)
    maxReqCfg,     \* config.max_requests (-1: None)
    maxReq,        \* WorkerContext.max_requests = config.max_requests + randint(0, jitter)
    terminate,     \* context.terminate
    terminated,    \* context.terminated
    trigAt,        \* time shutdown was triggered, -1 before
    now,
    startDl, graceEnd, shutDl,   \* deadlines
    shutSent,      \* number of lifespan.shutdown messages put
    cancelAt,      \* history: time the remaining connections were cancelled, -1 if never
    lateAccept, lateRequest,     \* history: an Accept / RequestStart happened after the trigger
    returned, raised

vars == <<worker, pc, lifeApp, lifeEnd, startupQ, shutdownQ, startupEv, shutdownEv, supported,
          startupFailed, timedOut, chanClosed, okToServe, listening, conns, served, maxReqCfg, maxReq,
          terminate, terminated, trigAt, now, startDl, graceEnd, shutDl, shutSent, cancelAt,
          lateAccept, lateRequest, returned, raised>>

lifeVars  == <<lifeApp, lifeEnd, startupEv, shutdownEv, supported, startupFailed, chanClosed, okToServe>>
connVars  == <<conns, served, terminate, lateAccept, lateRequest>>
timeVars  == <<now, startDl, graceEnd, shutDl>>
endVars   == <<returned, raised>>

D(x) == x \in Dev
AllGone == \A c \in Conns : conns[c] \in {"none", "closed"}
Open(c) == conns[c] \in {"idle", "busy", "stuck"}

Init ==
    /\ worker \in Workers
    /\ pc = "init"
    /\ lifeApp = "idle" /\ lifeEnd = ""
    /\ startupQ = FALSE /\ shutdownQ = FALSE /\ startupEv = FALSE /\ shutdownEv = FALSE
    /\ supported = TRUE /\ startupFailed = FALSE /\ timedOut = FALSE /\ chanClosed = FALSE
    /\ okToServe = FALSE
    /\ listening = FALSE
    /\ conns = [c \in Conns |-> "none"]
    /\ served = 0
    /\ maxReqCfg \in MaxReqs /\ maxReq = -1
    /\ terminate = FALSE /\ terminated = FALSE
    /\ trigAt = -1 /\ now = 0 /\ startDl = 0 /\ graceEnd = 0 /\ shutDl = 0
    /\ shutSent = 0 /\ cancelAt = -1 /\ lateAccept = FALSE /\ lateRequest = FALSE
    /\ returned = FALSE /\ raised = FALSE

(* ------------------------------------------------------------------------ *)
(* when is the serve coroutine able to take a step right now?                *)
WaitClosedReady == ~D("asyncio_wait_closed_unbounded") \/ AllGone

Urgent ==
    \/ pc \in {"init", "send_startup", "check_startup", "open", "set_terminated", "close_listeners",
               "cancel_rest", "send_shutdown", "finish"}
    \/ pc = "wait_startup"  /\ (startupEv \/ now >= startDl)
    \/ pc = "serving"       /\ terminate
    \/ pc = "wait_closed"   /\ WaitClosedReady
    \/ pc = "grace"         /\ (AllGone \/ now >= graceEnd \/ D("shutdown_before_drain"))
    \/ pc = "wait_shutdown" /\ (shutdownEv \/ now >= shutDl)

Quiet == ~Urgent     \* the environment moves only while the coroutine is blocked

(* ------------------------------------------------------------------------ *)
(* worker_serve                                                              *)
StartLifespan ==
    /\ pc = "init"
    /\ lifeApp' = "wait_startup"
    /\ pc' = "send_startup"
    /\ listening' = D("servers_before_startup")
    /\ UNCHANGED <<worker, lifeEnd, startupQ, shutdownQ, startupEv, shutdownEv, supported, startupFailed,
                   timedOut, chanClosed, okToServe, connVars, maxReqCfg, maxReq, terminated, trigAt,
                   timeVars, shutSent, cancelAt, endVars>>

Abort == /\ raised' = TRUE /\ pc' = "done" /\ listening' = FALSE /\ UNCHANGED returned

SendStartup ==      \* Lifespan.wait_for_startup, first half
    /\ pc = "send_startup"
    /\ IF ~supported
       THEN /\ pc' = "check_startup"
            /\ UNCHANGED <<startupQ, startDl, raised, returned, listening>>
       ELSE IF chanClosed
       THEN /\ Abort /\ UNCHANGED <<startupQ, startDl>>          \* trio: ClosedResourceError
       ELSE /\ startupQ' = TRUE /\ startDl' = now + StartTO /\ pc' = "wait_startup"
            /\ UNCHANGED <<raised, returned, listening>>
    /\ UNCHANGED <<worker, lifeVars, shutdownQ, timedOut, connVars, maxReqCfg, maxReq, terminated, trigAt,
                   now, graceEnd, shutDl, shutSent, cancelAt>>

StartupDone ==
    /\ pc = "wait_startup" /\ startupEv
    /\ pc' = "check_startup"
    /\ UNCHANGED <<worker, lifeVars, startupQ, shutdownQ, timedOut, listening, connVars, maxReqCfg, maxReq,
                   terminated, trigAt, timeVars, shutSent, cancelAt, endVars>>

StartupTimeout ==
    /\ pc = "wait_startup" /\ ~startupEv /\ now >= startDl
    /\ timedOut' = TRUE
    /\ Abort
    /\ UNCHANGED <<worker, lifeVars, startupQ, shutdownQ, connVars, maxReqCfg, maxReq, terminated, trigAt,
                   timeVars, shutSent, cancelAt>>

CheckStartup ==
    /\ pc = "check_startup"
    /\ LET failed == IF D("lifespan_failed_swallowed_serves") /\ worker = "asyncio"
                     THEN lifeEnd = "failure"
                     ELSE startupFailed \/ lifeEnd = "failure"
       IN IF failed THEN Abort
          ELSE pc' = "open" /\ UNCHANGED <<raised, returned, listening>>
    /\ UNCHANGED <<worker, lifeVars, startupQ, shutdownQ, timedOut, connVars, maxReqCfg, maxReq, terminated,
                   trigAt, timeVars, shutSent, cancelAt>>

OpenListeners ==
    /\ pc = "open"
    /\ listening' = TRUE
    /\ IF maxReqCfg < 0 THEN maxReq' = -1
       ELSE \E j \in 0..Jitter : maxReq' = maxReqCfg + j
    /\ pc' = "serving"
    /\ UNCHANGED <<worker, lifeVars, startupQ, shutdownQ, timedOut, connVars, maxReqCfg, terminated, trigAt,
                   timeVars, shutSent, cancelAt, endVars>>

Trigger ==          \* the callable shutdown_trigger returns (environment)
    /\ pc = "serving" /\ ~terminate
    /\ trigAt' = now /\ pc' = "set_terminated"
    /\ UNCHANGED <<worker, lifeVars, startupQ, shutdownQ, timedOut, listening, connVars, maxReqCfg, maxReq,
                   terminated, timeVars, shutSent, cancelAt, endVars>>

TriggerMaxRequests ==   \* raise_shutdown(context.terminate.wait)
    /\ pc = "serving" /\ terminate
    /\ trigAt' = now /\ pc' = "set_terminated"
    /\ UNCHANGED <<worker, lifeVars, startupQ, shutdownQ, timedOut, listening, connVars, maxReqCfg, maxReq,
                   terminated, timeVars, shutSent, cancelAt, endVars>>

SetTerminated ==
    /\ pc = "set_terminated"
    /\ IF D("skip_terminated")
       THEN UNCHANGED <<terminated, conns>>
       ELSE /\ terminated' = TRUE
            /\ conns' = [c \in Conns |-> IF conns[c] = "idle" THEN "closed" ELSE conns[c]]
    /\ pc' = "close_listeners"
    /\ UNCHANGED <<worker, lifeVars, startupQ, shutdownQ, timedOut, listening, served, terminate, lateAccept,
                   lateRequest, maxReqCfg, maxReq, trigAt, timeVars, shutSent, cancelAt, endVars>>

CloseListeners ==
    /\ pc = "close_listeners"
    /\ listening' = FALSE
    /\ IF worker = "asyncio"
       THEN pc' = "wait_closed" /\ UNCHANGED graceEnd
       ELSE pc' = "grace" /\ graceEnd' = now + Grace      \* server_nursery.cancel_scope.deadline
    /\ UNCHANGED <<worker, lifeVars, startupQ, shutdownQ, timedOut, connVars, maxReqCfg, maxReq, terminated,
                   trigAt, now, startDl, shutDl, shutSent, cancelAt, endVars>>

WaitClosed ==
    /\ pc = "wait_closed" /\ WaitClosedReady
    /\ pc' = "grace" /\ graceEnd' = now + Grace           \* asyncio.wait_for(gather(...), graceful_timeout)
    /\ UNCHANGED <<worker, lifeVars, startupQ, shutdownQ, timedOut, listening, connVars, maxReqCfg, maxReq,
                   terminated, trigAt, now, startDl, shutDl, shutSent, cancelAt, endVars>>

Drained ==
    /\ pc = "grace" /\ (AllGone \/ D("shutdown_before_drain"))
    /\ pc' = "send_shutdown"
    /\ UNCHANGED <<worker, lifeVars, startupQ, shutdownQ, timedOut, listening, connVars, maxReqCfg, maxReq,
                   terminated, trigAt, timeVars, shutSent, cancelAt, endVars>>

GraceExpire ==
    /\ pc = "grace" /\ ~AllGone /\ now >= graceEnd
    /\ pc' = "cancel_rest"
    /\ UNCHANGED <<worker, lifeVars, startupQ, shutdownQ, timedOut, listening, connVars, maxReqCfg, maxReq,
                   terminated, trigAt, timeVars, shutSent, cancelAt, endVars>>

CancelRest ==
    /\ pc = "cancel_rest"
    /\ conns' = [c \in Conns |-> IF Open(c) THEN "closed" ELSE conns[c]]
    /\ cancelAt' = now
    /\ pc' = "send_shutdown"
    /\ UNCHANGED <<worker, lifeVars, startupQ, shutdownQ, timedOut, listening, served, terminate, lateAccept,
                   lateRequest, maxReqCfg, maxReq, terminated, trigAt, timeVars, shutSent, endVars>>

SendShutdown ==     \* Lifespan.wait_for_shutdown, first half
    /\ pc = "send_shutdown"
    /\ IF ~supported
       THEN /\ pc' = "finish" /\ UNCHANGED <<shutdownQ, shutSent, shutDl, raised, returned, listening>>
       ELSE IF chanClosed
       THEN /\ Abort /\ UNCHANGED <<shutdownQ, shutSent, shutDl>>
       ELSE /\ shutdownQ' = TRUE /\ shutSent' = shutSent + 1
            /\ shutDl' = now + (IF D("shutdown_waits_startup_timeout") THEN StartTO ELSE ShutTO)
            /\ pc' = "wait_shutdown" /\ UNCHANGED <<raised, returned, listening>>
    /\ UNCHANGED <<worker, lifeVars, startupQ, timedOut, connVars, maxReqCfg, maxReq, terminated, trigAt,
                   now, startDl, graceEnd, cancelAt>>

ShutdownDone ==
    /\ pc = "wait_shutdown" /\ shutdownEv
    /\ pc' = "finish"
    /\ UNCHANGED <<worker, lifeVars, startupQ, shutdownQ, timedOut, listening, connVars, maxReqCfg, maxReq,
                   terminated, trigAt, timeVars, shutSent, cancelAt, endVars>>

ShutdownTimeout ==
    /\ pc = "wait_shutdown" /\ ~shutdownEv /\ now >= shutDl
    /\ Abort
    /\ UNCHANGED <<worker, lifeVars, startupQ, shutdownQ, timedOut, connVars, maxReqCfg, maxReq, terminated,
                   trigAt, timeVars, shutSent, cancelAt>>

Finish ==           \* Return, or Raise when the lifespan task ended with LifespanFailureError
    /\ pc = "finish"
    /\ IF lifeEnd = "failure" THEN raised' = TRUE /\ UNCHANGED returned
                              ELSE returned' = TRUE /\ UNCHANGED raised
    /\ pc' = "done"
    /\ UNCHANGED <<worker, lifeVars, startupQ, shutdownQ, timedOut, listening, connVars, maxReqCfg, maxReq,
                   terminated, trigAt, timeVars, shutSent, cancelAt>>

Serve == \/ StartLifespan \/ SendStartup \/ StartupDone \/ StartupTimeout \/ CheckStartup
         \/ OpenListeners \/ Trigger \/ TriggerMaxRequests \/ SetTerminated \/ CloseListeners
         \/ WaitClosed \/ Drained \/ GraceExpire \/ CancelRest \/ SendShutdown \/ ShutdownDone
         \/ ShutdownTimeout \/ Finish

(* ------------------------------------------------------------------------ *)
(* the lifespan application                                                  *)
LifeUnch == UNCHANGED <<worker, pc, startupQ, shutdownQ, timedOut, listening, connVars, maxReqCfg, maxReq,
                        terminated, trigAt, timeVars, shutSent, cancelAt, endVars>>

(* the application may finish (raise / return) before it ever receives: Lifespan._started /     *)
(* nursery.start let it run up to its first suspension before lifespan.startup is put           *)
EarlyOrQuiet == pc = "send_startup" \/ Quiet

Ends(how) ==    \* handle_lifespan's `finally`
    /\ lifeApp' = "ended" /\ lifeEnd' = how
    /\ startupEv' = TRUE /\ shutdownEv' = TRUE
    /\ chanClosed' = (chanClosed \/ (worker = "trio" /\ D("trio_return_closes_channel")))

AppRecvStartup ==
    /\ Quiet /\ lifeApp = "wait_startup" /\ startupQ
    /\ lifeApp' = "has_startup"
    /\ UNCHANGED <<lifeEnd, startupEv, shutdownEv, supported, startupFailed, chanClosed, okToServe>>
    /\ LifeUnch

AppStartupComplete ==
    /\ Quiet /\ lifeApp = "has_startup"
    /\ lifeApp' = "up" /\ startupEv' = TRUE /\ okToServe' = TRUE
    /\ UNCHANGED <<lifeEnd, shutdownEv, supported, startupFailed, chanClosed>>
    /\ LifeUnch

AppStartupFailed ==         \* send(startup.failed) raises LifespanFailureError, the application lets it out
    /\ Quiet /\ lifeApp = "has_startup"
    /\ startupFailed' = TRUE
    /\ Ends("failure")
    /\ UNCHANGED <<supported, okToServe>>
    /\ LifeUnch

AppStartupFailedKeepsRunning ==   \* ... the application swallows it and waits for the next message
    /\ Quiet /\ lifeApp = "has_startup"
    /\ startupFailed' = TRUE
    /\ startupEv' = TRUE
    /\ lifeApp' = "up"
    /\ UNCHANGED <<lifeEnd, shutdownEv, supported, chanClosed, okToServe>>
    /\ LifeUnch

AppStartupRaise ==          \* shows that lifespan is not supported (before or after receiving)
    /\ EarlyOrQuiet /\ lifeApp \in {"wait_startup", "has_startup"}
    /\ supported' = FALSE /\ okToServe' = TRUE
    /\ Ends("raise")
    /\ UNCHANGED startupFailed
    /\ LifeUnch

AppStartupUnknown ==        \* sends an unknown message type: send raises, the application lets it out
    /\ Quiet /\ lifeApp = "has_startup"
    /\ supported' = FALSE /\ okToServe' = TRUE
    /\ Ends("raise")
    /\ UNCHANGED startupFailed
    /\ LifeUnch

AppStartupReturn ==         \* returns without completing (statement silent: serving is permitted)
    /\ EarlyOrQuiet /\ lifeApp \in {"wait_startup", "has_startup"}
    /\ okToServe' = TRUE
    /\ Ends("return")
    /\ UNCHANGED <<supported, startupFailed>>
    /\ LifeUnch

AppStartupHang ==
    /\ Quiet /\ lifeApp = "has_startup"
    /\ lifeApp' = "hang"
    /\ UNCHANGED <<lifeEnd, startupEv, shutdownEv, supported, startupFailed, chanClosed, okToServe>>
    /\ LifeUnch

AppRecvShutdown ==
    /\ Quiet /\ lifeApp = "up" /\ shutdownQ
    /\ lifeApp' = "has_shutdown"
    /\ UNCHANGED <<lifeEnd, startupEv, shutdownEv, supported, startupFailed, chanClosed, okToServe>>
    /\ LifeUnch

AppShutdownComplete ==
    /\ Quiet /\ lifeApp = "has_shutdown"
    /\ shutdownEv' = TRUE /\ lifeApp' = "ended" /\ lifeEnd' = "return"
    /\ UNCHANGED <<startupEv, supported, startupFailed, chanClosed, okToServe>>
    /\ LifeUnch

AppShutdownFailed ==
    /\ Quiet /\ lifeApp = "has_shutdown"
    /\ Ends("failure")
    /\ UNCHANGED <<supported, startupFailed, okToServe>>
    /\ LifeUnch

AppShutdownRaise ==         \* also covers an application that dies while serving ("up")
    /\ Quiet /\ lifeApp \in {"up", "has_shutdown"}
    /\ supported' = FALSE
    /\ Ends("raise")
    /\ UNCHANGED <<startupFailed, okToServe>>
    /\ LifeUnch

AppShutdownReturn ==        \* ... or returns early, before / instead of answering lifespan.shutdown
    /\ Quiet /\ lifeApp \in {"up", "has_shutdown"}
    /\ Ends("return")
    /\ UNCHANGED <<supported, startupFailed, okToServe>>
    /\ LifeUnch

AppShutdownHang ==
    /\ Quiet /\ lifeApp = "has_shutdown"
    /\ lifeApp' = "hang"
    /\ UNCHANGED <<lifeEnd, startupEv, shutdownEv, supported, startupFailed, chanClosed, okToServe>>
    /\ LifeUnch

LifeApp == \/ AppRecvStartup \/ AppStartupComplete \/ AppStartupFailed \/ AppStartupFailedKeepsRunning
           \/ AppStartupRaise \/ AppStartupUnknown \/ AppStartupReturn \/ AppStartupHang
           \/ AppRecvShutdown \/ AppShutdownComplete \/ AppShutdownFailed \/ AppShutdownRaise
           \/ AppShutdownReturn \/ AppShutdownHang

(* ------------------------------------------------------------------------ *)
(* clients and request handlers                                              *)
ConnUnch == UNCHANGED <<worker, pc, lifeVars, startupQ, shutdownQ, timedOut, listening, maxReqCfg, maxReq,
                        terminated, trigAt, timeVars, shutSent, cancelAt, endVars>>

Accept(c) ==
    /\ Quiet /\ listening /\ conns[c] = "none"
    /\ conns' = [conns EXCEPT ![c] = "idle"]
    /\ lateAccept' = (lateAccept \/ trigAt >= 0)
    /\ UNCHANGED <<served, terminate, lateRequest>>
    /\ ConnUnch

(* H11Protocol._create_stream: the application is started, then WorkerContext.mark_request() *)
MarkRequest(n) == IF maxReq < 0 THEN FALSE
                  ELSE IF D("mark_request_ge") THEN n >= maxReq ELSE n > maxReq

RequestStart(c) ==
    /\ Quiet /\ conns[c] = "idle" /\ ~terminated /\ served < MaxServed
    /\ \E kind \in {"busy", "stuck"} : conns' = [conns EXCEPT ![c] = kind]
    /\ served' = served + 1
    /\ terminate' = (terminate \/ MarkRequest(served + 1))
    /\ lateRequest' = (lateRequest \/ trigAt >= 0)
    /\ UNCHANGED lateAccept
    /\ ConnUnch

RequestFinish(c) ==     \* response complete: H11Protocol._maybe_recycle
    /\ Quiet /\ conns[c] = "busy"
    /\ conns' = [conns EXCEPT ![c] = IF terminated THEN "closed" ELSE "idle"]
    /\ UNCHANGED <<served, terminate, lateAccept, lateRequest>>
    /\ ConnUnch

ClientClose(c) ==
    /\ Quiet /\ Open(c)
    /\ conns' = [conns EXCEPT ![c] = "closed"]
    /\ UNCHANGED <<served, terminate, lateAccept, lateRequest>>
    /\ ConnUnch

Clients == \E c \in Conns : Accept(c) \/ RequestStart(c) \/ RequestFinish(c) \/ ClientClose(c)

Tick ==
    /\ Quiet /\ now < MaxTime
    /\ now' = now + 1
    /\ UNCHANGED <<worker, pc, lifeVars, startupQ, shutdownQ, timedOut, listening, connVars, maxReqCfg, maxReq,
                   terminated, trigAt, startDl, graceEnd, shutDl, shutSent, cancelAt, endVars>>

Next == Serve \/ LifeApp \/ Clients \/ Tick
Spec == Init /\ [][Next]_vars

(* ------------------------------------------------------------------------ *)
(* properties (same names as the clauses of monitors C14 / C15 / C18W)        *)
TypeOK ==
    /\ worker \in {"asyncio", "trio"}
    /\ pc \in {"init", "send_startup", "wait_startup", "check_startup", "open", "serving", "set_terminated",
               "close_listeners", "wait_closed", "grace", "cancel_rest", "send_shutdown", "wait_shutdown",
               "finish", "done"}
    /\ lifeApp \in {"idle", "wait_startup", "has_startup", "up", "has_shutdown", "hang", "ended"}
    /\ lifeEnd \in {"", "return", "raise", "failure"}
    /\ conns \in [Conns -> {"none", "idle", "busy", "stuck", "closed"}]
    /\ served \in 0..MaxServed /\ shutSent \in Nat /\ now \in 0..MaxTime
    /\ ~(returned /\ raised)

Touched == \E c \in Conns : conns[c] # "none"

(* C14 accept-before-startup / startup-not-first *)
AcceptOnlyAfterStartup == (Touched \/ served > 0) => okToServe
StartupFirst == listening => (startupQ \/ ~supported \/ lifeEnd # "")
(* C14 served-after-failure / no-error *)
NothingServedAfterFailure == (startupFailed \/ timedOut) => (~listening /\ ~Touched /\ served = 0)
ErrorAfterFailure == ((startupFailed \/ timedOut) /\ pc = "done") => raised
FailureAborts == (startupFailed \/ timedOut) => pc \in {"wait_startup", "check_startup", "done"}
(* C14 shutdown-twice / shutdown-missing / shutdown-before-drain *)
ShutdownAtMostOnce == shutSent <= 1
ShutdownNotMissing == (returned /\ supported) => shutSent = 1
ShutdownAfterDrainOrGrace == shutSent >= 1 => (AllGone \/ (trigAt >= 0 /\ now >= trigAt + Grace))
(* C15 *)
NoAcceptAfterTrigger == ~lateAccept
NoRequestAfterTrigger == ~lateRequest
IdleClosedAfterTrigger ==
    pc \in {"close_listeners", "wait_closed", "grace", "cancel_rest", "send_shutdown", "wait_shutdown",
            "finish", "done"} /\ trigAt >= 0
        => \A c \in Conns : conns[c] # "idle"
NoEarlyCancel == cancelAt >= 0 => cancelAt >= trigAt + Grace          \* cut-short
NothingLeftAfterGrace ==                                                          \* not-cancelled
    (trigAt >= 0 /\ pc \in {"finish", "done"}) => \A c \in Conns : ~Open(c)
BoundedShutdown == (trigAt >= 0 /\ now > trigAt + Grace + ShutTO) => (returned \/ raised)
(* C18 worker part *)
RecycleWindow ==
    /\ terminate => (maxReqCfg >= 0 /\ served > maxReqCfg)                 \* recycle-early
    /\ maxReqCfg >= 0 => served <= maxReqCfg + Jitter + 1                  \* recycle-late
    /\ (maxReqCfg >= 0 /\ served > maxReqCfg + Jitter) => terminate

(* reachability probes: each of these "invariants" must be VIOLATED (used once, by hand, to *)
(* show that the interesting end states exist)                                             *)
NeverReturned == ~returned
NeverRecycled == ~terminate
=============================================================================
