SPECIFICATION Spec
CONSTANTS
  Streams <- TwoStreams
  Upload = 4
  ConnWin = 4
  StreamWin = 3
  QCap = 1
  MaxPad = 1
  Dev <- NoDev
INVARIANT TypeOK
INVARIANT CreditConserved
INVARIANT ReaderNeverStuck
INVARIANT FinalSendReturns
INVARIANT NoStarvation
CHECK_DEADLOCK FALSE
