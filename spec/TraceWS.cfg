SPECIFICATION TraceSpec
CONSTANTS
  MaxMsgs = 2
  MaxSize = 2
  Limit = 1
  Dev <- NoDev
INVARIANT Report
CHECK_DEADLOCK FALSE
