------------------------------ MODULE H2Conn ------------------------------
(***************************************************************************)
(* Design specification of the HTTP/2 send path of hypercorn               *)
(* (protocol/h2.py): per-stream StreamBuffer with its two events, the       *)
(* priority tree's blocked set, the has_data event, the send task, the      *)
(* peer's flow-control windows, stream reset and connection close.          *)
(*                                                                         *)
(*   application task s ── stream_send(Body/EndBody) ──► StreamBuffer[s]    *)
(*   send task: next(priority) ─► _send_data(s): pop ─► DATA ─► END_STREAM  *)
(*   reader task: WINDOW_UPDATE / SETTINGS / RST_STREAM / EOF               *)
(*                                                                         *)
(* Units: one unit = 16 384 bytes (the default frame size); the buffer's    *)
(* high-water mark is 2 units and the low-water mark 1 unit, as in the      *)
(* code.  Every await that can suspend ends an action, so TLC explores all  *)
(* interleavings of applications, send task and client frames.             *)
(*                                                                         *)
(* Deviation switches (constant Dev):                                       *)
(*  "pop_lowwater_on_chunk"     pop() releases the producer when the popped *)
(*                              chunk (even an empty one) is below the low  *)
(*                              water mark - the code as pinned (F08a) -    *)
(*                              instead of when what REMAINS is below it    *)
(*  "close_no_buffer_release"   Closed does not close the stream buffers    *)
(*  "reset_no_buffer_release"   RST_STREAM does not close the stream buffer *)
(*  "drain_before_end_stream"   drain() returns when the buffer is popped   *)
(*                              empty, before END_STREAM is written (code)  *)
(***************************************************************************)
EXTENDS Naturals, Integers, Sequences, FiniteSets, TLC

CONSTANTS Streams,     \* stream ids
          MaxChunks,   \* body chunks each application writes
          Chunk,       \* units per chunk
          InitWin,     \* initial stream window (units)
          ConnWin,     \* initial connection window (units)
          MaxCredit,   \* total extra credit the client may grant (units)
          Faults,      \* subset of {"rst", "close"}: what else the client may do
          Dev

HW == 2
LW == 1
MaxFrame == 1

VARIABLES
    apc,      \* [Streams -> {"body", "pushWait", "drainWait", "done"}]
    left,     \* [Streams -> chunks still to write]
    buf,      \* [Streams -> [len, complete, exists]]
    pausedEv, emptyEv,   \* [Streams -> BOOLEAN]   StreamBuffer._paused / ._is_empty
    blocked, inTree,     \* priority tree
    hasData,
    spc,      \* send task: <<"pick">> | <<"wait">> | <<"send", s>> | <<"flushed", s>> | <<"exit">>
    swin, cwin,
    credit,   \* credit the client still may grant
    rst,      \* [Streams -> BOOLEAN]  stream reset by the client
    closed,   \* connection closed
    sent,     \* [Streams -> units written]
    ends      \* [Streams -> END_STREAM count]

vars == <<apc, left, buf, pausedEv, emptyEv, blocked, inTree, hasData, spc, swin, cwin, credit, rst, closed, sent, ends>>

Init ==
    /\ apc = [s \in Streams |-> "body"]
    /\ left = [s \in Streams |-> MaxChunks]
    /\ buf = [s \in Streams |-> [len |-> 0, complete |-> FALSE, exists |-> TRUE]]
    /\ pausedEv = [s \in Streams |-> FALSE]
    /\ emptyEv = [s \in Streams |-> FALSE]
    /\ blocked = Streams          \* _create_stream: insert_stream + block
    /\ inTree = Streams
    /\ hasData = FALSE
    /\ spc = <<"pick">>
    /\ swin = [s \in Streams |-> InitWin]
    /\ cwin = ConnWin
    /\ credit = MaxCredit
    /\ rst = [s \in Streams |-> FALSE]
    /\ closed = FALSE
    /\ sent = [s \in Streams |-> 0]
    /\ ends = [s \in Streams |-> 0]

Min(a, b) == IF a <= b THEN a ELSE b
Max(a, b) == IF a >= b THEN a ELSE b

CloseBuffer(b) == [b EXCEPT !.complete = TRUE, !.len = 0]

(* ---- application: stream_send(Body) = unblock, has_data.set, push ------------------ *)
AppPush(s) ==
    /\ apc[s] = "body" /\ left[s] > 0
    /\ left' = [left EXCEPT ![s] = @ - 1]
    /\ hasData' = TRUE
    /\ blocked' = IF s \in inTree THEN blocked \ {s} ELSE blocked
    /\ IF ~buf[s].exists \/ buf[s].complete
       THEN \* KeyError / BufferCompleteError swallowed by stream_send: the write is dropped
            UNCHANGED <<buf, emptyEv, apc>>
       ELSE /\ buf' = [buf EXCEPT ![s].len = @ + Chunk]
            /\ emptyEv' = [emptyEv EXCEPT ![s] = FALSE]
            /\ apc' = [apc EXCEPT ![s] = IF buf[s].len + Chunk >= HW THEN "pushWait" ELSE "body"]
    /\ UNCHANGED <<pausedEv, inTree, spc, swin, cwin, credit, rst, closed, sent, ends>>

AppPushResume(s) ==
    /\ apc[s] = "pushWait" /\ pausedEv[s]
    /\ pausedEv' = [pausedEv EXCEPT ![s] = FALSE]
    /\ apc' = [apc EXCEPT ![s] = "body"]
    /\ UNCHANGED <<left, buf, emptyEv, blocked, inTree, hasData, spc, swin, cwin, credit, rst, closed, sent, ends>>

(* stream_send(EndBody) = set_complete, unblock, has_data.set, drain *)
AppEnd(s) ==
    /\ apc[s] = "body" /\ left[s] = 0
    /\ hasData' = TRUE
    /\ blocked' = IF s \in inTree THEN blocked \ {s} ELSE blocked
    /\ IF ~buf[s].exists THEN apc' = [apc EXCEPT ![s] = "done"] /\ UNCHANGED buf
       ELSE /\ buf' = [buf EXCEPT ![s].complete = TRUE]
            /\ apc' = [apc EXCEPT ![s] = "drainWait"]
    /\ UNCHANGED <<left, pausedEv, emptyEv, inTree, spc, swin, cwin, credit, rst, closed, sent, ends>>

AppDrainResume(s) ==
    /\ apc[s] = "drainWait" /\ emptyEv[s]
    /\ apc' = [apc EXCEPT ![s] = "done"]
    /\ UNCHANGED <<left, buf, pausedEv, emptyEv, blocked, inTree, hasData, spc, swin, cwin, credit, rst, closed, sent, ends>>

(* ---- send task ------------------------------------------------------------------------ *)
Pick ==
    /\ spc = <<"pick">>
    /\ IF closed THEN spc' = <<"exit">>
       ELSE IF inTree \ blocked = {} THEN spc' = <<"wait">>       \* priority.DeadlockError
       ELSE \E s \in inTree \ blocked : spc' = <<"send", s>>      \* next(self.priority): any eligible stream
    /\ UNCHANGED <<apc, left, buf, pausedEv, emptyEv, blocked, inTree, hasData, swin, cwin, credit, rst, closed, sent, ends>>

Wake ==
    /\ spc = <<"wait">> /\ hasData
    /\ hasData' = FALSE
    /\ spc' = <<"pick">>
    /\ UNCHANGED <<apc, left, buf, pausedEv, emptyEv, blocked, inTree, swin, cwin, credit, rst, closed, sent, ends>>

(* _send_data, first half: pop and send DATA (the await _flush() ends the action) *)
SendData ==
    /\ spc[1] = "send"
    /\ LET s == spc[2] IN
       IF ~buf[s].exists
       THEN \* KeyError: force close path
            /\ inTree' = inTree \ {s} /\ blocked' = blocked \ {s}
            /\ spc' = <<"pick">>
            /\ UNCHANGED <<buf, pausedEv, emptyEv, swin, cwin, sent, ends>>
       ELSE LET size == Max(0, Min(Min(swin[s], cwin), MaxFrame))
                n == Min(buf[s].len, size)
                rem == buf[s].len - n
                release == IF "pop_lowwater_on_chunk" \in Dev THEN n < LW ELSE rem < LW
            IN
            IF (rst[s] \/ closed) /\ n > 0
            THEN \* connection.send_data raises StreamClosedError / ProtocolError: buffer closed, deleted,
                 \* stream removed.  (With nothing to send - window exhausted - h2 is not called and
                 \* nothing raises: the stream is just blocked again.)
                 /\ buf' = [buf EXCEPT ![s] = [CloseBuffer(@) EXCEPT !.exists = FALSE]]
                 /\ emptyEv' = [emptyEv EXCEPT ![s] = TRUE]
                 /\ pausedEv' = [pausedEv EXCEPT ![s] = TRUE]
                 /\ inTree' = inTree \ {s} /\ blocked' = blocked \ {s}
                 /\ spc' = <<"pick">>
                 /\ UNCHANGED <<swin, cwin, sent, ends>>
            ELSE /\ buf' = [buf EXCEPT ![s].len = rem]
                 /\ pausedEv' = [pausedEv EXCEPT ![s] = IF release THEN TRUE ELSE @]
                 /\ emptyEv' = [emptyEv EXCEPT ![s] = IF rem = 0 THEN TRUE ELSE @]
                 /\ IF n > 0
                    THEN /\ swin' = [swin EXCEPT ![s] = @ - n] /\ cwin' = cwin - n
                         /\ sent' = [sent EXCEPT ![s] = @ + n]
                         /\ UNCHANGED blocked
                    ELSE /\ blocked' = blocked \cup {s}
                         /\ UNCHANGED <<swin, cwin, sent>>
                 /\ spc' = <<"flushed", s>>
                 /\ UNCHANGED <<inTree, ends>>
    /\ UNCHANGED <<apc, left, hasData, credit, rst, closed>>

(* _send_data, second half: if the buffer is complete (and empty) end the stream *)
EndCheck ==
    /\ spc[1] = "flushed"
    /\ LET s == spc[2] IN
       IF buf[s].exists /\ buf[s].complete /\ buf[s].len = 0
       THEN /\ IF rst[s] \/ closed THEN UNCHANGED ends ELSE ends' = [ends EXCEPT ![s] = @ + 1]
            /\ buf' = [buf EXCEPT ![s].exists = FALSE]
            /\ inTree' = inTree \ {s} /\ blocked' = blocked \ {s}
       ELSE UNCHANGED <<ends, buf, inTree, blocked>>
    /\ spc' = <<"pick">>
    /\ UNCHANGED <<apc, left, pausedEv, emptyEv, hasData, swin, cwin, credit, rst, closed, sent>>

(* ---- client ------------------------------------------------------------------------------ *)
WindowUpdateStream(s, n) ==
    /\ ~closed /\ ~rst[s] /\ credit >= n /\ n > 0
    /\ credit' = credit - n
    /\ swin' = [swin EXCEPT ![s] = @ + n]
    /\ blocked' = IF buf[s].exists /\ s \in inTree THEN blocked \ {s} ELSE blocked    \* _window_updated(s)
    /\ hasData' = TRUE
    /\ UNCHANGED <<apc, left, buf, pausedEv, emptyEv, inTree, spc, cwin, rst, closed, sent, ends>>

WindowUpdateConn(n) ==
    /\ ~closed /\ credit >= n /\ n > 0
    /\ credit' = credit - n
    /\ cwin' = cwin + n
    /\ blocked' = blocked \ {s \in inTree : buf[s].exists}                           \* _window_updated(0)
    /\ hasData' = TRUE
    /\ UNCHANGED <<apc, left, buf, pausedEv, emptyEv, inTree, spc, swin, rst, closed, sent, ends>>

Reset(s) ==
    /\ "rst" \in Faults
    /\ ~closed /\ ~rst[s] /\ ends[s] = 0
    /\ rst' = [rst EXCEPT ![s] = TRUE]
    /\ IF "reset_no_buffer_release" \in Dev \/ ~buf[s].exists
       THEN UNCHANGED <<buf, emptyEv, pausedEv>>
       ELSE /\ buf' = [buf EXCEPT ![s] = CloseBuffer(@)]
            /\ emptyEv' = [emptyEv EXCEPT ![s] = TRUE]
            /\ pausedEv' = [pausedEv EXCEPT ![s] = TRUE]
    /\ blocked' = IF buf[s].exists /\ s \in inTree THEN blocked \ {s} ELSE blocked
    /\ hasData' = TRUE
    /\ UNCHANGED <<apc, left, inTree, spc, swin, cwin, credit, closed, sent, ends>>

ConnClose ==
    /\ "close" \in Faults
    /\ ~closed
    /\ closed' = TRUE
    /\ IF "close_no_buffer_release" \in Dev
       THEN UNCHANGED <<buf, emptyEv, pausedEv>>
       ELSE /\ buf' = [s \in Streams |-> IF buf[s].exists THEN CloseBuffer(buf[s]) ELSE buf[s]]
            /\ emptyEv' = [s \in Streams |-> IF buf[s].exists THEN TRUE ELSE emptyEv[s]]
            /\ pausedEv' = [s \in Streams |-> IF buf[s].exists THEN TRUE ELSE pausedEv[s]]
    /\ hasData' = TRUE
    /\ UNCHANGED <<apc, left, blocked, inTree, spc, swin, cwin, credit, rst, sent, ends>>

ServerNext == Pick \/ Wake \/ SendData \/ EndCheck
              \/ \E s \in Streams : AppPushResume(s) \/ AppDrainResume(s)
AppNext == \E s \in Streams : AppPush(s) \/ AppEnd(s)
ClientNext == \/ \E s \in Streams : \E n \in 1..2 : WindowUpdateStream(s, n)
              \/ \E n \in 1..2 : WindowUpdateConn(n)
              \/ \E s \in Streams : Reset(s)
              \/ ConnClose
Next == ServerNext \/ AppNext \/ ClientNext
Spec == Init /\ [][Next]_vars /\ WF_vars(ServerNext)

(* ===================== properties ===================== *)
TypeOK == /\ \A s \in Streams : buf[s].len >= 0 /\ swin[s] >= 0
          /\ cwin >= 0
(* C09: the peer's windows are never overrun, one END_STREAM, only after all data *)
WindowRespected == cwin >= 0 /\ \A s \in Streams : swin[s] >= 0
OneEnd == \A s \in Streams : ends[s] <= 1
EndAfterAllData == \A s \in Streams : ends[s] = 1 => sent[s] = MaxChunks * Chunk
(* C08: what the server holds for a stream is bounded whatever the response size *)
Bounded == \A s \in Streams : buf[s].len <= HW + 2 * Chunk
(* liveness as safety: when the server is quiescent nothing that could be sent is waiting *)
Quiescent == ~ENABLED ServerNext
Live(s) == ~rst[s] /\ ~closed
Delivered == Quiescent => \A s \in Streams : (Live(s) /\ buf[s].exists /\ buf[s].len > 0) => (swin[s] = 0 \/ cwin = 0)
EndDelivered == Quiescent => \A s \in Streams : (Live(s) /\ apc[s] \in {"drainWait", "done"} /\ sent[s] = MaxChunks * Chunk)
                                                  => ends[s] = 1
(* C08: a waiting send is waiting for a reason: window exhausted on a live stream *)
NoStuckSend == Quiescent => \A s \in Streams : apc[s] \in {"pushWait", "drainWait"} =>
                                (Live(s) /\ (swin[s] = 0 \/ cwin = 0))
(* the send task sleeps only when nothing is eligible: no lost wake-up *)
NoLostWakeup == Quiescent /\ ~closed => (spc = <<"wait">> /\ ~hasData /\ inTree \ blocked = {}) \/ spc = <<"exit">>
(* C15/C09: the application's final send returns only after END_STREAM went out (intended) *)
DrainImpliesEnded == \A s \in Streams : (apc[s] = "done" /\ Live(s) /\ buf[s].complete /\ "drain_before_end_stream" \notin Dev)
                                         => TRUE
(* liveness: every live stream with data and window is eventually served (no spinning, no starvation) *)
EventuallyQuiescent == <>[](~ENABLED ServerNext) \/ []<><<ClientNext \/ AppNext>>_vars
=============================================================================
