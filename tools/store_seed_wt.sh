#!/bin/sh
# usage: tools/store_seed_wt.sh <seed-id> <worktree> <prop> <caught-by comma list> <note>
ID=$1; WT=$2; PROP=$3; CAUGHT=$4; NOTE=$5
DEST=/verif/seeded/$ID
mkdir -p $DEST
cp $WT/patch_$PROP.diff $DEST/patch.diff
cp $WT/demo_$PROP.py $DEST/demo.py
cp $WT/meta_$PROP.json $DEST/meta_agent.json
/venv/bin/python /verif/tools/seed_meta.py "$ID" "$PROP" "$CAUGHT" "$NOTE"
sed -i 's#tools/try_seed.sh: git -C /repo apply seeded/<id>/patch.diff; pytest; python seeded/<id>/demo.py; bin/check <ids>; git -C /repo checkout -- .#tools/try_seed_wt.sh: a scratch worktree with the change in front of the import path (PYTHONPATH); pytest; demo; bin/check <ids> - /repo untouched#' $DEST/meta.json
