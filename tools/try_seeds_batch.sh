#!/bin/sh
# usage: tools/try_seeds_batch.sh <dir> <prop>:<check>[,<check>...] ...
# Runs try_seed_wt.sh for each property (worktree <dir>/<prop>) one after the other; prints a summary line each.
D=$1; shift
for spec in "$@"; do
  P=${spec%%:*}; CH=$(echo ${spec#*:} | tr ',' ' ')
  tools/try_seed_wt.sh $D/$P $P $CH > /tmp/s6_$P.out 2>&1
  echo "== $P: $(grep -A1 '== check' /tmp/s6_$P.out | grep -E 'rc=' | tr '\n' ' ') tests: $(grep -A1 'test suite' /tmp/s6_$P.out | tail -1 | cut -c1-30) demo: $(grep -A1 'demo with' /tmp/s6_$P.out | tail -1)"
  grep -E "VIOLATION" /tmp/s6_$P.out | cut -c1-200 | head -3
done
