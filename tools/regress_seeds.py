#!/venv/bin/python
"""Seed regression: every stored seeded change must still be caught by the check of its own property.

For each /verif/seeded/<id>/patch.diff a scratch worktree of /repo's HEAD is made under /tmp, the change is
applied there and `bin/check <property>` is run with the worktree in front of the import path (/repo itself is
never touched).  A seed whose patch no longer applies (a later fix: commit rewrote the same lines) is reported
as such.  Lanes run in parallel, one property per lane at a time (the evidence file of a property is written
by its check).  The evidence written by these runs comes from changed code: rerun the checks on the clean
tree afterwards.

usage: tools/regress_seeds.py [--lanes N] [--only REGEX] [--tier quick]
"""
from __future__ import annotations

import argparse
import json
import os
import re
import shutil
import subprocess
import sys
from concurrent.futures import ThreadPoolExecutor
from typing import Any, Dict, List, Tuple

VERIF = os.path.dirname(os.path.dirname(os.path.abspath(__file__)))
SEEDED = os.path.join(VERIF, "seeded")
SCRATCH = "/tmp/seedreg"


def run_seed(seed: str, tier: str) -> Dict[str, Any]:
    d = os.path.join(SEEDED, seed)
    meta = json.load(open(os.path.join(d, "meta.json")))
    prop = meta["property"]
    wt = os.path.join(SCRATCH, seed)
    subprocess.run(["git", "-C", "/repo", "worktree", "remove", "--force", wt], stdout=subprocess.DEVNULL, stderr=subprocess.DEVNULL)
    shutil.rmtree(wt, ignore_errors=True)
    out: Dict[str, Any] = {"seed": seed, "property": prop}
    try:
        subprocess.run(["git", "-C", "/repo", "worktree", "add", "-q", "--detach", wt, "HEAD"], check=True,
                       stdout=subprocess.DEVNULL, stderr=subprocess.PIPE)
        ap = subprocess.run(["git", "-C", wt, "apply", os.path.join(d, "patch.diff")], stdout=subprocess.PIPE,
                            stderr=subprocess.STDOUT, text=True)
        if ap.returncode != 0:
            ap = subprocess.run(["patch", "-p1", "-d", wt, "-i", os.path.join(d, "patch.diff"), "--fuzz=2"], stdout=subprocess.PIPE,
                                stderr=subprocess.STDOUT, text=True)
        if ap.returncode != 0:
            out["status"] = "patch-does-not-apply"
            out["detail"] = ap.stdout[-300:]
            return out
        env = dict(os.environ, PYTHONPATH=os.path.join(wt, "src"))
        if meta.get("neutralised"):
            # a later fix: commit made this change harmless: its demonstration has to pass with the change applied
            demo = subprocess.run(["/venv/bin/python", os.path.join(d, "demo.py")], cwd=wt, env=env, stdout=subprocess.PIPE,
                                  stderr=subprocess.STDOUT, text=True, timeout=600)
            out["status"] = "caught" if demo.returncode == 0 else "neutralised-seed-active-again"
            out["clauses"] = ["(neutralised: demonstration passes with the change)"]
            return out
        proc = subprocess.run([os.path.join(VERIF, "bin", "check"), prop, "--tier", tier], cwd=VERIF, env=env,
                              stdout=subprocess.PIPE, stderr=subprocess.STDOUT, text=True, timeout=3600)
        viol = [ln for ln in proc.stdout.splitlines() if ln.startswith("VIOLATION")]
        mach = [ln for ln in proc.stdout.splitlines() if ln.startswith("MACHINERY")]
        clauses = sorted(set(m.group(1) for ln in viol for m in [re.search(r"clause=(\S+)", ln)] if m))
        out["rc"] = proc.returncode
        out["clauses"] = clauses
        out["status"] = "machinery-failure" if mach else ("caught" if viol and proc.returncode == 1 else "MISSED")
        if mach:
            out["detail"] = mach[0][:300]
        return out
    finally:
        subprocess.run(["git", "-C", "/repo", "worktree", "remove", "--force", wt], stdout=subprocess.DEVNULL, stderr=subprocess.DEVNULL)
        shutil.rmtree(wt, ignore_errors=True)


def lane(seeds: List[str], tier: str) -> List[Dict[str, Any]]:
    res = []
    for s in seeds:
        try:
            r = run_seed(s, tier)
        except Exception as error:  # noqa: BLE001
            r = {"seed": s, "status": "error", "detail": repr(error)[:300]}
        print("%-70s %s %s" % (r["seed"], r["status"], ",".join(r.get("clauses", [])) or r.get("detail", "")), flush=True)
        res.append(r)
    return res


def main() -> int:
    ap = argparse.ArgumentParser()
    ap.add_argument("--lanes", type=int, default=4)
    ap.add_argument("--only", default="")
    ap.add_argument("--tier", default="quick")
    args = ap.parse_args()
    seeds = sorted(s for s in os.listdir(SEEDED) if os.path.isfile(os.path.join(SEEDED, s, "patch.diff"))
                   and os.path.isfile(os.path.join(SEEDED, s, "meta.json")) and re.search(args.only, s))
    by_prop: Dict[str, List[str]] = {}
    for s in seeds:
        by_prop.setdefault(json.load(open(os.path.join(SEEDED, s, "meta.json")))["property"], []).append(s)
    props = sorted(by_prop, key=lambda p: -len(by_prop[p]))
    lanes: List[List[str]] = [[] for _ in range(max(1, args.lanes))]
    for i, p in enumerate(props):
        lanes[i % len(lanes)] += by_prop[p]
    os.makedirs(SCRATCH, exist_ok=True)
    with ThreadPoolExecutor(max_workers=len(lanes)) as pool:
        results = [r for rs in pool.map(lambda ss: lane(ss, args.tier), lanes) for r in rs]
    shutil.rmtree(SCRATCH, ignore_errors=True)
    subprocess.run(["git", "-C", "/repo", "worktree", "prune"])
    bad = [r for r in results if r["status"] != "caught"]
    print("seeds: %d, caught: %d, other: %d" % (len(results), len(results) - len(bad), len(bad)))
    for r in bad:
        print("  %s: %s %s" % (r["seed"], r["status"], r.get("detail", "")))
    return 0 if not bad else 1


if __name__ == "__main__":
    sys.exit(main())
