#!/bin/sh
# usage: tools/try_seed_wt.sh <worktree> <prop> [checks...]
# Like try_seed.sh but never touches /repo: the worktree (with the change applied) is put in front
# of the import path.  Evidence written by these runs is from changed code: rerun the checks on the
# clean tree afterwards.
WT=$1; PROP=$2; shift 2
echo "== demo on /repo"; (cd /repo && timeout 180 /venv/bin/python $WT/demo_$PROP.py >/tmp/demo_clean_$PROP.out 2>&1; echo "exit=$?")
echo "== test suite with change"; (cd $WT && PYTHONPATH=$WT/src /venv/bin/python -m pytest -q -p no:cacheprovider --timeout=900 2>&1 | tail -1)
echo "== demo with change"; (cd $WT && PYTHONPATH=$WT/src timeout 180 /venv/bin/python $WT/demo_$PROP.py >/tmp/demo_patched_$PROP.out 2>&1; echo "exit=$?"); tail -2 /tmp/demo_patched_$PROP.out | cut -c1-200
cd /verif
for c in "$@"; do
  echo "== check $c with change"; PYTHONPATH=$WT/src bin/check $c > /tmp/seedwt_${PROP}_$c.out 2>&1; echo "rc=$?"; grep -E "VIOLATION|MACHINERY" /tmp/seedwt_${PROP}_$c.out | cut -c1-260 | head -6
done
