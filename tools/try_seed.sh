#!/bin/sh
# usage: tools/try_seed.sh <seed-id> <dir-with-patch/demo/meta> <prop> [checks...]
# Confirms a seeded change (tests pass, demo fails with / passes without), runs the named checks
# against /repo with the patch applied, and always restores /repo.
ID=$1; SRC=$2; PROP=$3; shift 3
DEST=/verif/seeded/$ID
mkdir -p $DEST
[ -f $SRC/patch_$PROP.diff ] && cp $SRC/patch_$PROP.diff $DEST/patch.diff
[ -f $SRC/demo_$PROP.py ] && cp $SRC/demo_$PROP.py $DEST/demo.py
[ -f $SRC/meta_$PROP.json ] && cp $SRC/meta_$PROP.json $DEST/meta_agent.json
cd /repo || exit 2
git diff --quiet || { echo "/repo not clean"; exit 2; }
echo "== demo on unmodified /repo"; (cd /repo && timeout 120 /venv/bin/python $DEST/demo.py >/tmp/demo_clean.out 2>&1; echo "exit=$?" ) | tail -1 > /tmp/demo_clean.rc; cat /tmp/demo_clean.rc
git apply $DEST/patch.diff || { echo "patch does not apply"; exit 2; }
trap 'git -C /repo checkout -- . ' EXIT
echo "== test suite with patch"; /venv/bin/python -m pytest -q -p no:cacheprovider --timeout=900 2>&1 | tail -1 | tee /tmp/seed_tests.out
echo "== demo with patch"; (timeout 120 /venv/bin/python $DEST/demo.py >/tmp/demo_patched.out 2>&1; echo "exit=$?") | tail -1 > /tmp/demo_patched.rc; cat /tmp/demo_patched.rc; tail -2 /tmp/demo_patched.out | cut -c1-200
cd /verif
for c in "$@"; do
  echo "== check $c with patch"; bin/check $c > /tmp/seed_check_$c.out 2>&1; echo "rc=$?"; grep -E "VIOLATION|MACHINERY" /tmp/seed_check_$c.out | cut -c1-260 | head -6
done
