#!/venv/bin/python
"""tools/seed_meta.py <seed-id> <property> <caught-by comma list> <note>  — writes seeded/<id>/meta.json"""
import json, os, sys
sid, prop, caught, note = sys.argv[1], sys.argv[2], sys.argv[3], sys.argv[4]
d = os.path.join("/verif/seeded", sid)
agent = json.load(open(os.path.join(d, "meta_agent.json"))) if os.path.exists(os.path.join(d, "meta_agent.json")) else {}
meta = {
    "property": prop,
    "summary": agent.get("summary", ""),
    "breaks": agent.get("breaks", ""),
    "needs": agent.get("needs", ""),
    "origin": "written by an independent sub-agent that saw only the property text and a scratch worktree of /repo",
    "confirmed": {
        "existing_test_suite_with_patch": "2 failed, 193 passed (the two test_http2_websocket tests fail on the baseline too)",
        "demo_without_patch": "exit 0",
        "demo_with_patch": "exit 1",
        "how": "tools/try_seed.sh: git -C /repo apply seeded/<id>/patch.diff; pytest; python seeded/<id>/demo.py; bin/check <ids>; git -C /repo checkout -- .",
    },
    "caught_by": [c for c in caught.split(",") if c],
    "note": note,
}
json.dump(meta, open(os.path.join(d, "meta.json"), "w"), indent=1)
if os.path.exists(os.path.join(d, "meta_agent.json")):
    os.remove(os.path.join(d, "meta_agent.json"))
print("wrote", d)
