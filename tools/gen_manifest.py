#!/venv/bin/python
"""Regenerate MANIFEST.json from harness/registry.py (run from /verif)."""
import json, os, sys
sys.path.insert(0, os.path.dirname(os.path.dirname(os.path.abspath(__file__))))
from harness import registry

props = [json.loads(l) for l in open("properties.jsonl")]
checks = []
na = []
for p in props:
    pid = p["id"]
    spec = registry.PROPS.get(pid)
    if spec is None or spec.get("disabled"):
        na.append({"property_id": pid, "reason": registry.NOT_APPLICABLE.get(pid, "check not built yet (work in progress)")})
        continue
    checks.append({
        "property_id": pid,
        "quick_cmd": "bin/check %s --tier quick" % pid,
        "thorough_cmd": "bin/check %s --tier thorough" % pid,
        "evidence_file": "/verif/evidence/%s.json" % pid,
        "replay_cmd_template": "bin/check %s --replay {path}" % pid,
        "engine": "tlc",
        "level_claimed": {
            "category": "model_checking",
            "text": spec.get("level_text", registry.DEFAULT_LEVEL_TEXT),
            "design_ref": spec.get("design_ref", "DESIGN.md section 5 (%s)" % pid),
        },
        "level_note": spec.get("level_note", registry.DEFAULT_LEVEL_NOTE),
        "technique": spec.get("technique", registry.DEFAULT_TECHNIQUE),
    })
manifest = {
    "version": 1,
    "setup_cmd": "bin/setup",
    "hooks": {
        "guard": "HYPERCORN_VERIF",
        "enable": "no source hooks: every property is observed at the system boundary (client bytes, ASGI messages, logger, transport), which the harness owns; nothing in /repo is instrumented",
        "baseline_off_cmd": "cd /repo && /venv/bin/python -m pytest -ra -q -p no:cacheprovider --timeout=900 --continue-on-collection-errors",
        "source_commits": registry.SOURCE_COMMITS,
        "add_only": True,
    },
    "engines": [
        {"name": "tlc", "path": "/opt/veriftools/tla/tla2tools.jar",
         "serves_properties": [c["property_id"] for c in checks],
         "kind_free_text": "TLC 1.8 explicit-state model checker: exhaustive checking of the TLA+ design specifications (spec/*.tla), generation of behaviours replayed into the implementation, and batch validation of implementation traces against the TLA+ property monitors (spec/props/*.tla)"},
    ],
    "checks": checks,
    "notes": "bin/check <id> runs: TLC on the design spec instances, stimulus generation (TLC behaviours + driver enumerations), execution on /repo's working tree under virtual time (asyncio and trio workers), TLC batch validation of the recorded traces against the property monitor, known-findings classification (KNOWN_FINDINGS.txt). Exit 2 = machinery failure.",
    "not_applicable": na,
}
json.dump(manifest, open("MANIFEST.json", "w"), indent=1)
print("checks:", [c["property_id"] for c in checks], "n/a:", [x["property_id"] for x in na])
